(* C15 model driver: reads histories (one op per line, `H <id>` starts a new history) on stdin, runs
   the extracted Gallina `step`, prints one canonical observation line per op.
   usage: c15_driver <narrow_fixed:0|1> <cast_fixed:0|1> <sab_slice_fixed:0|1>
   Only parsing and printing live here; every semantic decision is in the extracted code. *)
open C15_model

let nb = 6          (* buffer slots printed *)
let nv = 10         (* view slots printed *)

(* ---- numbers ---- *)
let rec pos_of_bits (bits : bool list) : positive =     (* little endian, last must be true *)
  match bits with
  | [] -> XH
  | [true] -> XH
  | b :: r -> if b then XI (pos_of_bits r) else XO (pos_of_bits r)

let z_of_hex (s : string) : z =
  (* most significant digit first *)
  let bits = ref [] in
  String.iter (fun c ->
    let d = match c with
      | '0'..'9' -> Char.code c - 48
      | 'a'..'f' -> Char.code c - 87
      | 'A'..'F' -> Char.code c - 55
      | _ -> failwith ("bad hex digit in " ^ s) in
    (* prepend 4 bits, least significant ends up first after the final reversal *)
    bits := (d land 1 = 1) :: (d land 2 = 2) :: (d land 4 = 4) :: (d land 8 = 8) :: !bits) s;
  (* !bits is least-significant-first already: each digit was pushed low bit first at the head,
     later digits (less significant) end up before earlier ones *)
  let l = !bits in
  (* strip high zeros *)
  let rec strip r = match r with
    | false :: t -> strip t
    | _ -> r in
  let l = List.rev (strip (List.rev l)) in
  match l with
  | [] -> Z0
  | _ -> Zpos (pos_of_bits l)

let rec bits_of_pos (p : positive) : bool list =
  match p with XH -> [true] | XO q -> false :: bits_of_pos q | XI q -> true :: bits_of_pos q

let hex_of_bits (l : bool list) : string =           (* little endian bit list *)
  let rec go l acc =
    match l with
    | [] -> acc
    | _ ->
      let take n l =
        let rec t n l a = if n = 0 then (List.rev a, l) else
            match l with [] -> t (n - 1) [] (false :: a) | x :: r -> t (n - 1) r (x :: a) in
        t n l [] in
      let (d, rest) = take 4 l in
      let v = List.fold_right (fun b a -> a * 2 + (if b then 1 else 0)) d 0 in
      go rest (String.make 1 "0123456789abcdef".[v] ^ acc) in
  match l with [] -> "0" | _ -> go l ""

let hex_of_z_abs (z : z) : string =
  match z with Z0 -> "0" | Zpos p | Zneg p -> hex_of_bits (bits_of_pos p)

let int_of_z (z : z) : int =
  match z with
  | Z0 -> 0
  | Zpos p -> List.fold_right (fun b a -> a * 2 + (if b then 1 else 0)) (bits_of_pos p) 0
  | Zneg p -> - (List.fold_right (fun b a -> a * 2 + (if b then 1 else 0)) (bits_of_pos p) 0)

let pad16 s = let n = String.length s in if n >= 16 then s else String.make (16 - n) '0' ^ s

let rec nat_of_int n = if n <= 0 then O else S (nat_of_int (n - 1))

(* ---- parsing ---- *)
let parse_val (t : string) : jsval =
  if t = "u" then JUndef
  else if t.[0] = 'f' then JNum (z_of_hex (String.sub t 1 (String.length t - 1)))
  else if t.[0] = 'g' then
    if t.[1] = '-' then JBig (Z.opp (z_of_hex (String.sub t 2 (String.length t - 2))))
    else JBig (z_of_hex (String.sub t 1 (String.length t - 1)))
  else failwith ("bad value " ^ t)

let parse_kind = function
  | "i8" -> Int8 | "u8" -> Uint8 | "c8" -> Uint8C | "i16" -> Int16 | "u16" -> Uint16
  | "i32" -> Int32 | "u32" -> Uint32 | "i64" -> BigInt64 | "u64" -> BigUint64
  | "f16" -> Float16 | "f32" -> Float32 | "f64" -> Float64
  | k -> failwith ("bad kind " ^ k)

let parse_mid (t : string) : mid =
  if t = "-" then NoMid
  else if t.[0] = 'd' then MidDetach (nat_of_int (int_of_string (String.sub t 1 (String.length t - 1))))
  else if t.[0] = 'r' then begin
    match String.split_on_char ':' (String.sub t 1 (String.length t - 1)) with
    | [b; n] -> MidResize (nat_of_int (int_of_string b), z_of_hex n)
    | _ -> failwith ("bad mid " ^ t)
  end else failwith ("bad mid " ^ t)

let parse_key (t : string) : key =
  if t = "m0" then KNegZero else KNum (z_of_hex (String.sub t 1 (String.length t - 1)))

let nat s = nat_of_int (int_of_string s)
let bool01 s = (s = "1")

let parse_op (toks : string list) : op =
  match toks with
  | ["newbuf"; d; sh; len; mx] ->
    NewBuf (nat d, bool01 sh, parse_val len, (if mx = "-" then None else Some (parse_val mx)))
  | ["resize"; b; n] -> Resize (nat b, parse_val n)
  | ["transfer"; d; b; fx; n] -> Transfer (nat d, nat b, bool01 fx, parse_val n)
  | ["detach"; b] -> Detach (nat b)
  | ["bslice"; d; b; st; en] -> BufSlice (nat d, nat b, parse_val st, parse_val en)
  | ["mkta"; d; k; b; off; len] -> MkTA (nat d, parse_kind k, nat b, parse_val off, parse_val len)
  | ["mktalen"; d; db; k; n] -> MkTALen (nat d, nat db, parse_kind k, parse_val n)
  | ["mktafrom"; d; db; k; src] -> MkTAFrom (nat d, nat db, parse_kind k, nat src)
  | ["mkdv"; d; b; off; len] -> MkDV (nat d, nat b, parse_val off, parse_val len)
  | ["get"; v; k] -> Get (nat v, parse_key k)
  | ["set"; v; k; x; m] -> SetE (nat v, parse_key k, parse_val x, parse_mid m)
  | ["dvget"; v; k; off; le] -> DvGet (nat v, parse_kind k, parse_val off, bool01 le)
  | ["dvset"; v; k; off; x; le; m] -> DvSet (nat v, parse_kind k, parse_val off, parse_val x, bool01 le, parse_mid m)
  | ["fill"; v; x; st; en; m] -> Fill (nat v, parse_val x, parse_val st, parse_val en, parse_mid m)
  | ["copywithin"; v; tg; st; en; m] -> CopyWithin (nat v, parse_val tg, parse_val st, parse_val en, parse_mid m)
  | ["setta"; v; src; off] -> SetTA (nat v, nat src, parse_val off)
  | "setarr" :: v :: off :: xs -> SetArr (nat v, List.map parse_val xs, parse_val off)
  | ["subarray"; d; v; st; en] -> Subarray (nat d, nat v, parse_val st, parse_val en)
  | ["slice"; d; db; v; st; en; m] -> Slice (nat d, nat db, nat v, parse_val st, parse_val en, parse_mid m)
  | ["at"; v; i] -> At (nat v, parse_val i)
  | ["with"; d; db; v; i; x] -> With (nat d, nat db, nat v, parse_val i, parse_val x)
  | _ -> failwith ("bad op: " ^ String.concat " " toks)

(* ---- printing ---- *)
let show_val (v : jsval) : string =
  match v with
  | JUndef -> "U"
  | JNum b -> if f64_is_nan b then "Fnan" else "F" ^ pad16 (hex_of_z_abs b)
  | JBig z -> (match z with Zneg _ -> "G-" ^ hex_of_z_abs z | _ -> "G" ^ hex_of_z_abs z)

let show_out (o : out) : string =
  match o with
  | OSkip -> "skip"
  | ODone -> "ok"
  | OVal v -> "V:" ^ show_val v
  | OThrow TypeError -> "E:TypeError"
  | OThrow RangeError -> "E:RangeError"
  | OPanic -> "panic"

let show_buf (b : bobs) : string =
  match b with
  | BNone -> "-"
  | BDetached -> "D"
  | BBytes (d, mx) ->
    let buf = Buffer.create 64 in
    Buffer.add_char buf '[';
    List.iter (fun z -> Buffer.add_string buf (Printf.sprintf "%02x" (int_of_z z))) d;
    Buffer.add_char buf ']';
    (match mx with None -> Buffer.add_string buf ":-" | Some m -> Buffer.add_string buf (":" ^ string_of_int (int_of_z m)));
    Buffer.contents buf

let show_view (v : vobs) : string =
  match v with
  | VNone -> "-"
  | VTAObs (l, bl, off) -> Printf.sprintf "t%d/%d/%d" (int_of_z l) (int_of_z bl) (int_of_z off)
  | VDVObs None -> "vE"
  | VDVObs (Some (bl, off)) -> Printf.sprintf "v%d/%d" (int_of_z bl) (int_of_z off)

let rec pad_to n dflt l =
  if n = 0 then [] else
    match l with
    | [] -> dflt :: pad_to (n - 1) dflt []
    | x :: r -> x :: pad_to (n - 1) dflt r

let show_obs (((bs, vs), poison) : (bobs list * vobs list) * bool) : string =
  String.concat "," (List.map show_buf (pad_to nb BNone bs)) ^ "|" ^
  String.concat "," (List.map show_view (pad_to nv VNone vs)) ^ "|" ^
  (if poison then "P" else "-")

let () =
  let c = { narrow_fixed = (Sys.argv.(1) = "1"); cast_fixed = (Sys.argv.(2) = "1");
            sab_slice_fixed = (Array.length Sys.argv > 3 && Sys.argv.(3) = "1") } in
  let st = ref init_state in
  (try
     while true do
       let line = input_line stdin in
       let toks = List.filter (fun s -> s <> "") (String.split_on_char ' ' (String.trim line)) in
       match toks with
       | [] -> ()
       | "H" :: _ -> st := init_state; print_endline line
       | _ ->
         (match (try Some (parse_op toks) with Failure m -> prerr_endline m; None) with
          | None -> print_endline "badop"
          | Some o ->
            let (s', r) = step c !st o in
            st := s';
            print_endline (show_out r ^ "|" ^ show_obs (observe s')))
     done
   with End_of_file -> ())
