
(** val negb : bool -> bool **)

let negb = function
| true -> false
| false -> true

type nat =
| O
| S of nat

(** val option_map : ('a1 -> 'a2) -> 'a1 option -> 'a2 option **)

let option_map f = function
| Some a -> Some (f a)
| None -> None

type ('a, 'b) sum =
| Inl of 'a
| Inr of 'b

(** val fst : ('a1 * 'a2) -> 'a1 **)

let fst = function
| (x, _) -> x

(** val snd : ('a1 * 'a2) -> 'a2 **)

let snd = function
| (_, y) -> y

(** val length : 'a1 list -> nat **)

let rec length = function
| [] -> O
| _ :: l' -> S (length l')

(** val app : 'a1 list -> 'a1 list -> 'a1 list **)

let rec app l m =
  match l with
  | [] -> m
  | a :: l1 -> a :: (app l1 m)

type comparison =
| Eq
| Lt
| Gt

(** val compOpp : comparison -> comparison **)

let compOpp = function
| Eq -> Eq
| Lt -> Gt
| Gt -> Lt

module Coq__1 = struct
 (** val add : nat -> nat -> nat **)
 let rec add n0 m =
   match n0 with
   | O -> m
   | S p -> S (add p m)
end
include Coq__1

type positive =
| XI of positive
| XO of positive
| XH

type n =
| N0
| Npos of positive

type z =
| Z0
| Zpos of positive
| Zneg of positive

(** val eqb : bool -> bool -> bool **)

let eqb b1 b2 =
  if b1 then b2 else if b2 then false else true

module Pos =
 struct
  type mask =
  | IsNul
  | IsPos of positive
  | IsNeg
 end

module Coq_Pos =
 struct
  (** val succ : positive -> positive **)

  let rec succ = function
  | XI p -> XO (succ p)
  | XO p -> XI p
  | XH -> XO XH

  (** val add : positive -> positive -> positive **)

  let rec add x y =
    match x with
    | XI p ->
      (match y with
       | XI q -> XO (add_carry p q)
       | XO q -> XI (add p q)
       | XH -> XO (succ p))
    | XO p ->
      (match y with
       | XI q -> XI (add p q)
       | XO q -> XO (add p q)
       | XH -> XI p)
    | XH -> (match y with
             | XI q -> XO (succ q)
             | XO q -> XI q
             | XH -> XO XH)

  (** val add_carry : positive -> positive -> positive **)

  and add_carry x y =
    match x with
    | XI p ->
      (match y with
       | XI q -> XI (add_carry p q)
       | XO q -> XO (add_carry p q)
       | XH -> XI (succ p))
    | XO p ->
      (match y with
       | XI q -> XO (add_carry p q)
       | XO q -> XI (add p q)
       | XH -> XO (succ p))
    | XH ->
      (match y with
       | XI q -> XI (succ q)
       | XO q -> XO (succ q)
       | XH -> XI XH)

  (** val pred_double : positive -> positive **)

  let rec pred_double = function
  | XI p -> XI (XO p)
  | XO p -> XI (pred_double p)
  | XH -> XH

  type mask = Pos.mask =
  | IsNul
  | IsPos of positive
  | IsNeg

  (** val succ_double_mask : mask -> mask **)

  let succ_double_mask = function
  | IsNul -> IsPos XH
  | IsPos p -> IsPos (XI p)
  | IsNeg -> IsNeg

  (** val double_mask : mask -> mask **)

  let double_mask = function
  | IsPos p -> IsPos (XO p)
  | x0 -> x0

  (** val double_pred_mask : positive -> mask **)

  let double_pred_mask = function
  | XI p -> IsPos (XO (XO p))
  | XO p -> IsPos (XO (pred_double p))
  | XH -> IsNul

  (** val sub_mask : positive -> positive -> mask **)

  let rec sub_mask x y =
    match x with
    | XI p ->
      (match y with
       | XI q -> double_mask (sub_mask p q)
       | XO q -> succ_double_mask (sub_mask p q)
       | XH -> IsPos (XO p))
    | XO p ->
      (match y with
       | XI q -> succ_double_mask (sub_mask_carry p q)
       | XO q -> double_mask (sub_mask p q)
       | XH -> IsPos (pred_double p))
    | XH -> (match y with
             | XH -> IsNul
             | _ -> IsNeg)

  (** val sub_mask_carry : positive -> positive -> mask **)

  and sub_mask_carry x y =
    match x with
    | XI p ->
      (match y with
       | XI q -> succ_double_mask (sub_mask_carry p q)
       | XO q -> double_mask (sub_mask p q)
       | XH -> IsPos (pred_double p))
    | XO p ->
      (match y with
       | XI q -> double_mask (sub_mask_carry p q)
       | XO q -> succ_double_mask (sub_mask_carry p q)
       | XH -> double_pred_mask p)
    | XH -> IsNeg

  (** val mul : positive -> positive -> positive **)

  let rec mul x y =
    match x with
    | XI p -> add y (XO (mul p y))
    | XO p -> XO (mul p y)
    | XH -> y

  (** val iter : ('a1 -> 'a1) -> 'a1 -> positive -> 'a1 **)

  let rec iter f x = function
  | XI n' -> f (iter f (iter f x n') n')
  | XO n' -> iter f (iter f x n') n'
  | XH -> f x

  (** val pow : positive -> positive -> positive **)

  let pow x =
    iter (mul x) XH

  (** val size : positive -> positive **)

  let rec size = function
  | XI p0 -> succ (size p0)
  | XO p0 -> succ (size p0)
  | XH -> XH

  (** val compare_cont : comparison -> positive -> positive -> comparison **)

  let rec compare_cont r x y =
    match x with
    | XI p ->
      (match y with
       | XI q -> compare_cont r p q
       | XO q -> compare_cont Gt p q
       | XH -> Gt)
    | XO p ->
      (match y with
       | XI q -> compare_cont Lt p q
       | XO q -> compare_cont r p q
       | XH -> Gt)
    | XH -> (match y with
             | XH -> r
             | _ -> Lt)

  (** val compare : positive -> positive -> comparison **)

  let compare =
    compare_cont Eq

  (** val eqb : positive -> positive -> bool **)

  let rec eqb p q =
    match p with
    | XI p0 -> (match q with
                | XI q0 -> eqb p0 q0
                | _ -> false)
    | XO p0 -> (match q with
                | XO q0 -> eqb p0 q0
                | _ -> false)
    | XH -> (match q with
             | XH -> true
             | _ -> false)

  (** val iter_op : ('a1 -> 'a1 -> 'a1) -> positive -> 'a1 -> 'a1 **)

  let rec iter_op op0 p a =
    match p with
    | XI p0 -> op0 a (iter_op op0 p0 (op0 a a))
    | XO p0 -> iter_op op0 p0 (op0 a a)
    | XH -> a

  (** val to_nat : positive -> nat **)

  let to_nat x =
    iter_op Coq__1.add x (S O)

  (** val of_succ_nat : nat -> positive **)

  let rec of_succ_nat = function
  | O -> XH
  | S x -> succ (of_succ_nat x)
 end

module N =
 struct
  (** val succ_double : n -> n **)

  let succ_double = function
  | N0 -> Npos XH
  | Npos p -> Npos (XI p)

  (** val double : n -> n **)

  let double = function
  | N0 -> N0
  | Npos p -> Npos (XO p)

  (** val succ : n -> n **)

  let succ = function
  | N0 -> Npos XH
  | Npos p -> Npos (Coq_Pos.succ p)

  (** val add : n -> n -> n **)

  let add n0 m =
    match n0 with
    | N0 -> m
    | Npos p -> (match m with
                 | N0 -> n0
                 | Npos q -> Npos (Coq_Pos.add p q))

  (** val sub : n -> n -> n **)

  let sub n0 m =
    match n0 with
    | N0 -> N0
    | Npos n' ->
      (match m with
       | N0 -> n0
       | Npos m' ->
         (match Coq_Pos.sub_mask n' m' with
          | Coq_Pos.IsPos p -> Npos p
          | _ -> N0))

  (** val mul : n -> n -> n **)

  let mul n0 m =
    match n0 with
    | N0 -> N0
    | Npos p -> (match m with
                 | N0 -> N0
                 | Npos q -> Npos (Coq_Pos.mul p q))

  (** val compare : n -> n -> comparison **)

  let compare n0 m =
    match n0 with
    | N0 -> (match m with
             | N0 -> Eq
             | Npos _ -> Lt)
    | Npos n' -> (match m with
                  | N0 -> Gt
                  | Npos m' -> Coq_Pos.compare n' m')

  (** val eqb : n -> n -> bool **)

  let eqb n0 m =
    match n0 with
    | N0 -> (match m with
             | N0 -> true
             | Npos _ -> false)
    | Npos p -> (match m with
                 | N0 -> false
                 | Npos q -> Coq_Pos.eqb p q)

  (** val leb : n -> n -> bool **)

  let leb x y =
    match compare x y with
    | Gt -> false
    | _ -> true

  (** val ltb : n -> n -> bool **)

  let ltb x y =
    match compare x y with
    | Lt -> true
    | _ -> false

  (** val min : n -> n -> n **)

  let min n0 n' =
    match compare n0 n' with
    | Gt -> n'
    | _ -> n0

  (** val pow : n -> n -> n **)

  let pow n0 = function
  | N0 -> Npos XH
  | Npos p0 -> (match n0 with
                | N0 -> N0
                | Npos q -> Npos (Coq_Pos.pow q p0))

  (** val log2 : n -> n **)

  let log2 = function
  | N0 -> N0
  | Npos p0 ->
    (match p0 with
     | XI p -> Npos (Coq_Pos.size p)
     | XO p -> Npos (Coq_Pos.size p)
     | XH -> N0)

  (** val pos_div_eucl : positive -> n -> n * n **)

  let rec pos_div_eucl a b =
    match a with
    | XI a' ->
      let (q, r) = pos_div_eucl a' b in
      let r' = succ_double r in
      if leb b r' then ((succ_double q), (sub r' b)) else ((double q), r')
    | XO a' ->
      let (q, r) = pos_div_eucl a' b in
      let r' = double r in
      if leb b r' then ((succ_double q), (sub r' b)) else ((double q), r')
    | XH ->
      (match b with
       | N0 -> (N0, (Npos XH))
       | Npos p -> (match p with
                    | XH -> ((Npos XH), N0)
                    | _ -> (N0, (Npos XH))))

  (** val div_eucl : n -> n -> n * n **)

  let div_eucl a b =
    match a with
    | N0 -> (N0, N0)
    | Npos na -> (match b with
                  | N0 -> (N0, a)
                  | Npos _ -> pos_div_eucl na b)

  (** val div : n -> n -> n **)

  let div a b =
    fst (div_eucl a b)

  (** val modulo : n -> n -> n **)

  let modulo a b =
    snd (div_eucl a b)

  (** val to_nat : n -> nat **)

  let to_nat = function
  | N0 -> O
  | Npos p -> Coq_Pos.to_nat p

  (** val of_nat : nat -> n **)

  let of_nat = function
  | O -> N0
  | S n' -> Npos (Coq_Pos.of_succ_nat n')
 end

(** val nth_error : 'a1 list -> nat -> 'a1 option **)

let rec nth_error l = function
| O -> (match l with
        | [] -> None
        | x :: _ -> Some x)
| S n1 -> (match l with
           | [] -> None
           | _ :: l0 -> nth_error l0 n1)

(** val removelast : 'a1 list -> 'a1 list **)

let rec removelast = function
| [] -> []
| a :: l0 -> (match l0 with
              | [] -> []
              | _ :: _ -> a :: (removelast l0))

(** val rev : 'a1 list -> 'a1 list **)

let rec rev = function
| [] -> []
| x :: l' -> app (rev l') (x :: [])

(** val map : ('a1 -> 'a2) -> 'a1 list -> 'a2 list **)

let rec map f = function
| [] -> []
| a :: t -> (f a) :: (map f t)

(** val flat_map : ('a1 -> 'a2 list) -> 'a1 list -> 'a2 list **)

let rec flat_map f = function
| [] -> []
| x :: t -> app (f x) (flat_map f t)

module Z =
 struct
  (** val double : z -> z **)

  let double = function
  | Z0 -> Z0
  | Zpos p -> Zpos (XO p)
  | Zneg p -> Zneg (XO p)

  (** val succ_double : z -> z **)

  let succ_double = function
  | Z0 -> Zpos XH
  | Zpos p -> Zpos (XI p)
  | Zneg p -> Zneg (Coq_Pos.pred_double p)

  (** val pred_double : z -> z **)

  let pred_double = function
  | Z0 -> Zneg XH
  | Zpos p -> Zpos (Coq_Pos.pred_double p)
  | Zneg p -> Zneg (XI p)

  (** val pos_sub : positive -> positive -> z **)

  let rec pos_sub x y =
    match x with
    | XI p ->
      (match y with
       | XI q -> double (pos_sub p q)
       | XO q -> succ_double (pos_sub p q)
       | XH -> Zpos (XO p))
    | XO p ->
      (match y with
       | XI q -> pred_double (pos_sub p q)
       | XO q -> double (pos_sub p q)
       | XH -> Zpos (Coq_Pos.pred_double p))
    | XH ->
      (match y with
       | XI q -> Zneg (XO q)
       | XO q -> Zneg (Coq_Pos.pred_double q)
       | XH -> Z0)

  (** val add : z -> z -> z **)

  let add x y =
    match x with
    | Z0 -> y
    | Zpos x' ->
      (match y with
       | Z0 -> x
       | Zpos y' -> Zpos (Coq_Pos.add x' y')
       | Zneg y' -> pos_sub x' y')
    | Zneg x' ->
      (match y with
       | Z0 -> x
       | Zpos y' -> pos_sub y' x'
       | Zneg y' -> Zneg (Coq_Pos.add x' y'))

  (** val opp : z -> z **)

  let opp = function
  | Z0 -> Z0
  | Zpos x0 -> Zneg x0
  | Zneg x0 -> Zpos x0

  (** val sub : z -> z -> z **)

  let sub m n0 =
    add m (opp n0)

  (** val compare : z -> z -> comparison **)

  let compare x y =
    match x with
    | Z0 -> (match y with
             | Z0 -> Eq
             | Zpos _ -> Lt
             | Zneg _ -> Gt)
    | Zpos x' -> (match y with
                  | Zpos y' -> Coq_Pos.compare x' y'
                  | _ -> Gt)
    | Zneg x' ->
      (match y with
       | Zneg y' -> compOpp (Coq_Pos.compare x' y')
       | _ -> Lt)

  (** val leb : z -> z -> bool **)

  let leb x y =
    match compare x y with
    | Gt -> false
    | _ -> true

  (** val ltb : z -> z -> bool **)

  let ltb x y =
    match compare x y with
    | Lt -> true
    | _ -> false

  (** val eqb : z -> z -> bool **)

  let eqb x y =
    match x with
    | Z0 -> (match y with
             | Z0 -> true
             | _ -> false)
    | Zpos p -> (match y with
                 | Zpos q -> Coq_Pos.eqb p q
                 | _ -> false)
    | Zneg p -> (match y with
                 | Zneg q -> Coq_Pos.eqb p q
                 | _ -> false)

  (** val max : z -> z -> z **)

  let max n0 m =
    match compare n0 m with
    | Lt -> m
    | _ -> n0

  (** val min : z -> z -> z **)

  let min n0 m =
    match compare n0 m with
    | Gt -> m
    | _ -> n0

  (** val to_nat : z -> nat **)

  let to_nat = function
  | Zpos p -> Coq_Pos.to_nat p
  | _ -> O

  (** val to_N : z -> n **)

  let to_N = function
  | Zpos p -> Npos p
  | _ -> N0

  (** val of_N : n -> z **)

  let of_N = function
  | N0 -> Z0
  | Npos p -> Zpos p
 end

type other =
| OUndef
| ONull
| OBool of bool
| OStr of n
| OObj of n

type value =
| VInt of z
| VDouble of n
| VOther of other

(** val p52 : n **)

let p52 =
  Npos (XO (XO (XO (XO (XO (XO (XO (XO (XO (XO (XO (XO (XO (XO (XO (XO (XO
    (XO (XO (XO (XO (XO (XO (XO (XO (XO (XO (XO (XO (XO (XO (XO (XO (XO (XO
    (XO (XO (XO (XO (XO (XO (XO (XO (XO (XO (XO (XO (XO (XO (XO (XO (XO
    XH))))))))))))))))))))))))))))))))))))))))))))))))))))

(** val p63 : n **)

let p63 =
  Npos (XO (XO (XO (XO (XO (XO (XO (XO (XO (XO (XO (XO (XO (XO (XO (XO (XO
    (XO (XO (XO (XO (XO (XO (XO (XO (XO (XO (XO (XO (XO (XO (XO (XO (XO (XO
    (XO (XO (XO (XO (XO (XO (XO (XO (XO (XO (XO (XO (XO (XO (XO (XO (XO (XO
    (XO (XO (XO (XO (XO (XO (XO (XO (XO (XO
    XH)))))))))))))))))))))))))))))))))))))))))))))))))))))))))))))))

(** val cANON_NAN : n **)

let cANON_NAN =
  Npos (XO (XO (XO (XO (XO (XO (XO (XO (XO (XO (XO (XO (XO (XO (XO (XO (XO
    (XO (XO (XO (XO (XO (XO (XO (XO (XO (XO (XO (XO (XO (XO (XO (XO (XO (XO
    (XO (XO (XO (XO (XO (XO (XO (XO (XO (XO (XO (XO (XO (XO (XO (XO (XI (XI
    (XI (XI (XI (XI (XI (XI (XI (XI (XI
    XH))))))))))))))))))))))))))))))))))))))))))))))))))))))))))))))

(** val nEG_ZERO : n **)

let nEG_ZERO =
  Npos (XO (XO (XO (XO (XO (XO (XO (XO (XO (XO (XO (XO (XO (XO (XO (XO (XO
    (XO (XO (XO (XO (XO (XO (XO (XO (XO (XO (XO (XO (XO (XO (XO (XO (XO (XO
    (XO (XO (XO (XO (XO (XO (XO (XO (XO (XO (XO (XO (XO (XO (XO (XO (XO (XO
    (XO (XO (XO (XO (XO (XO (XO (XO (XO (XO
    XH)))))))))))))))))))))))))))))))))))))))))))))))))))))))))))))))

(** val i32_MIN : z **)

let i32_MIN =
  Zneg (XO (XO (XO (XO (XO (XO (XO (XO (XO (XO (XO (XO (XO (XO (XO (XO (XO
    (XO (XO (XO (XO (XO (XO (XO (XO (XO (XO (XO (XO (XO (XO
    XH)))))))))))))))))))))))))))))))

(** val i32_MAX : z **)

let i32_MAX =
  Zpos (XI (XI (XI (XI (XI (XI (XI (XI (XI (XI (XI (XI (XI (XI (XI (XI (XI
    (XI (XI (XI (XI (XI (XI (XI (XI (XI (XI (XI (XI (XI
    XH))))))))))))))))))))))))))))))

(** val f64_sign : n -> bool **)

let f64_sign b =
  N.leb p63 b

(** val f64_exp : n -> n **)

let f64_exp b =
  N.modulo (N.div b p52) (Npos (XO (XO (XO (XO (XO (XO (XO (XO (XO (XO (XO
    XH))))))))))))

(** val f64_man : n -> n **)

let f64_man b =
  N.modulo b p52

(** val f64_is_nan : n -> bool **)

let f64_is_nan b =
  (&&)
    (N.eqb (f64_exp b) (Npos (XI (XI (XI (XI (XI (XI (XI (XI (XI (XI
      XH)))))))))))) (negb (N.eqb (f64_man b) N0))

(** val canon : n -> n **)

let canon b =
  if f64_is_nan b then cANON_NAN else b

(** val f64_to_i32_sat : n -> z **)

let f64_to_i32_sat b =
  let e = f64_exp b in
  let m = f64_man b in
  let neg = f64_sign b in
  if N.eqb e (Npos (XI (XI (XI (XI (XI (XI (XI (XI (XI (XI XH)))))))))))
  then if N.eqb m N0 then if neg then i32_MIN else i32_MAX else Z0
  else if N.ltb e (Npos (XI (XI (XI (XI (XI (XI (XI (XI (XI XH))))))))))
       then Z0
       else if N.ltb (Npos (XO (XI (XI (XI (XI (XO (XO (XO (XO (XO
                 XH))))))))))) e
            then if neg then i32_MIN else i32_MAX
            else let mag =
                   Z.of_N
                     (N.div (N.add p52 m)
                       (N.pow (Npos (XO XH))
                         (N.sub (Npos (XO (XO (XI (XO (XI XH))))))
                           (N.sub e (Npos (XI (XI (XI (XI (XI (XI (XI (XI (XI
                             XH))))))))))))))
                 in
                 let x = if neg then Z.opp mag else mag in
                 Z.max i32_MIN (Z.min i32_MAX x)

(** val pos_to_f64 : n -> n **)

let pos_to_f64 a =
  let e = N.log2 a in
  N.add
    (N.mul (N.add (Npos (XI (XI (XI (XI (XI (XI (XI (XI (XI XH)))))))))) e)
      p52)
    (N.mul (N.sub a (N.pow (Npos (XO XH)) e))
      (N.pow (Npos (XO XH)) (N.sub (Npos (XO (XO (XI (XO (XI XH)))))) e)))

(** val i32_to_f64 : z -> n **)

let i32_to_f64 z0 =
  if Z.eqb z0 Z0
  then N0
  else if Z.ltb z0 Z0
       then N.add p63 (pos_to_f64 (Z.to_N (Z.opp z0)))
       else pos_to_f64 (Z.to_N z0)

(** val as_i32 : value -> z option **)

let as_i32 = function
| VInt z0 -> Some z0
| VDouble b ->
  let z0 = f64_to_i32_sat b in
  if N.eqb (i32_to_f64 z0) b then Some z0 else None
| VOther _ -> None

(** val as_number : value -> n option **)

let as_number = function
| VInt z0 -> Some (i32_to_f64 z0)
| VDouble b -> Some b
| VOther _ -> None

(** val from_i32 : z -> value **)

let from_i32 z0 =
  VInt z0

(** val from_f64 : n -> value **)

let from_f64 b =
  VDouble (canon b)

(** val num_bits : value -> n option **)

let num_bits = function
| VInt z0 -> Some (i32_to_f64 z0)
| VDouble b -> Some (canon b)
| VOther _ -> None

(** val vnorm : value -> value **)

let vnorm = function
| VDouble b ->
  (match as_i32 (VDouble b) with
   | Some z0 -> VInt z0
   | None -> VDouble (canon b))
| x -> x

type desc =
| DData of value * bool * bool * bool
| DAcc of n option * n option * bool * bool

(** val simple : value -> desc **)

let simple v =
  DData (v, true, true, true)

(** val property_simple_value : desc -> value option **)

let property_simple_value = function
| DData (v, w, e, c) ->
  if w then if e then if c then Some v else None else None else None
| DAcc (_, _, _, _) -> None

(** val dnorm : desc -> desc **)

let dnorm = function
| DData (v, w, e, c) -> DData ((vnorm v), w, e, c)
| DAcc (g, s, e, c) -> DAcc (g, s, e, c)

(** val d_configurable : desc -> bool **)

let d_configurable = function
| DData (_, _, _, c) -> c
| DAcc (_, _, _, c) -> c

(** val d_enumerable : desc -> bool **)

let d_enumerable = function
| DData (_, _, e, _) -> e
| DAcc (_, _, e, _) -> e

(** val mget : (n * 'a1) list -> n -> 'a1 option **)

let rec mget m k =
  match m with
  | [] -> None
  | p :: t -> let (k', a) = p in if N.eqb k' k then Some a else mget t k

(** val minsert : (n * 'a1) list -> n -> 'a1 -> bool * (n * 'a1) list **)

let rec minsert m k a =
  match m with
  | [] -> (false, ((k, a) :: []))
  | p :: t ->
    let (k', a') = p in
    if N.eqb k' k
    then (true, ((k, a) :: t))
    else let (r, t') = minsert t k a in (r, ((k', a') :: t'))

(** val mremove : (n * 'a1) list -> n -> bool * (n * 'a1) list **)

let rec mremove m k =
  match m with
  | [] -> (false, [])
  | p :: t ->
    let (k', a') = p in
    if N.eqb k' k
    then (true, t)
    else let (r, t') = mremove t k in (r, ((k', a') :: t'))

(** val mkeys : (n * 'a1) list -> n list **)

let mkeys m =
  map fst m

(** val enum_from : n -> 'a1 list -> (n * 'a1) list **)

let rec enum_from i = function
| [] -> []
| a :: t -> (i, a) :: (enum_from (N.succ i) t)

(** val enumerate : 'a1 list -> (n * 'a1) list **)

let enumerate l =
  enum_from N0 l

(** val len : 'a1 list -> n **)

let len l =
  N.of_nat (length l)

(** val vget : 'a1 list -> n -> 'a1 option **)

let vget l k =
  nth_error l (N.to_nat k)

(** val set_nth : 'a1 list -> nat -> 'a1 -> 'a1 list **)

let rec set_nth l n0 a =
  match l with
  | [] -> []
  | h :: t -> (match n0 with
               | O -> a :: t
               | S n' -> h :: (set_nth t n' a))

(** val vset : 'a1 list -> n -> 'a1 -> 'a1 list **)

let vset l k a =
  set_nth l (N.to_nat k) a

(** val dense_put : 'a1 list -> n -> 'a1 -> bool * 'a1 list **)

let dense_put l k a =
  if N.eqb k (len l) then (false, (app l (a :: []))) else (true, (vset l k a))

type storage =
| DenseI32 of z list
| DenseF64 of n list
| DenseElement of value list
| SparseElement of (n * value) list
| SparseProperty of (n * desc) list

(** val storage_default : storage **)

let storage_default =
  DenseI32 []

(** val get : storage -> n -> desc option **)

let get s k =
  match s with
  | DenseI32 l -> option_map (fun z0 -> simple (from_i32 z0)) (vget l k)
  | DenseF64 l -> option_map (fun b -> simple (from_f64 b)) (vget l k)
  | DenseElement l -> option_map simple (vget l k)
  | SparseElement m -> option_map simple (mget m k)
  | SparseProperty m -> mget m k

(** val map_descs : (n * value) list -> (n * desc) list **)

let map_descs m =
  map (fun kv -> ((fst kv), (simple (snd kv)))) m

(** val convert_to_sparse_and_insert :
    storage -> n -> desc -> bool * storage **)

let convert_to_sparse_and_insert s k d =
  match s with
  | DenseI32 l ->
    let (r, m) = minsert (map_descs (enumerate (map from_i32 l))) k d in
    (r, (SparseProperty m))
  | DenseF64 l ->
    let (r, m) = minsert (map_descs (enumerate (map from_f64 l))) k d in
    (r, (SparseProperty m))
  | DenseElement l ->
    let (r, m) = minsert (map_descs (enumerate l)) k d in
    (r, (SparseProperty m))
  | SparseElement m0 ->
    let (r, m) = minsert (map_descs m0) k d in (r, (SparseProperty m))
  | SparseProperty m0 ->
    let (r, m) = minsert m0 k d in (r, (SparseProperty m))

(** val insert : storage -> n -> desc -> bool * storage **)

let insert s k d =
  match property_simple_value d with
  | Some v ->
    (match s with
     | DenseI32 l ->
       if N.leb k (len l)
       then (match as_i32 v with
             | Some z0 -> let (r, l') = dense_put l k z0 in (r, (DenseI32 l'))
             | None ->
               (match as_number v with
                | Some b ->
                  let (r, l') = dense_put (map i32_to_f64 l) k b in
                  (r, (DenseF64 l'))
                | None ->
                  let (r, l') = dense_put (map from_i32 l) k v in
                  (r, (DenseElement l'))))
       else let (r, m) = minsert (enumerate (map from_i32 l)) k v in
            (r, (SparseElement m))
     | DenseF64 l ->
       if N.leb k (len l)
       then (match as_number v with
             | Some b -> let (r, l') = dense_put l k b in (r, (DenseF64 l'))
             | None ->
               let (r, l') = dense_put (map from_f64 l) k v in
               (r, (DenseElement l')))
       else let (r, m) = minsert (enumerate (map from_f64 l)) k v in
            (r, (SparseElement m))
     | DenseElement l ->
       if N.leb k (len l)
       then let (r, l') = dense_put l k v in (r, (DenseElement l'))
       else let (r, m) = minsert (enumerate l) k v in (r, (SparseElement m))
     | SparseElement m0 ->
       let (r, m) = minsert m0 k v in (r, (SparseElement m))
     | SparseProperty m0 ->
       let (r, m) = minsert m0 k (simple v) in (r, (SparseProperty m)))
  | None -> convert_to_sparse_and_insert s k d

(** val convert_to_sparse_and_remove : storage -> n -> bool * storage **)

let convert_to_sparse_and_remove s k =
  match s with
  | DenseI32 l ->
    let (r, m) = mremove (enumerate (map from_i32 l)) k in
    (r, (SparseElement m))
  | DenseF64 l ->
    let (r, m) = mremove (enumerate (map from_f64 l)) k in
    (r, (SparseElement m))
  | DenseElement l ->
    let (r, m) = mremove (enumerate l) k in (r, (SparseElement m))
  | SparseElement m0 -> let (r, m) = mremove m0 k in (r, (SparseElement m))
  | SparseProperty m0 -> let (r, m) = mremove m0 k in (r, (SparseProperty m))

(** val remove : storage -> n -> bool * storage **)

let remove s k =
  match s with
  | DenseI32 l ->
    if N.eqb (N.add k (Npos XH)) (len l)
    then (true, (DenseI32 (removelast l)))
    else if N.leb (len l) k
         then (false, s)
         else convert_to_sparse_and_remove s k
  | DenseF64 l ->
    if N.eqb (N.add k (Npos XH)) (len l)
    then (true, (DenseF64 (removelast l)))
    else if N.leb (len l) k
         then (false, s)
         else convert_to_sparse_and_remove s k
  | DenseElement l ->
    if N.eqb (N.add k (Npos XH)) (len l)
    then (true, (DenseElement (removelast l)))
    else if N.leb (len l) k
         then (false, s)
         else convert_to_sparse_and_remove s k
  | SparseElement m0 -> let (r, m) = mremove m0 k in (r, (SparseElement m))
  | SparseProperty m0 -> let (r, m) = mremove m0 k in (r, (SparseProperty m))

(** val push_dense : storage -> value -> bool * storage **)

let push_dense s v =
  match s with
  | DenseI32 l ->
    (match as_i32 v with
     | Some z0 -> (true, (DenseI32 (app l (z0 :: []))))
     | None ->
       (match as_number v with
        | Some b -> (true, (DenseF64 (app (map i32_to_f64 l) (b :: []))))
        | None -> (true, (DenseElement (app (map from_i32 l) (v :: []))))))
  | DenseF64 l ->
    (match as_number v with
     | Some b -> (true, (DenseF64 (app l (b :: []))))
     | None -> (true, (DenseElement (app (map from_f64 l) (v :: [])))))
  | DenseElement l -> (true, (DenseElement (app l (v :: []))))
  | _ -> (false, s)

(** val transform_to_sparse : storage -> storage **)

let transform_to_sparse s = match s with
| DenseI32 l -> SparseElement (enumerate (map from_i32 l))
| DenseF64 l -> SparseElement (enumerate (map from_f64 l))
| DenseElement l -> SparseElement (enumerate l)
| _ -> s

(** val nseq : n -> nat -> n list **)

let rec nseq start = function
| O -> []
| S n' -> start :: (nseq (N.succ start) n')

(** val keys : storage -> n list **)

let keys = function
| DenseI32 l -> nseq N0 (length l)
| DenseF64 l -> nseq N0 (length l)
| DenseElement l -> nseq N0 (length l)
| SparseElement m -> mkeys m
| SparseProperty m -> mkeys m

(** val get_dense_property : storage -> n -> value option **)

let get_dense_property s k =
  match s with
  | DenseI32 l -> option_map from_i32 (vget l k)
  | DenseF64 l -> option_map from_f64 (vget l k)
  | DenseElement l -> vget l k
  | _ -> None

(** val set_dense_property : storage -> n -> value -> storage option **)

let set_dense_property s k v =
  match s with
  | DenseI32 l ->
    if N.ltb k (len l)
    then (match v with
          | VInt n0 -> Some (DenseI32 (vset l k n0))
          | VDouble b ->
            let z0 = f64_to_i32_sat b in
            if N.eqb (i32_to_f64 z0) b
            then Some (DenseI32 (vset l k z0))
            else Some (DenseF64 (vset (map i32_to_f64 l) k b))
          | VOther _ -> Some (DenseElement (vset (map from_i32 l) k v)))
    else None
  | DenseF64 l ->
    if N.ltb k (len l)
    then (match as_number v with
          | Some b -> Some (DenseF64 (vset l k b))
          | None -> Some (DenseElement (vset (map from_f64 l) k v)))
    else None
  | DenseElement l ->
    if N.ltb k (len l) then Some (DenseElement (vset l k v)) else None
  | _ -> None

(** val shift_dense : storage -> n -> (value * storage) option **)

let shift_dense s n0 =
  match s with
  | DenseI32 l ->
    (match l with
     | [] -> None
     | z0 :: t ->
       if N.leb n0 (len (z0 :: t))
       then Some ((from_i32 z0), (DenseI32 t))
       else None)
  | DenseF64 l ->
    (match l with
     | [] -> None
     | b :: t ->
       if N.leb n0 (len (b :: t))
       then Some ((from_f64 b), (DenseF64 t))
       else None)
  | DenseElement l ->
    (match l with
     | [] -> None
     | v :: t ->
       if N.leb n0 (len (v :: t)) then Some (v, (DenseElement t)) else None)
  | _ -> None

(** val abs : storage -> n -> desc option **)

let abs s k =
  match s with
  | DenseI32 l -> option_map (fun z0 -> simple (VInt z0)) (vget l k)
  | DenseF64 l -> option_map (fun b -> simple (vnorm (VDouble b))) (vget l k)
  | DenseElement l -> option_map (fun v -> simple (vnorm v)) (vget l k)
  | SparseElement m -> option_map (fun v -> simple (vnorm v)) (mget m k)
  | SparseProperty m -> option_map dnorm (mget m k)

(** val is_some : 'a1 option -> bool **)

let is_some = function
| Some _ -> true
| None -> false

type form =
| FDenseI32
| FDenseF64
| FDenseElement
| FSparseElement
| FSparseProperty

(** val form_of : storage -> form **)

let form_of = function
| DenseI32 _ -> FDenseI32
| DenseF64 _ -> FDenseF64
| DenseElement _ -> FDenseElement
| SparseElement _ -> FSparseElement
| SparseProperty _ -> FSparseProperty

(** val ninsert : n -> n list -> n list **)

let rec ninsert x l = match l with
| [] -> x :: []
| y :: t -> if N.leb x y then x :: l else y :: (ninsert x t)

(** val nsort : n list -> n list **)

let rec nsort = function
| [] -> []
| x :: t -> ninsert x (nsort t)

(** val in_i32b : z -> bool **)

let in_i32b z0 =
  (&&) (Z.leb i32_MIN z0) (Z.leb z0 i32_MAX)

(** val wfvb : value -> bool **)

let wfvb = function
| VInt z0 -> in_i32b z0
| _ -> true

(** val wfdb : desc -> bool **)

let wfdb = function
| DData (v, _, _, _) -> wfvb v
| DAcc (_, _, _, _) -> true

type err =
| TypeError
| RangeError
| Unsupported
| Internal

type kind =
| KArray
| KPlain

type event =
| EGet of n
| ESet of n * value

type meta = { m_kind : kind; m_len : desc; m_ext : bool; m_log : event list }

(** val with_len : meta -> desc -> meta **)

let with_len m d =
  { m_kind = m.m_kind; m_len = d; m_ext = m.m_ext; m_log = m.m_log }

(** val with_ext : meta -> bool -> meta **)

let with_ext m b =
  { m_kind = m.m_kind; m_len = m.m_len; m_ext = b; m_log = m.m_log }

(** val with_log : meta -> event list -> meta **)

let with_log m l =
  { m_kind = m.m_kind; m_len = m.m_len; m_ext = m.m_ext; m_log = l }

type 'a prog =
| Ret of 'a
| Throw of err
| PGet of n * (desc option -> 'a prog)
| PIns of n * desc * 'a prog
| PRem of n * 'a prog
| PKeys of (n list -> 'a prog)
| PMeta of (meta -> 'a prog)
| PSetMeta of meta * 'a prog

(** val bind : 'a1 prog -> ('a1 -> 'a2 prog) -> 'a2 prog **)

let rec bind p g =
  match p with
  | Ret a -> g a
  | Throw e -> Throw e
  | PGet (k, f) -> PGet (k, (fun x -> bind (f x) g))
  | PIns (k, d, f) -> PIns (k, d, (bind f g))
  | PRem (k, f) -> PRem (k, (bind f g))
  | PKeys f -> PKeys (fun x -> bind (f x) g)
  | PMeta f -> PMeta (fun x -> bind (f x) g)
  | PSetMeta (m, f) -> PSetMeta (m, (bind f g))

(** val get_own : n -> desc option prog **)

let get_own k =
  PGet (k, (fun x -> Ret x))

(** val ins : n -> desc -> unit prog **)

let ins k d =
  PIns (k, d, (Ret ()))

(** val rem : n -> unit prog **)

let rem k =
  PRem (k, (Ret ()))

(** val own_keys : n list prog **)

let own_keys =
  PKeys (fun x -> Ret x)

(** val get_meta : meta prog **)

let get_meta =
  PMeta (fun x -> Ret x)

(** val set_meta : meta -> unit prog **)

let set_meta m =
  PSetMeta (m, (Ret ()))

(** val log_event : event -> unit prog **)

let log_event e =
  bind get_meta (fun m -> set_meta (with_log m (app m.m_log (e :: []))))

type astore = (n * desc) list

(** val ainsert : astore -> n -> desc -> astore **)

let rec ainsert a k d =
  match a with
  | [] -> (k, d) :: []
  | p :: t ->
    let (k', d') = p in
    if N.ltb k k'
    then (k, d) :: a
    else if N.eqb k k' then (k, d) :: t else (k', d') :: (ainsert t k d)

(** val aremove : astore -> n -> astore **)

let rec aremove a k =
  match a with
  | [] -> []
  | p :: t ->
    let (k', d') = p in if N.eqb k' k then t else (k', d') :: (aremove t k)

(** val alookup : astore -> n -> desc option **)

let alookup =
  mget

type 'a result = ('a, err) sum

(** val run_i :
    'a1 prog -> storage -> meta -> ('a1 result * storage) * meta **)

let rec run_i p s m =
  match p with
  | Ret a -> (((Inl a), s), m)
  | Throw e -> (((Inr e), s), m)
  | PGet (k, f) -> run_i (f (option_map dnorm (get s k))) s m
  | PIns (k, d, f) ->
    if wfdb d
    then run_i f (snd (insert s k d)) m
    else (((Inr Internal), s), m)
  | PRem (k, f) -> run_i f (snd (remove s k)) m
  | PKeys f -> run_i (f (nsort (keys s))) s m
  | PMeta f -> run_i (f m) s m
  | PSetMeta (m', f) -> run_i f s m'

(** val run_a : 'a1 prog -> astore -> meta -> ('a1 result * astore) * meta **)

let rec run_a p a m =
  match p with
  | Ret x -> (((Inl x), a), m)
  | Throw e -> (((Inr e), a), m)
  | PGet (k, f) -> run_a (f (alookup a k)) a m
  | PIns (k, d, f) ->
    if wfdb d
    then run_a f (ainsert a k (dnorm d)) m
    else (((Inr Internal), a), m)
  | PRem (k, f) -> run_a f (aremove a k) m
  | PKeys f -> run_a (f (map fst a)) a m
  | PMeta f -> run_a (f m) a m
  | PSetMeta (m', f) -> run_a f a m'

(** val two31 : n **)

let two31 =
  Npos (XO (XO (XO (XO (XO (XO (XO (XO (XO (XO (XO (XO (XO (XO (XO (XO (XO
    (XO (XO (XO (XO (XO (XO (XO (XO (XO (XO (XO (XO (XO (XO
    XH)))))))))))))))))))))))))))))))

(** val mAX_INDEX : n **)

let mAX_INDEX =
  Npos (XO (XI (XI (XI (XI (XI (XI (XI (XI (XI (XI (XI (XI (XI (XI (XI (XI
    (XI (XI (XI (XI (XI (XI (XI (XI (XI (XI (XI (XI (XI (XI
    XH)))))))))))))))))))))))))))))))

(** val lOOP_LIMIT : n **)

let lOOP_LIMIT =
  Npos (XO (XO (XO (XO (XO (XO (XO (XO (XO (XO (XO (XO XH))))))))))))

(** val value_of_N : n -> value **)

let value_of_N n0 =
  if N.ltb n0 two31 then VInt (Z.of_N n0) else VDouble (pos_to_f64 n0)

(** val value_of_Z : z -> value **)

let value_of_Z z0 =
  if Z.ltb z0 Z0 then VInt z0 else value_of_N (Z.to_N z0)

(** val f64_to_N : n -> n **)

let f64_to_N b =
  let e = f64_exp b in
  let m = f64_man b in
  if f64_sign b
  then N0
  else if N.eqb e (Npos (XI (XI (XI (XI (XI (XI (XI (XI (XI (XI XH)))))))))))
       then if N.eqb m N0
            then Npos (XI (XI (XI (XI (XI (XI (XI (XI (XI (XI (XI (XI (XI (XI
                   (XI (XI (XI (XI (XI (XI (XI (XI (XI (XI (XI (XI (XI (XI
                   (XI (XI (XI (XI (XI (XI (XI (XI (XI (XI (XI (XI (XI (XI
                   (XI (XI (XI (XI (XI (XI (XI (XI (XI (XI
                   XH))))))))))))))))))))))))))))))))))))))))))))))))))))
            else N0
       else if N.ltb e (Npos (XI (XI (XI (XI (XI (XI (XI (XI (XI XH))))))))))
            then N0
            else if N.leb e (Npos (XI (XI (XO (XO (XI (XI (XO (XO (XO (XO
                      XH)))))))))))
                 then N.div (N.add p52 m)
                        (N.pow (Npos (XO XH))
                          (N.sub (Npos (XI (XI (XO (XO (XI (XI (XO (XO (XO
                            (XO XH))))))))))) e))
                 else N.mul (N.add p52 m)
                        (N.pow (Npos (XO XH))
                          (N.sub e (Npos (XI (XI (XO (XO (XI (XI (XO (XO (XO
                            (XO XH)))))))))))))

(** val len_of_value : value -> n **)

let len_of_value = function
| VInt z0 -> Z.to_N z0
| VDouble b -> f64_to_N b
| VOther o -> (match o with
               | OBool b -> if b then Npos XH else N0
               | _ -> N0)

(** val f64_integral_u32 : n -> n option **)

let f64_integral_u32 b =
  if f64_is_nan b
  then None
  else if N.eqb b nEG_ZERO
       then Some N0
       else if f64_sign b
            then None
            else if N.eqb b N0
                 then Some N0
                 else let n0 = f64_to_N b in
                      if (&&)
                           ((&&)
                             (N.ltb n0 (Npos (XO (XO (XO (XO (XO (XO (XO (XO
                               (XO (XO (XO (XO (XO (XO (XO (XO (XO (XO (XO
                               (XO (XO (XO (XO (XO (XO (XO (XO (XO (XO (XO
                               (XO (XO XH))))))))))))))))))))))))))))))))))
                             (N.ltb N0 n0)) (N.eqb (pos_to_f64 n0) b)
                      then Some n0
                      else None

(** val to_array_len : value -> n option result **)

let to_array_len = function
| VInt z0 -> Inl (if Z.ltb z0 Z0 then None else Some (Z.to_N z0))
| VDouble b -> Inl (f64_integral_u32 b)
| VOther o ->
  (match o with
   | OUndef -> Inl None
   | ONull -> Inl (Some N0)
   | OBool b -> Inl (Some (if b then Npos XH else N0))
   | _ -> Inr Unsupported)

(** val other_eqb : other -> other -> bool **)

let other_eqb a b =
  match a with
  | OUndef -> (match b with
               | OUndef -> true
               | _ -> false)
  | ONull -> (match b with
              | ONull -> true
              | _ -> false)
  | OBool x -> (match b with
                | OBool y -> eqb x y
                | _ -> false)
  | OStr x -> (match b with
               | OStr y -> N.eqb x y
               | _ -> false)
  | OObj x -> (match b with
               | OObj y -> N.eqb x y
               | _ -> false)

(** val same_value : value -> value -> bool **)

let same_value a b =
  match num_bits a with
  | Some x -> (match num_bits b with
               | Some y -> N.eqb x y
               | None -> false)
  | None ->
    (match num_bits b with
     | Some _ -> false
     | None ->
       (match a with
        | VOther x -> (match b with
                       | VOther y -> other_eqb x y
                       | _ -> false)
        | _ -> false))

(** val zero_fold : n -> n **)

let zero_fold b =
  if N.eqb b nEG_ZERO then N0 else b

(** val same_value_zero : value -> value -> bool **)

let same_value_zero a b =
  match num_bits a with
  | Some x ->
    (match num_bits b with
     | Some y -> N.eqb (zero_fold x) (zero_fold y)
     | None -> false)
  | None ->
    (match num_bits b with
     | Some _ -> false
     | None ->
       (match a with
        | VOther x -> (match b with
                       | VOther y -> other_eqb x y
                       | _ -> false)
        | _ -> false))

(** val strict_equals : value -> value -> bool **)

let strict_equals a b =
  match num_bits a with
  | Some x ->
    (match num_bits b with
     | Some y ->
       (&&) (negb (f64_is_nan x)) (N.eqb (zero_fold x) (zero_fold y))
     | None -> false)
  | None ->
    (match num_bits b with
     | Some _ -> false
     | None ->
       (match a with
        | VOther x -> (match b with
                       | VOther y -> other_eqb x y
                       | _ -> false)
        | _ -> false))

(** val opt_eqb : n option -> n option -> bool **)

let opt_eqb a b =
  match a with
  | Some x -> (match b with
               | Some y -> N.eqb x y
               | None -> false)
  | None -> (match b with
             | Some _ -> false
             | None -> true)

(** val vundef : value **)

let vundef =
  VOther OUndef

(** val vbool : bool -> value **)

let vbool b =
  VOther (OBool b)

(** val getter_ret : n -> value **)

let getter_ret g =
  VInt (Z.of_N (N.add (Npos (XO (XO (XI (XO (XO (XI XH))))))) g))

type pdesc = { p_value : value option; p_writable : bool option;
               p_get : n option option; p_set : n option option;
               p_enum : bool option; p_conf : bool option }

(** val pd_is_accessor : pdesc -> bool **)

let pd_is_accessor p =
  (||) (is_some p.p_get) (is_some p.p_set)

(** val pd_is_data : pdesc -> bool **)

let pd_is_data p =
  (||) (is_some p.p_value) (is_some p.p_writable)

(** val pd_is_generic : pdesc -> bool **)

let pd_is_generic p =
  (&&) (negb (pd_is_accessor p)) (negb (pd_is_data p))

(** val pd_is_empty : pdesc -> bool **)

let pd_is_empty p =
  (&&) ((&&) (pd_is_generic p) (negb (is_some p.p_enum)))
    (negb (is_some p.p_conf))

(** val odflt : 'a1 option -> 'a1 -> 'a1 **)

let odflt o d =
  match o with
  | Some x -> x
  | None -> d

(** val pd_value : value -> pdesc **)

let pd_value v =
  { p_value = (Some v); p_writable = None; p_get = None; p_set = None;
    p_enum = None; p_conf = None }

(** val pd_full : value -> pdesc **)

let pd_full v =
  { p_value = (Some v); p_writable = (Some true); p_get = None; p_set = None;
    p_enum = (Some true); p_conf = (Some true) }

(** val into_data_defaulted : pdesc -> desc **)

let into_data_defaulted p =
  DData ((odflt p.p_value vundef), (odflt p.p_writable false),
    (odflt p.p_enum false), (odflt p.p_conf false))

(** val into_accessor_defaulted : pdesc -> desc **)

let into_accessor_defaulted p =
  DAcc ((odflt p.p_get None), (odflt p.p_set None), (odflt p.p_enum false),
    (odflt p.p_conf false))

(** val d_is_data : desc -> bool **)

let d_is_data = function
| DData (_, _, _, _) -> true
| DAcc (_, _, _, _) -> false

(** val convert_kind : desc -> desc **)

let convert_kind = function
| DData (_, _, e, c) -> DAcc (None, None, e, c)
| DAcc (_, _, e, c) -> DData (vundef, false, e, c)

(** val fill_with : desc -> pdesc -> desc **)

let fill_with d p =
  match d with
  | DData (v, w, e, c) ->
    DData ((odflt p.p_value v), (odflt p.p_writable w), (odflt p.p_enum e),
      (odflt p.p_conf c))
  | DAcc (g, s, e, c) ->
    DAcc ((odflt p.p_get g), (odflt p.p_set s), (odflt p.p_enum e),
      (odflt p.p_conf c))

type vaa =
| VReject
| VNoChange
| VStore of desc

(** val validate_and_apply : bool -> pdesc -> desc option -> vaa **)

let validate_and_apply extensible p = function
| Some cur ->
  if pd_is_empty p
  then VNoChange
  else if (&&) (negb (d_configurable cur))
            ((||) (match p.p_conf with
                   | Some b -> b
                   | None -> false)
              (match p.p_enum with
               | Some e -> negb (eqb e (d_enumerable cur))
               | None -> false))
       then VReject
       else if pd_is_generic p
            then VStore (fill_with cur p)
            else if negb (eqb (d_is_data cur) (pd_is_data p))
                 then if negb (d_configurable cur)
                      then VReject
                      else VStore (fill_with (convert_kind cur) p)
                 else (match cur with
                       | DData (cv, cw, _, cc) ->
                         if (&&) (negb cc) (negb cw)
                         then if match p.p_writable with
                                 | Some b -> b
                                 | None -> false
                              then VReject
                              else if match p.p_value with
                                      | Some v -> negb (same_value v cv)
                                      | None -> false
                                   then VReject
                                   else VNoChange
                         else VStore (fill_with cur p)
                       | DAcc (cg, cs, _, cc) ->
                         if negb cc
                         then if match p.p_set with
                                 | Some s -> negb (opt_eqb s cs)
                                 | None -> false
                              then VReject
                              else if match p.p_get with
                                      | Some g -> negb (opt_eqb g cg)
                                      | None -> false
                                   then VReject
                                   else VNoChange
                         else VStore (fill_with cur p))
| None ->
  if negb extensible
  then VReject
  else if (||) (pd_is_generic p) (pd_is_data p)
       then VStore (into_data_defaulted p)
       else VStore (into_accessor_defaulted p)

type flavour =
| Spec
| Boa

(** val meta_len : meta -> n **)

let meta_len m =
  match m.m_len with
  | DData (v, _, _, _) -> len_of_value v
  | DAcc (_, _, _, _) -> N0

(** val len_writable : meta -> bool **)

let len_writable m =
  match m.m_len with
  | DData (_, w, _, _) -> w
  | DAcc (_, _, _, _) -> false

(** val is_array : meta -> bool **)

let is_array m =
  match m.m_kind with
  | KArray -> true
  | KPlain -> false

(** val template_shape : meta -> bool **)

let template_shape m =
  (&&) (is_array m)
    (match m.m_len with
     | DData (_, w, e, c) ->
       if w then if e then false else if c then false else true else false
     | DAcc (_, _, _, _) -> false)

(** val set_len_value : n -> unit prog **)

let set_len_value n0 =
  bind get_meta (fun m ->
    match m.m_len with
    | DData (_, w, e, c) ->
      set_meta (with_len m (DData ((value_of_N n0), w, e, c)))
    | DAcc (_, _, _, _) -> Throw Internal)

(** val ordinary_define_idx : n -> pdesc -> bool prog **)

let ordinary_define_idx k p =
  bind (get_own k) (fun cur ->
    bind get_meta (fun m ->
      match validate_and_apply m.m_ext p cur with
      | VReject -> Ret false
      | VNoChange -> Ret true
      | VStore d -> bind (ins k d) (fun _ -> Ret true)))

(** val ordinary_define_len : pdesc -> bool prog **)

let ordinary_define_len p =
  bind get_meta (fun m ->
    match validate_and_apply m.m_ext p (Some m.m_len) with
    | VReject -> Ret false
    | VNoChange -> Ret true
    | VStore d -> bind (set_meta (with_len m d)) (fun _ -> Ret true))

(** val array_define_idx : flavour -> n -> pdesc -> bool prog **)

let array_define_idx fl k p =
  bind get_meta (fun m ->
    let old_len = meta_len m in
    let slow =
      if (&&) (N.leb old_len k) (negb (len_writable m))
      then Ret false
      else bind (ordinary_define_idx k p) (fun ok ->
             if ok
             then bind
                    (if N.leb old_len k
                     then set_len_value (N.add k (Npos XH))
                     else Ret ()) (fun _ -> Ret true)
             else Ret false)
    in
    (match fl with
     | Spec -> slow
     | Boa ->
       if (&&)
            ((&&)
              (N.ltb (N.add k (Npos XH)) (Npos (XI (XI (XI (XI (XI (XI (XI
                (XI (XI (XI (XI (XI (XI (XI (XI (XI (XI (XI (XI (XI (XI (XI
                (XI (XI (XI (XI (XI (XI (XI (XI (XI
                XH))))))))))))))))))))))))))))))))) (template_shape m))
            (N.leb old_len (N.add k (Npos XH)))
       then bind (ordinary_define_idx k p) (fun ok ->
              if ok
              then bind (set_len_value (N.add k (Npos XH))) (fun _ -> Ret
                     true)
              else Ret false)
       else slow))

(** val define_idx : flavour -> n -> pdesc -> bool prog **)

let define_idx fl k p =
  bind get_meta (fun m ->
    match m.m_kind with
    | KArray -> array_define_idx fl k p
    | KPlain -> ordinary_define_idx k p)

(** val delete_idx : n -> bool prog **)

let delete_idx k =
  bind (get_own k) (fun cur ->
    match cur with
    | Some d ->
      if d_configurable d then bind (rem k) (fun _ -> Ret true) else Ret false
    | None -> Ret true)

(** val delete_or_throw : n -> unit prog **)

let delete_or_throw k =
  bind (delete_idx k) (fun ok -> if ok then Ret () else Throw TypeError)

(** val get_idx : n -> value prog **)

let get_idx k =
  bind (get_own k) (fun cur ->
    match cur with
    | Some d ->
      (match d with
       | DData (v, _, _, _) -> Ret v
       | DAcc (g0, _, _, _) ->
         (match g0 with
          | Some g -> bind (log_event (EGet g)) (fun _ -> Ret (getter_ret g))
          | None -> Ret vundef))
    | None -> Ret vundef)

(** val try_get_idx : n -> value option prog **)

let try_get_idx k =
  bind (get_own k) (fun cur ->
    match cur with
    | Some d ->
      (match d with
       | DData (v, _, _, _) -> Ret (Some v)
       | DAcc (g0, _, _, _) ->
         (match g0 with
          | Some g ->
            bind (log_event (EGet g)) (fun _ -> Ret (Some (getter_ret g)))
          | None -> Ret (Some vundef)))
    | None -> Ret None)

(** val set_idx : flavour -> n -> value -> bool prog **)

let set_idx fl k v =
  bind (get_own k) (fun cur ->
    match cur with
    | Some d ->
      (match d with
       | DData (_, w, _, _) ->
         if w then define_idx fl k (pd_value v) else Ret false
       | DAcc (_, s0, _, _) ->
         (match s0 with
          | Some s -> bind (log_event (ESet (s, v))) (fun _ -> Ret true)
          | None -> Ret false))
    | None -> define_idx fl k (pd_full v))

(** val set_or_throw : flavour -> n -> value -> unit prog **)

let set_or_throw fl k v =
  bind (set_idx fl k v) (fun ok -> if ok then Ret () else Throw TypeError)

(** val filter_ge : n -> n list -> n list **)

let rec filter_ge n0 = function
| [] -> []
| x :: t -> if N.leb n0 x then x :: (filter_ge n0 t) else filter_ge n0 t

(** val asl_delete : n list -> n -> bool -> pdesc -> bool prog **)

let rec asl_delete keys_desc new_len new_writable p =
  match keys_desc with
  | [] ->
    if new_writable
    then Ret true
    else bind
           (ordinary_define_len { p_value = None; p_writable = (Some false);
             p_get = None; p_set = None; p_enum = None; p_conf = None })
           (fun _ -> Ret true)
  | idx :: t ->
    bind (delete_idx idx) (fun ok ->
      if ok
      then asl_delete t new_len new_writable p
      else let p1 = { p_value = (Some (value_of_N (N.add idx (Npos XH))));
             p_writable =
             (if new_writable then p.p_writable else Some false); p_get =
             None; p_set = None; p_enum = p.p_enum; p_conf = p.p_conf }
           in
           bind (ordinary_define_len p1) (fun _ -> Ret false))

(** val array_set_length : pdesc -> bool prog **)

let array_set_length p =
  match p.p_value with
  | Some v ->
    (match to_array_len v with
     | Inl o ->
       (match o with
        | Some new_len ->
          let p0 = { p_value = (Some (value_of_N new_len)); p_writable =
            p.p_writable; p_get = None; p_set = None; p_enum = p.p_enum;
            p_conf = p.p_conf }
          in
          bind get_meta (fun m ->
            let old_len = meta_len m in
            if N.leb old_len new_len
            then ordinary_define_len p0
            else if negb (len_writable m)
                 then Ret false
                 else let new_writable =
                        match p.p_writable with
                        | Some b -> b
                        | None -> true
                      in
                      let p1 =
                        if new_writable
                        then p0
                        else { p_value = p0.p_value; p_writable = (Some
                               true); p_get = None; p_set = None; p_enum =
                               p0.p_enum; p_conf = p0.p_conf }
                      in
                      bind (ordinary_define_len p1) (fun ok ->
                        if negb ok
                        then Ret false
                        else bind own_keys (fun ks ->
                               asl_delete (rev (filter_ge new_len ks))
                                 new_len new_writable p1)))
        | None -> Throw RangeError)
     | Inr e -> Throw e)
  | None -> ordinary_define_len p

(** val define_len : pdesc -> bool prog **)

let define_len p =
  bind get_meta (fun m ->
    match m.m_kind with
    | KArray -> array_set_length p
    | KPlain -> ordinary_define_len p)

(** val set_len_prop : value -> bool prog **)

let set_len_prop v =
  bind get_meta (fun m ->
    match m.m_len with
    | DData (_, w, _, _) -> if w then define_len (pd_value v) else Ret false
    | DAcc (_, _, _, _) -> Throw Unsupported)

(** val get_len : n prog **)

let get_len =
  bind get_meta (fun m -> Ret (meta_len m))

(** val set_len : flavour -> n -> unit prog **)

let set_len fl n0 =
  if N.ltb mAX_INDEX n0
  then Throw Unsupported
  else bind get_meta (fun m ->
         match fl with
         | Spec ->
           bind (set_len_prop (value_of_N n0)) (fun ok ->
             if ok then Ret () else Throw TypeError)
         | Boa ->
           if (&&)
                ((&&) (is_array m)
                  (N.ltb n0 (Npos (XI (XI (XI (XI (XI (XI (XI (XI (XI (XI (XI
                    (XI (XI (XI (XI (XI (XI (XI (XI (XI (XI (XI (XI (XI (XI
                    (XI (XI (XI (XI (XI (XI
                    XH)))))))))))))))))))))))))))))))))) (template_shape m)
           then set_len_value n0
           else bind (set_len_prop (value_of_N n0)) (fun ok ->
                  if ok then Ret () else Throw TypeError))

type rel =
| RAbs
| RInt of z
| RPInf
| RNInf

(** val rel_start : rel -> n -> n **)

let rel_start r n0 =
  match r with
  | RInt z0 ->
    if Z.ltb z0 Z0
    then Z.to_N (Z.max (Z.add (Z.of_N n0) z0) Z0)
    else N.min (Z.to_N z0) n0
  | RPInf -> n0
  | _ -> N0

(** val rel_end : rel -> n -> n **)

let rel_end r n0 =
  match r with
  | RAbs -> n0
  | _ -> rel_start r n0

(** val guard_loop : n -> unit prog **)

let guard_loop n0 =
  if N.ltb lOOP_LIMIT n0 then Throw Unsupported else Ret ()

type res =
| RNone
| RVal of value
| RSelf
| RArr of n * (n * value) list
| RJoin of value option list

(** val push_loop : flavour -> value list -> n -> unit prog **)

let rec push_loop fl items k =
  match items with
  | [] -> Ret ()
  | v :: t ->
    bind (set_or_throw fl k v) (fun _ -> push_loop fl t (N.add k (Npos XH)))

(** val a_push : flavour -> value list -> res prog **)

let a_push fl items =
  bind get_len (fun n0 ->
    let n' = N.add n0 (len items) in
    if N.ltb mAX_INDEX n'
    then Throw Unsupported
    else bind (push_loop fl items n0) (fun _ ->
           bind (set_len fl n') (fun _ -> Ret (RVal (value_of_N n')))))

(** val a_pop : flavour -> res prog **)

let a_pop fl =
  bind get_len (fun n0 ->
    if N.eqb n0 N0
    then bind (set_len fl N0) (fun _ -> Ret (RVal vundef))
    else bind (get_idx (N.sub n0 (Npos XH))) (fun v ->
           bind (delete_or_throw (N.sub n0 (Npos XH))) (fun _ ->
             bind (set_len fl (N.sub n0 (Npos XH))) (fun _ -> Ret (RVal v)))))

(** val move : flavour -> n -> n -> unit prog **)

let move fl from to0 =
  bind (try_get_idx from) (fun fv ->
    match fv with
    | Some v -> set_or_throw fl to0 v
    | None -> delete_or_throw to0)

(** val move_up : flavour -> nat -> n -> n -> n -> unit prog **)

let rec move_up fl cnt k dfrom dto =
  match cnt with
  | O -> Ret ()
  | S c ->
    bind (move fl (N.add k dfrom) (N.add k dto)) (fun _ ->
      move_up fl c (N.add k (Npos XH)) dfrom dto)

(** val move_down : flavour -> nat -> n -> n -> n -> unit prog **)

let rec move_down fl cnt top dfrom dto =
  match cnt with
  | O -> Ret ()
  | S c ->
    bind
      (move fl (N.add (N.sub top (Npos XH)) dfrom)
        (N.add (N.sub top (Npos XH)) dto)) (fun _ ->
      move_down fl c (N.sub top (Npos XH)) dfrom dto)

(** val delete_down : nat -> n -> unit prog **)

let rec delete_down cnt top =
  match cnt with
  | O -> Ret ()
  | S c ->
    bind (delete_or_throw (N.sub top (Npos XH))) (fun _ ->
      delete_down c (N.sub top (Npos XH)))

(** val a_shift : flavour -> res prog **)

let a_shift fl =
  bind get_len (fun n0 ->
    if N.eqb n0 N0
    then bind (set_len fl N0) (fun _ -> Ret (RVal vundef))
    else bind (guard_loop n0) (fun _ ->
           bind (get_idx N0) (fun first ->
             bind
               (move_up fl (N.to_nat (N.sub n0 (Npos XH))) N0 (Npos XH) N0)
               (fun _ ->
               bind (delete_or_throw (N.sub n0 (Npos XH))) (fun _ ->
                 bind (set_len fl (N.sub n0 (Npos XH))) (fun _ -> Ret (RVal
                   first)))))))

(** val set_items : flavour -> value list -> n -> unit prog **)

let rec set_items fl items k =
  match items with
  | [] -> Ret ()
  | v :: t ->
    bind (set_or_throw fl k v) (fun _ -> set_items fl t (N.add k (Npos XH)))

(** val a_unshift : flavour -> value list -> res prog **)

let a_unshift fl items =
  bind get_len (fun n0 ->
    let c = len items in
    if N.ltb mAX_INDEX (N.add n0 c)
    then Throw Unsupported
    else bind
           (if N.ltb N0 c
            then bind (guard_loop n0) (fun _ ->
                   bind (move_down fl (N.to_nat n0) n0 N0 c) (fun _ ->
                     set_items fl items N0))
            else Ret ()) (fun _ ->
           bind (set_len fl (N.add n0 c)) (fun _ -> Ret (RVal
             (value_of_N (N.add n0 c))))))

(** val collect : nat -> n -> n -> (n * value) list prog **)

let rec collect cnt k j =
  match cnt with
  | O -> Ret []
  | S c ->
    bind (try_get_idx k) (fun v ->
      bind (collect c (N.add k (Npos XH)) (N.add j (Npos XH))) (fun rest ->
        Ret (match v with
             | Some x -> (j, x) :: rest
             | None -> rest)))

(** val splice_delete_count : n -> n -> bool -> rel option -> n **)

let splice_delete_count n0 start has_start dc =
  if negb has_start
  then N0
  else (match dc with
        | Some r ->
          (match r with
           | RInt z0 ->
             if Z.ltb z0 Z0 then N0 else N.min (Z.to_N z0) (N.sub n0 start)
           | RPInf -> N.sub n0 start
           | _ -> N0)
        | None -> N.sub n0 start)

(** val a_splice :
    flavour -> rel option -> rel option -> value list -> res prog **)

let a_splice fl start dc items =
  bind get_len (fun n0 ->
    let st = rel_start (match start with
                        | Some r -> r
                        | None -> RAbs) n0 in
    let ic = len items in
    let dcount = splice_delete_count n0 st (is_some start) dc in
    if N.ltb mAX_INDEX (N.sub (N.add n0 ic) dcount)
    then Throw Unsupported
    else bind (guard_loop n0) (fun _ ->
           bind (collect (N.to_nat dcount) st N0) (fun removed ->
             bind
               (if N.ltb ic dcount
                then bind
                       (move_up fl (N.to_nat (N.sub (N.sub n0 dcount) st)) st
                         dcount ic) (fun _ ->
                       delete_down (N.to_nat (N.sub dcount ic)) n0)
                else if N.ltb dcount ic
                     then move_down fl
                            (N.to_nat (N.sub (N.sub n0 dcount) st))
                            (N.sub n0 dcount) dcount ic
                     else Ret ()) (fun _ ->
               bind (set_items fl items st) (fun _ ->
                 bind (set_len fl (N.add (N.sub n0 dcount) ic)) (fun _ -> Ret
                   (RArr (dcount, removed))))))))

(** val a_slice : rel -> rel -> res prog **)

let a_slice s e =
  bind get_len (fun n0 ->
    let k = rel_start s n0 in
    let f = rel_end e n0 in
    let cnt = N.sub f k in
    bind (guard_loop cnt) (fun _ ->
      bind (collect (N.to_nat cnt) k N0) (fun els -> Ret (RArr (cnt, els)))))

(** val arg_elems : value option list -> n -> (n * value) list **)

let rec arg_elems l j =
  match l with
  | [] -> []
  | o :: t ->
    (match o with
     | Some v -> (j, v) :: (arg_elems t (N.add j (Npos XH)))
     | None -> arg_elems t (N.add j (Npos XH)))

(** val concat_args : value option list list -> n -> n * (n * value) list **)

let rec concat_args args j =
  match args with
  | [] -> (j, [])
  | a :: t ->
    let (j', rest) = concat_args t (N.add j (len a)) in
    (j', (app (arg_elems a j) rest))

(** val self_value : value **)

let self_value =
  VOther (OObj N0)

(** val a_concat : value option list list -> res prog **)

let a_concat args =
  bind get_meta (fun m ->
    match m.m_kind with
    | KArray ->
      bind get_len (fun n0 ->
        bind (guard_loop n0) (fun _ ->
          bind (collect (N.to_nat n0) N0 N0) (fun own ->
            let (total, rest) = concat_args args n0 in
            Ret (RArr (total, (app own rest))))))
    | KPlain ->
      let (total, rest) = concat_args args (Npos XH) in
      Ret (RArr (total, ((N0, self_value) :: rest))))

(** val reverse_loop : flavour -> nat -> n -> n -> unit prog **)

let rec reverse_loop fl cnt lower n0 =
  match cnt with
  | O -> Ret ()
  | S c ->
    let upper = N.sub (N.sub n0 lower) (Npos XH) in
    bind (try_get_idx lower) (fun lv ->
      bind (try_get_idx upper) (fun uv ->
        bind
          (match lv with
           | Some l ->
             (match uv with
              | Some u ->
                bind (set_or_throw fl lower u) (fun _ ->
                  set_or_throw fl upper l)
              | None ->
                bind (delete_or_throw lower) (fun _ ->
                  set_or_throw fl upper l))
           | None ->
             (match uv with
              | Some u ->
                bind (set_or_throw fl lower u) (fun _ ->
                  delete_or_throw upper)
              | None -> Ret ())) (fun _ ->
          reverse_loop fl c (N.add lower (Npos XH)) n0)))

(** val a_reverse : flavour -> res prog **)

let a_reverse fl =
  bind get_len (fun n0 ->
    bind (guard_loop n0) (fun _ ->
      bind (reverse_loop fl (N.to_nat (N.div n0 (Npos (XO XH)))) N0 n0)
        (fun _ -> Ret RSelf)))

(** val fill_loop : flavour -> nat -> n -> value -> unit prog **)

let rec fill_loop fl cnt k v =
  match cnt with
  | O -> Ret ()
  | S c ->
    bind (set_or_throw fl k v) (fun _ -> fill_loop fl c (N.add k (Npos XH)) v)

(** val a_fill : flavour -> value -> rel -> rel -> res prog **)

let a_fill fl v s e =
  bind get_len (fun n0 ->
    let k = rel_start s n0 in
    let f = rel_end e n0 in
    bind (guard_loop (N.sub f k)) (fun _ ->
      bind (fill_loop fl (N.to_nat (N.sub f k)) k v) (fun _ -> Ret RSelf)))

(** val copy_loop : flavour -> nat -> z -> z -> z -> unit prog **)

let rec copy_loop fl cnt from to0 dir =
  match cnt with
  | O -> Ret ()
  | S c ->
    bind (move fl (Z.to_N from) (Z.to_N to0)) (fun _ ->
      copy_loop fl c (Z.add from dir) (Z.add to0 dir) dir)

(** val a_copy_within : flavour -> rel -> rel -> rel -> res prog **)

let a_copy_within fl t s e =
  bind get_len (fun n0 ->
    let to0 = Z.of_N (rel_start t n0) in
    let from = Z.of_N (rel_start s n0) in
    let final = Z.of_N (rel_end e n0) in
    let count = Z.min (Z.sub final from) (Z.sub (Z.of_N n0) to0) in
    bind (guard_loop (Z.to_N count)) (fun _ ->
      bind
        (if (&&) (Z.ltb from to0) (Z.ltb to0 (Z.add from count))
         then copy_loop fl (Z.to_nat count)
                (Z.sub (Z.add from count) (Zpos XH))
                (Z.sub (Z.add to0 count) (Zpos XH)) (Zneg XH)
         else copy_loop fl (Z.to_nat count) from to0 (Zpos XH)) (fun _ -> Ret
        RSelf)))

(** val index_of_loop : nat -> n -> value -> z prog **)

let rec index_of_loop cnt k v =
  match cnt with
  | O -> Ret (Zneg XH)
  | S c ->
    bind (try_get_idx k) (fun e ->
      match e with
      | Some x ->
        if strict_equals v x
        then Ret (Z.of_N k)
        else index_of_loop c (N.add k (Npos XH)) v
      | None -> index_of_loop c (N.add k (Npos XH)) v)

(** val from_index : rel -> n -> n option **)

let from_index r n0 =
  match r with
  | RInt z0 ->
    if Z.ltb z0 Z0
    then Some (Z.to_N (Z.max (Z.add (Z.of_N n0) z0) Z0))
    else Some (Z.to_N z0)
  | RPInf -> None
  | _ -> Some N0

(** val a_index_of : value -> rel -> res prog **)

let a_index_of v from =
  bind get_len (fun n0 ->
    if N.eqb n0 N0
    then Ret (RVal (VInt (Zneg XH)))
    else (match from_index from n0 with
          | Some k ->
            bind (guard_loop (N.sub n0 k)) (fun _ ->
              bind (index_of_loop (N.to_nat (N.sub n0 k)) k v) (fun r -> Ret
                (RVal (value_of_Z r))))
          | None -> Ret (RVal (VInt (Zneg XH)))))

(** val last_index_of_loop : nat -> n -> value -> z prog **)

let rec last_index_of_loop cnt k v =
  match cnt with
  | O -> Ret (Zneg XH)
  | S c ->
    bind (try_get_idx k) (fun e ->
      match e with
      | Some x ->
        if strict_equals v x
        then Ret (Z.of_N k)
        else last_index_of_loop c (N.sub k (Npos XH)) v
      | None -> last_index_of_loop c (N.sub k (Npos XH)) v)

(** val a_last_index_of : value -> rel option -> res prog **)

let a_last_index_of v from =
  bind get_len (fun n0 ->
    if N.eqb n0 N0
    then Ret (RVal (VInt (Zneg XH)))
    else let start =
           match from with
           | Some r ->
             (match r with
              | RAbs -> Some Z0
              | RInt z0 ->
                if Z.leb Z0 z0
                then Some (Z.min z0 (Z.sub (Z.of_N n0) (Zpos XH)))
                else Some (Z.add (Z.of_N n0) z0)
              | RPInf -> Some (Z.sub (Z.of_N n0) (Zpos XH))
              | RNInf -> None)
           | None -> Some (Z.sub (Z.of_N n0) (Zpos XH))
         in
         (match start with
          | Some k ->
            if Z.ltb k Z0
            then Ret (RVal (VInt (Zneg XH)))
            else bind (guard_loop (Z.to_N k)) (fun _ ->
                   bind (last_index_of_loop (S (Z.to_nat k)) (Z.to_N k) v)
                     (fun r -> Ret (RVal (value_of_Z r))))
          | None -> Ret (RVal (VInt (Zneg XH)))))

(** val includes_loop : nat -> n -> value -> bool prog **)

let rec includes_loop cnt k v =
  match cnt with
  | O -> Ret false
  | S c ->
    bind (get_idx k) (fun x ->
      if same_value_zero v x
      then Ret true
      else includes_loop c (N.add k (Npos XH)) v)

(** val a_includes : value -> rel -> res prog **)

let a_includes v from =
  bind get_len (fun n0 ->
    if N.eqb n0 N0
    then Ret (RVal (vbool false))
    else (match from_index from n0 with
          | Some k ->
            bind (guard_loop (N.sub n0 k)) (fun _ ->
              bind (includes_loop (N.to_nat (N.sub n0 k)) k v) (fun r -> Ret
                (RVal (vbool r))))
          | None -> Ret (RVal (vbool false))))

(** val join_loop : nat -> n -> value option list prog **)

let rec join_loop cnt k =
  match cnt with
  | O -> Ret []
  | S c ->
    bind (get_idx k) (fun x ->
      bind (join_loop c (N.add k (Npos XH))) (fun rest ->
        let part =
          match x with
          | VOther o ->
            (match o with
             | OUndef -> None
             | ONull -> None
             | OObj n0 -> (match n0 with
                           | N0 -> None
                           | Npos _ -> Some x)
             | _ -> Some x)
          | _ -> Some x
        in
        Ret (part :: rest)))

(** val a_join : res prog **)

let a_join =
  bind get_len (fun n0 ->
    bind (guard_loop n0) (fun _ ->
      bind (join_loop (N.to_nat n0) N0) (fun parts -> Ret (RJoin parts))))

(** val a_at : rel -> res prog **)

let a_at i =
  bind get_len (fun n0 ->
    let k =
      match i with
      | RAbs -> if N.ltb N0 n0 then Some N0 else None
      | RInt z0 ->
        if Z.leb Z0 z0
        then if Z.ltb z0 (Z.of_N n0) then Some (Z.to_N z0) else None
        else if Z.leb (Z.opp z0) (Z.of_N n0)
             then Some (Z.to_N (Z.add (Z.of_N n0) z0))
             else None
      | _ -> None
    in
    (match k with
     | Some k0 -> bind (get_idx k0) (fun v -> Ret (RVal v))
     | None -> Ret (RVal vundef)))

(** val define_all : flavour -> n list -> bool -> unit prog **)

let rec define_all fl ks frozen =
  match ks with
  | [] -> Ret ()
  | k :: t ->
    bind (get_own k) (fun cur ->
      bind
        (match cur with
         | Some d ->
           let p =
             if (&&) frozen (d_is_data d)
             then { p_value = None; p_writable = (Some false); p_get = None;
                    p_set = None; p_enum = None; p_conf = (Some false) }
             else { p_value = None; p_writable = None; p_get = None; p_set =
                    None; p_enum = None; p_conf = (Some false) }
           in
           bind (define_idx fl k p) (fun ok ->
             if ok then Ret () else Throw TypeError)
         | None -> Ret ()) (fun _ -> define_all fl t frozen))

(** val a_integrity : flavour -> bool -> res prog **)

let a_integrity fl frozen =
  bind get_meta (fun m ->
    bind (set_meta (with_ext m false)) (fun _ ->
      bind own_keys (fun ks ->
        bind (define_all fl ks frozen) (fun _ ->
          bind get_meta (fun m1 ->
            let p =
              if (&&) frozen (d_is_data m1.m_len)
              then { p_value = None; p_writable = (Some false); p_get = None;
                     p_set = None; p_enum = None; p_conf = (Some false) }
              else { p_value = None; p_writable = None; p_get = None; p_set =
                     None; p_enum = None; p_conf = (Some false) }
            in
            bind (define_len p) (fun ok ->
              if ok then Ret RNone else Throw TypeError))))))

(** val a_prevent : res prog **)

let a_prevent =
  bind get_meta (fun m ->
    bind (set_meta (with_ext m false)) (fun _ -> Ret RNone))

type op =
| OSet of n * value
| OGet of n
| ODel of n
| OLen of value
| ODef of n * pdesc
| ODefLen of pdesc
| OFreeze
| OSeal
| OPrevent
| OPush of value list
| OPop
| OShift
| OUnshift of value list
| OSplice of rel option * rel option * value list
| OSlice of rel * rel
| OConcat of value option list list
| OReverse
| OFill of value * rel * rel
| OCopyWithin of rel * rel * rel
| OIndexOf of value * rel
| OLastIndexOf of value * rel option
| OIncludes of value * rel
| OJoin
| OAt of rel

(** val pd_ok : pdesc -> bool **)

let pd_ok p =
  negb ((&&) (pd_is_accessor p) (pd_is_data p))

(** val op_prog : flavour -> op -> res prog **)

let op_prog fl = function
| OSet (k, v) -> bind (set_or_throw fl k v) (fun _ -> Ret RNone)
| OGet k -> bind (get_idx k) (fun v -> Ret (RVal v))
| ODel k -> bind (delete_or_throw k) (fun _ -> Ret RNone)
| OLen v ->
  bind get_meta (fun m ->
    bind
      (match m.m_kind with
       | KArray -> Ret ()
       | KPlain ->
         (match v with
          | VInt z0 -> if Z.ltb z0 Z0 then Throw Unsupported else Ret ()
          | _ -> Throw Unsupported)) (fun _ ->
      bind (set_len_prop v) (fun ok ->
        if ok then Ret RNone else Throw TypeError)))
| ODef (k, p) ->
  if negb (pd_ok p)
  then Throw TypeError
  else bind (define_idx fl k p) (fun ok ->
         if ok then Ret RNone else Throw TypeError)
| ODefLen p ->
  if negb (pd_ok p)
  then Throw TypeError
  else if pd_is_accessor p
       then Throw Unsupported
       else bind get_meta (fun m ->
              bind
                (match m.m_kind with
                 | KArray -> Ret ()
                 | KPlain ->
                   (match p.p_value with
                    | Some v ->
                      (match v with
                       | VInt z0 ->
                         if Z.ltb z0 Z0 then Throw Unsupported else Ret ()
                       | _ -> Throw Unsupported)
                    | None -> Ret ())) (fun _ ->
                bind (define_len p) (fun ok ->
                  if ok then Ret RNone else Throw TypeError)))
| OFreeze -> a_integrity fl true
| OSeal -> a_integrity fl false
| OPrevent -> a_prevent
| OPush vs -> a_push fl vs
| OPop -> a_pop fl
| OShift -> a_shift fl
| OUnshift vs -> a_unshift fl vs
| OSplice (s, d, items) -> a_splice fl s d items
| OSlice (s, e) -> a_slice s e
| OConcat args -> a_concat args
| OReverse -> a_reverse fl
| OFill (v, s, e) -> a_fill fl v s e
| OCopyWithin (t, s, e) -> a_copy_within fl t s e
| OIndexOf (v, f) -> a_index_of v f
| OLastIndexOf (v, f) -> a_last_index_of v f
| OIncludes (v, f) -> a_includes v f
| OJoin -> a_join
| OAt i -> a_at i

(** val sstep : op -> astore -> meta -> (res result * astore) * meta **)

let sstep o a m =
  run_a (op_prog Spec o) a m

(** val istep : op -> storage -> meta -> (res result * storage) * meta **)

let istep o s m =
  match o with
  | OSet (k, v) ->
    (match if (&&) ((&&) (is_array m) m.m_ext) (wfvb v)
           then set_dense_property s k v
           else None with
     | Some s' -> (((Inl RNone), s'), m)
     | None -> run_i (op_prog Boa o) s m)
  | OGet k ->
    (match if is_array m then get_dense_property s k else None with
     | Some v -> (((Inl (RVal (vnorm v))), s), m)
     | None -> run_i (op_prog Boa o) s m)
  | OShift ->
    let n0 = meta_len m in
    (match if (&&) (is_array m) (negb (N.eqb n0 N0))
           then shift_dense s n0
           else None with
     | Some p ->
       let (v, s') = p in
       let (p0, m2) = run_i (set_len Boa (N.sub n0 (Npos XH))) s' m in
       let (r, s2) = p0 in
       (match r with
        | Inl _ -> (((Inl (RVal (vnorm v))), s2), m2)
        | Inr e -> (((Inr e), s2), m2))
     | None -> run_i (op_prog Boa o) s m)
  | _ -> run_i (op_prog Boa o) s m

(** val lit_build : value option list -> storage -> n -> storage * n **)

let rec lit_build l s n0 =
  match l with
  | [] -> (s, n0)
  | o :: t ->
    (match o with
     | Some v ->
       let (ok, s') = push_dense s v in
       if ok
       then lit_build t s' (N.add n0 (Npos XH))
       else lit_build t (snd (insert s n0 (simple v))) (N.add n0 (Npos XH))
     | None -> lit_build t (transform_to_sparse s) (N.add n0 (Npos XH)))

(** val array_len_desc : n -> desc **)

let array_len_desc n0 =
  DData ((value_of_N n0), true, false, false)

(** val plain_len_desc : n -> desc **)

let plain_len_desc n0 =
  DData ((value_of_N n0), true, true, true)

(** val init_array_i : value option list -> storage * meta **)

let init_array_i l =
  let (s, n0) = lit_build l storage_default N0 in
  (s, { m_kind = KArray; m_len = (array_len_desc n0); m_ext = true; m_log =
  [] })

(** val plain_build : value option list -> storage -> n -> storage **)

let rec plain_build l s k =
  match l with
  | [] -> s
  | o :: t ->
    (match o with
     | Some v ->
       plain_build t (snd (insert s k (simple v))) (N.add k (Npos XH))
     | None -> plain_build t s (N.add k (Npos XH)))

(** val init_plain_i : value option list -> storage * meta **)

let init_plain_i l =
  ((plain_build l storage_default N0), { m_kind = KPlain; m_len =
    (plain_len_desc (len l)); m_ext = true; m_log = [] })

(** val abuild : value option list -> n -> astore **)

let rec abuild l k =
  match l with
  | [] -> []
  | o :: t ->
    (match o with
     | Some v -> (k, (simple (vnorm v))) :: (abuild t (N.add k (Npos XH)))
     | None -> abuild t (N.add k (Npos XH)))

(** val init_a : kind -> value option list -> astore * meta **)

let init_a kd l =
  ((abuild l N0), { m_kind = kd; m_len =
    (match kd with
     | KArray -> array_len_desc (len l)
     | KPlain -> plain_len_desc (len l)); m_ext = true; m_log = [] })

(** val dump_i : storage -> (n * desc) list **)

let dump_i s =
  flat_map (fun k -> match abs s k with
                     | Some d -> (k, d) :: []
                     | None -> []) (nsort (keys s))

(** val dump_a : astore -> (n * desc) list **)

let dump_a a =
  a

(** val clear_log : meta -> meta **)

let clear_log m =
  with_log m []

type obs = { o_res : res result; o_log : event list; o_len : desc;
             o_ext : bool; o_elems : (n * desc) list }

(** val rnorm : res -> res **)

let rnorm r = match r with
| RVal v -> RVal (vnorm v)
| RArr (n0, l) -> RArr (n0, (map (fun kv -> ((fst kv), (vnorm (snd kv)))) l))
| RJoin l -> RJoin (map (option_map vnorm) l)
| _ -> r

(** val resnorm : res result -> res result **)

let resnorm = function
| Inl x -> Inl (rnorm x)
| Inr e -> Inr e

(** val iobs : op -> storage -> meta -> (obs * storage) * meta **)

let iobs o s m =
  let (p, m') = istep o s (clear_log m) in
  let (r, s') = p in
  (({ o_res = (resnorm r); o_log = m'.m_log; o_len = m'.m_len; o_ext =
  m'.m_ext; o_elems = (dump_i s') }, s'), m')

(** val sobs : op -> astore -> meta -> (obs * astore) * meta **)

let sobs o a m =
  let (p, m') = sstep o a (clear_log m) in
  let (r, a') = p in
  (({ o_res = (resnorm r); o_log = m'.m_log; o_len = m'.m_len; o_ext =
  m'.m_ext; o_elems = (dump_a a') }, a'), m')
