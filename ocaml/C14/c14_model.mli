
val negb : bool -> bool

type nat =
| O
| S of nat

val option_map : ('a1 -> 'a2) -> 'a1 option -> 'a2 option

type ('a, 'b) sum =
| Inl of 'a
| Inr of 'b

val fst : ('a1 * 'a2) -> 'a1

val snd : ('a1 * 'a2) -> 'a2

val length : 'a1 list -> nat

val app : 'a1 list -> 'a1 list -> 'a1 list

type comparison =
| Eq
| Lt
| Gt

val compOpp : comparison -> comparison

val add : nat -> nat -> nat

type positive =
| XI of positive
| XO of positive
| XH

type n =
| N0
| Npos of positive

type z =
| Z0
| Zpos of positive
| Zneg of positive

val eqb : bool -> bool -> bool

module Pos :
 sig
  type mask =
  | IsNul
  | IsPos of positive
  | IsNeg
 end

module Coq_Pos :
 sig
  val succ : positive -> positive

  val add : positive -> positive -> positive

  val add_carry : positive -> positive -> positive

  val pred_double : positive -> positive

  type mask = Pos.mask =
  | IsNul
  | IsPos of positive
  | IsNeg

  val succ_double_mask : mask -> mask

  val double_mask : mask -> mask

  val double_pred_mask : positive -> mask

  val sub_mask : positive -> positive -> mask

  val sub_mask_carry : positive -> positive -> mask

  val mul : positive -> positive -> positive

  val iter : ('a1 -> 'a1) -> 'a1 -> positive -> 'a1

  val pow : positive -> positive -> positive

  val size : positive -> positive

  val compare_cont : comparison -> positive -> positive -> comparison

  val compare : positive -> positive -> comparison

  val eqb : positive -> positive -> bool

  val iter_op : ('a1 -> 'a1 -> 'a1) -> positive -> 'a1 -> 'a1

  val to_nat : positive -> nat

  val of_succ_nat : nat -> positive
 end

module N :
 sig
  val succ_double : n -> n

  val double : n -> n

  val succ : n -> n

  val add : n -> n -> n

  val sub : n -> n -> n

  val mul : n -> n -> n

  val compare : n -> n -> comparison

  val eqb : n -> n -> bool

  val leb : n -> n -> bool

  val ltb : n -> n -> bool

  val min : n -> n -> n

  val pow : n -> n -> n

  val log2 : n -> n

  val pos_div_eucl : positive -> n -> n * n

  val div_eucl : n -> n -> n * n

  val div : n -> n -> n

  val modulo : n -> n -> n

  val to_nat : n -> nat

  val of_nat : nat -> n
 end

val nth_error : 'a1 list -> nat -> 'a1 option

val removelast : 'a1 list -> 'a1 list

val rev : 'a1 list -> 'a1 list

val map : ('a1 -> 'a2) -> 'a1 list -> 'a2 list

val flat_map : ('a1 -> 'a2 list) -> 'a1 list -> 'a2 list

module Z :
 sig
  val double : z -> z

  val succ_double : z -> z

  val pred_double : z -> z

  val pos_sub : positive -> positive -> z

  val add : z -> z -> z

  val opp : z -> z

  val sub : z -> z -> z

  val compare : z -> z -> comparison

  val leb : z -> z -> bool

  val ltb : z -> z -> bool

  val eqb : z -> z -> bool

  val max : z -> z -> z

  val min : z -> z -> z

  val to_nat : z -> nat

  val to_N : z -> n

  val of_N : n -> z
 end

type other =
| OUndef
| ONull
| OBool of bool
| OStr of n
| OObj of n

type value =
| VInt of z
| VDouble of n
| VOther of other

val p52 : n

val p63 : n

val cANON_NAN : n

val nEG_ZERO : n

val i32_MIN : z

val i32_MAX : z

val f64_sign : n -> bool

val f64_exp : n -> n

val f64_man : n -> n

val f64_is_nan : n -> bool

val canon : n -> n

val f64_to_i32_sat : n -> z

val pos_to_f64 : n -> n

val i32_to_f64 : z -> n

val as_i32 : value -> z option

val as_number : value -> n option

val from_i32 : z -> value

val from_f64 : n -> value

val num_bits : value -> n option

val vnorm : value -> value

type desc =
| DData of value * bool * bool * bool
| DAcc of n option * n option * bool * bool

val simple : value -> desc

val property_simple_value : desc -> value option

val dnorm : desc -> desc

val d_configurable : desc -> bool

val d_enumerable : desc -> bool

val mget : (n * 'a1) list -> n -> 'a1 option

val minsert : (n * 'a1) list -> n -> 'a1 -> bool * (n * 'a1) list

val mremove : (n * 'a1) list -> n -> bool * (n * 'a1) list

val mkeys : (n * 'a1) list -> n list

val enum_from : n -> 'a1 list -> (n * 'a1) list

val enumerate : 'a1 list -> (n * 'a1) list

val len : 'a1 list -> n

val vget : 'a1 list -> n -> 'a1 option

val set_nth : 'a1 list -> nat -> 'a1 -> 'a1 list

val vset : 'a1 list -> n -> 'a1 -> 'a1 list

val dense_put : 'a1 list -> n -> 'a1 -> bool * 'a1 list

type storage =
| DenseI32 of z list
| DenseF64 of n list
| DenseElement of value list
| SparseElement of (n * value) list
| SparseProperty of (n * desc) list

val storage_default : storage

val get : storage -> n -> desc option

val map_descs : (n * value) list -> (n * desc) list

val convert_to_sparse_and_insert : storage -> n -> desc -> bool * storage

val insert : storage -> n -> desc -> bool * storage

val convert_to_sparse_and_remove : storage -> n -> bool * storage

val remove : storage -> n -> bool * storage

val push_dense : storage -> value -> bool * storage

val transform_to_sparse : storage -> storage

val nseq : n -> nat -> n list

val keys : storage -> n list

val get_dense_property : storage -> n -> value option

val set_dense_property : storage -> n -> value -> storage option

val shift_dense : storage -> n -> (value * storage) option

val abs : storage -> n -> desc option

val is_some : 'a1 option -> bool

type form =
| FDenseI32
| FDenseF64
| FDenseElement
| FSparseElement
| FSparseProperty

val form_of : storage -> form

val ninsert : n -> n list -> n list

val nsort : n list -> n list

val in_i32b : z -> bool

val wfvb : value -> bool

val wfdb : desc -> bool

type err =
| TypeError
| RangeError
| Unsupported
| Internal

type kind =
| KArray
| KPlain

type event =
| EGet of n
| ESet of n * value

type meta = { m_kind : kind; m_len : desc; m_ext : bool; m_log : event list }

val with_len : meta -> desc -> meta

val with_ext : meta -> bool -> meta

val with_log : meta -> event list -> meta

type 'a prog =
| Ret of 'a
| Throw of err
| PGet of n * (desc option -> 'a prog)
| PIns of n * desc * 'a prog
| PRem of n * 'a prog
| PKeys of (n list -> 'a prog)
| PMeta of (meta -> 'a prog)
| PSetMeta of meta * 'a prog

val bind : 'a1 prog -> ('a1 -> 'a2 prog) -> 'a2 prog

val get_own : n -> desc option prog

val ins : n -> desc -> unit prog

val rem : n -> unit prog

val own_keys : n list prog

val get_meta : meta prog

val set_meta : meta -> unit prog

val log_event : event -> unit prog

type astore = (n * desc) list

val ainsert : astore -> n -> desc -> astore

val aremove : astore -> n -> astore

val alookup : astore -> n -> desc option

type 'a result = ('a, err) sum

val run_i : 'a1 prog -> storage -> meta -> ('a1 result * storage) * meta

val run_a : 'a1 prog -> astore -> meta -> ('a1 result * astore) * meta

val two31 : n

val mAX_INDEX : n

val lOOP_LIMIT : n

val value_of_N : n -> value

val value_of_Z : z -> value

val f64_to_N : n -> n

val len_of_value : value -> n

val f64_integral_u32 : n -> n option

val to_array_len : value -> n option result

val other_eqb : other -> other -> bool

val same_value : value -> value -> bool

val zero_fold : n -> n

val same_value_zero : value -> value -> bool

val strict_equals : value -> value -> bool

val opt_eqb : n option -> n option -> bool

val vundef : value

val vbool : bool -> value

val getter_ret : n -> value

type pdesc = { p_value : value option; p_writable : bool option;
               p_get : n option option; p_set : n option option;
               p_enum : bool option; p_conf : bool option }

val pd_is_accessor : pdesc -> bool

val pd_is_data : pdesc -> bool

val pd_is_generic : pdesc -> bool

val pd_is_empty : pdesc -> bool

val odflt : 'a1 option -> 'a1 -> 'a1

val pd_value : value -> pdesc

val pd_full : value -> pdesc

val into_data_defaulted : pdesc -> desc

val into_accessor_defaulted : pdesc -> desc

val d_is_data : desc -> bool

val convert_kind : desc -> desc

val fill_with : desc -> pdesc -> desc

type vaa =
| VReject
| VNoChange
| VStore of desc

val validate_and_apply : bool -> pdesc -> desc option -> vaa

type flavour =
| Spec
| Boa

val meta_len : meta -> n

val len_writable : meta -> bool

val is_array : meta -> bool

val template_shape : meta -> bool

val set_len_value : n -> unit prog

val ordinary_define_idx : n -> pdesc -> bool prog

val ordinary_define_len : pdesc -> bool prog

val array_define_idx : flavour -> n -> pdesc -> bool prog

val define_idx : flavour -> n -> pdesc -> bool prog

val delete_idx : n -> bool prog

val delete_or_throw : n -> unit prog

val get_idx : n -> value prog

val try_get_idx : n -> value option prog

val set_idx : flavour -> n -> value -> bool prog

val set_or_throw : flavour -> n -> value -> unit prog

val filter_ge : n -> n list -> n list

val asl_delete : n list -> n -> bool -> pdesc -> bool prog

val array_set_length : pdesc -> bool prog

val define_len : pdesc -> bool prog

val set_len_prop : value -> bool prog

val get_len : n prog

val set_len : flavour -> n -> unit prog

type rel =
| RAbs
| RInt of z
| RPInf
| RNInf

val rel_start : rel -> n -> n

val rel_end : rel -> n -> n

val guard_loop : n -> unit prog

type res =
| RNone
| RVal of value
| RSelf
| RArr of n * (n * value) list
| RJoin of value option list

val push_loop : flavour -> value list -> n -> unit prog

val a_push : flavour -> value list -> res prog

val a_pop : flavour -> res prog

val move : flavour -> n -> n -> unit prog

val move_up : flavour -> nat -> n -> n -> n -> unit prog

val move_down : flavour -> nat -> n -> n -> n -> unit prog

val delete_down : nat -> n -> unit prog

val a_shift : flavour -> res prog

val set_items : flavour -> value list -> n -> unit prog

val a_unshift : flavour -> value list -> res prog

val collect : nat -> n -> n -> (n * value) list prog

val splice_delete_count : n -> n -> bool -> rel option -> n

val a_splice : flavour -> rel option -> rel option -> value list -> res prog

val a_slice : rel -> rel -> res prog

val arg_elems : value option list -> n -> (n * value) list

val concat_args : value option list list -> n -> n * (n * value) list

val self_value : value

val a_concat : value option list list -> res prog

val reverse_loop : flavour -> nat -> n -> n -> unit prog

val a_reverse : flavour -> res prog

val fill_loop : flavour -> nat -> n -> value -> unit prog

val a_fill : flavour -> value -> rel -> rel -> res prog

val copy_loop : flavour -> nat -> z -> z -> z -> unit prog

val a_copy_within : flavour -> rel -> rel -> rel -> res prog

val index_of_loop : nat -> n -> value -> z prog

val from_index : rel -> n -> n option

val a_index_of : value -> rel -> res prog

val last_index_of_loop : nat -> n -> value -> z prog

val a_last_index_of : value -> rel option -> res prog

val includes_loop : nat -> n -> value -> bool prog

val a_includes : value -> rel -> res prog

val join_loop : nat -> n -> value option list prog

val a_join : res prog

val a_at : rel -> res prog

val define_all : flavour -> n list -> bool -> unit prog

val a_integrity : flavour -> bool -> res prog

val a_prevent : res prog

type op =
| OSet of n * value
| OGet of n
| ODel of n
| OLen of value
| ODef of n * pdesc
| ODefLen of pdesc
| OFreeze
| OSeal
| OPrevent
| OPush of value list
| OPop
| OShift
| OUnshift of value list
| OSplice of rel option * rel option * value list
| OSlice of rel * rel
| OConcat of value option list list
| OReverse
| OFill of value * rel * rel
| OCopyWithin of rel * rel * rel
| OIndexOf of value * rel
| OLastIndexOf of value * rel option
| OIncludes of value * rel
| OJoin
| OAt of rel

val pd_ok : pdesc -> bool

val op_prog : flavour -> op -> res prog

val sstep : op -> astore -> meta -> (res result * astore) * meta

val istep : op -> storage -> meta -> (res result * storage) * meta

val lit_build : value option list -> storage -> n -> storage * n

val array_len_desc : n -> desc

val plain_len_desc : n -> desc

val init_array_i : value option list -> storage * meta

val plain_build : value option list -> storage -> n -> storage

val init_plain_i : value option list -> storage * meta

val abuild : value option list -> n -> astore

val init_a : kind -> value option list -> astore * meta

val dump_i : storage -> (n * desc) list

val dump_a : astore -> (n * desc) list

val clear_log : meta -> meta

type obs = { o_res : res result; o_log : event list; o_len : desc;
             o_ext : bool; o_elems : (n * desc) list }

val rnorm : res -> res

val resnorm : res result -> res result

val iobs : op -> storage -> meta -> (obs * storage) * meta

val sobs : op -> astore -> meta -> (obs * astore) * meta
