#!/bin/sh
# Builds the model driver from the extracted code (coq/C14/Extract_C14.v writes c14_model.ml here).
set -e
cd "$(dirname "$0")"
ocamlfind ocamlopt -O2 -w -a -package str c14_model.mli c14_model.ml c14_driver.ml -o c14_model 2>/dev/null || \
ocamlfind ocamlopt -w -a c14_model.mli c14_model.ml c14_driver.ml -o c14_model
