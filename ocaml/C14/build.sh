#!/bin/sh
# Builds the model driver from the extracted code.  coq/C14/Extract_C14.v writes ../gen/c14_model.ml{,i} (ocaml/gen is
# git-ignored); every copy and compiled output stays under _build/ (git-ignored), nothing is written next to the sources.
set -e
cd "$(dirname "$0")"
mkdir -p _build
if [ ! -f ../gen/c14_model.ml ]; then echo "missing ocaml/gen/c14_model.ml (build coq/C14/Extract_C14.vo first)" >&2; exit 3; fi
if [ -x _build/c14_model ] && [ _build/c14_model -nt ../gen/c14_model.ml ] && [ _build/c14_model -nt c14_driver.ml ]; then exit 0; fi
cp ../gen/c14_model.ml ../gen/c14_model.mli c14_driver.ml _build/
cd _build
ocamlfind ocamlopt -O2 -w -a c14_model.mli c14_model.ml c14_driver.ml -o c14_model.tmp 2>/dev/null || \
ocamlfind ocamlopt -w -a c14_model.mli c14_model.ml c14_driver.ml -o c14_model.tmp
mv c14_model.tmp c14_model
