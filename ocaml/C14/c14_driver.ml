(* Driver for the extracted C14 models: reads histories (one op per line) on stdin, runs the
   implementation model (istep on `storage`, boa flavour) and the abstract array-like (sstep, ECMA-262
   flavour) and prints one canonical observation line per op.  The line format is shared with
   harness/src/bin/arrops.rs (see checks/c14.py). *)
open C14_model

(* ---- numbers ---- *)
let rec pos_of_int (i : int) : positive =
  if i = 1 then XH else if i land 1 = 0 then XO (pos_of_int (i lsr 1)) else XI (pos_of_int (i lsr 1))
let n_of_int (i : int) : n = if i = 0 then N0 else Npos (pos_of_int i)
let z_of_int (i : int) : z = if i = 0 then Z0 else if i > 0 then Zpos (pos_of_int i) else Zneg (pos_of_int (-i))
let rec pos_of_u64 (x : int64) : positive =
  (* x <> 0, treated as unsigned *)
  let hi = Int64.shift_right_logical x 1 in
  let bit = Int64.logand x 1L in
  if hi = 0L then XH else if bit = 0L then XO (pos_of_u64 hi) else XI (pos_of_u64 hi)
let n_of_u64 (x : int64) : n = if x = 0L then N0 else Npos (pos_of_u64 x)
let rec u64_of_pos (p : positive) : int64 =
  match p with
  | XH -> 1L
  | XO q -> Int64.shift_left (u64_of_pos q) 1
  | XI q -> Int64.logor (Int64.shift_left (u64_of_pos q) 1) 1L
let u64_of_n (x : n) : int64 = match x with N0 -> 0L | Npos p -> u64_of_pos p
let int_of_n (x : n) : int = Int64.to_int (u64_of_n x)
let hex_of_n (x : n) : string = Printf.sprintf "%016Lx" (u64_of_n x)

(* ---- printing ---- *)
let pv (v : value) : string =
  match v with
  | VInt z -> "d" ^ hex_of_n (i32_to_f64 z)
  | VDouble b -> "d" ^ hex_of_n (canon b)
  | VOther OUndef -> "u"
  | VOther ONull -> "n"
  | VOther (OBool true) -> "t"
  | VOther (OBool false) -> "f"
  | VOther (OStr k) -> "s" ^ string_of_int (int_of_n k)
  | VOther (OObj k) -> "o" ^ string_of_int (int_of_n k)
let b01 b = if b then "1" else "0"
let pacc o = match o with Some k -> string_of_int (int_of_n k) | None -> "u"
let pd (d : desc) : string =
  match d with
  | DData (v, w, e, c) -> pv v ^ "," ^ b01 w ^ b01 e ^ b01 c
  | DAcc (g, s, e, c) -> "A(" ^ pacc g ^ "," ^ pacc s ^ ")," ^ b01 e ^ b01 c
let perr e = match e with TypeError -> "TypeError" | RangeError -> "RangeError" | Unsupported -> "Unsupported" | Internal -> "Internal"
let pres (r : res result) : string =
  match r with
  | Inr e -> "E:" ^ perr e
  | Inl RNone -> "-"
  | Inl (RVal v) -> "v:" ^ pv v
  | Inl RSelf -> "self"
  | Inl (RArr (n, l)) ->
      "arr:" ^ string_of_int (int_of_n n) ^ "[" ^
      String.concat "," (List.map (fun (k, v) -> string_of_int (int_of_n k) ^ "=" ^ pv v) l) ^ "]"
  | Inl (RJoin l) ->
      "join:[" ^ String.concat "," (List.map (fun o -> match o with Some v -> pv v | None -> "~") l) ^ "]"
let plog (l : event list) : string =
  if l = [] then "-" else
  String.concat " " (List.map (fun e -> match e with
    | EGet g -> "g" ^ string_of_int (int_of_n g)
    | ESet (s, v) -> "s" ^ string_of_int (int_of_n s) ^ "=" ^ pv v) l)
let pform f = match f with
  | FDenseI32 -> "DenseI32" | FDenseF64 -> "DenseF64" | FDenseElement -> "DenseElement"
  | FSparseElement -> "SparseElement" | FSparseProperty -> "SparseProperty"
let pobs (o : obs) : string =
  pres o.o_res ^ " | " ^ plog o.o_log ^ " | len=" ^ pd o.o_len ^ " ext=" ^ b01 o.o_ext ^ " | " ^
  (if o.o_elems = [] then "-" else
   String.concat " " (List.map (fun (k, d) -> string_of_int (int_of_n k) ^ ":" ^ pd d) o.o_elems))

(* ---- parsing ---- *)
exception Bad of string
let pval (t : string) : value =
  let n = String.length t in
  if n = 0 then raise (Bad "empty value") else
  let rest = String.sub t 1 (n - 1) in
  match t.[0] with
  | 'i' -> VInt (z_of_int (int_of_string rest))
  | 'd' -> VDouble (n_of_u64 (Int64.of_string ("0x" ^ rest)))
  | 'u' -> VOther OUndef
  | 'n' -> VOther ONull
  | 't' -> VOther (OBool true)
  | 'f' -> VOther (OBool false)
  | 's' -> VOther (OStr (n_of_int (int_of_string rest)))
  | 'o' -> VOther (OObj (n_of_int (int_of_string rest)))
  | _ -> raise (Bad ("value " ^ t))
let pelem (t : string) : value option = if t = "_" then None else Some (pval t)
let prel (t : string) : rel =
  match t with
  | "u" -> RAbs
  | "+inf" -> RPInf
  | "-inf" -> RNInf
  | _ -> RInt (z_of_int (int_of_string t))
let pidx (t : string) : n = n_of_u64 (Int64.of_string t)
let pfields (ts : string list) : pdesc =
  let p = ref { p_value = None; p_writable = None; p_get = None; p_set = None; p_enum = None; p_conf = None } in
  List.iter (fun t ->
    let k = t.[0] and v = String.sub t 2 (String.length t - 2) in
    let acc v = if v = "u" then None else Some (n_of_int (int_of_string v)) in
    match k with
    | 'v' -> p := { !p with p_value = Some (pval v) }
    | 'w' -> p := { !p with p_writable = Some (v = "1") }
    | 'e' -> p := { !p with p_enum = Some (v = "1") }
    | 'c' -> p := { !p with p_conf = Some (v = "1") }
    | 'g' -> p := { !p with p_get = Some (acc v) }
    | 's' -> p := { !p with p_set = Some (acc v) }
    | _ -> raise (Bad ("field " ^ t))) ts;
  !p
let parr (t : string) : value option list =
  (* [v,v,_,v] *)
  let inner = String.sub t 1 (String.length t - 2) in
  if inner = "" then [] else List.map pelem (String.split_on_char ',' inner)

(* Some op, or None for harness-only ops (`x ...`) *)
let pop_ (ts : string list) : op option =
  match ts with
  | ["set"; k; v] -> Some (OSet (pidx k, pval v))
  | ["get"; k] -> Some (OGet (pidx k))
  | ["del"; k] -> Some (ODel (pidx k))
  | ["len"; v] | ["lenic"; v] -> Some (OLen (pval v))
  | "def" :: k :: fs -> Some (ODef (pidx k, pfields fs))
  | "deflen" :: fs -> Some (ODefLen (pfields fs))
  | ["freeze"] -> Some OFreeze
  | ["seal"] -> Some OSeal
  | ["pe"] -> Some OPrevent
  | "push" :: vs -> Some (OPush (List.map pval vs))
  | ["pop"] -> Some OPop
  | ["shift"] -> Some OShift
  | "unshift" :: vs -> Some (OUnshift (List.map pval vs))
  | ["splice"] -> Some (OSplice (None, None, []))
  | ["splice"; s] -> Some (OSplice (Some (prel s), None, []))
  | "splice" :: s :: d :: vs -> Some (OSplice (Some (prel s), Some (prel d), List.map pval vs))
  | ["slice"; s; e] -> Some (OSlice (prel s, prel e))
  | "concat" :: args -> Some (OConcat (List.map parr args))
  | ["reverse"] -> Some OReverse
  | ["fill"; v; s; e] -> Some (OFill (pval v, prel s, prel e))
  | ["copyWithin"; t; s; e] -> Some (OCopyWithin (prel t, prel s, prel e))
  | ["indexOf"; v; f] -> Some (OIndexOf (pval v, prel f))
  | ["lastIndexOf"; v] -> Some (OLastIndexOf (pval v, None))
  | ["lastIndexOf"; v; f] -> Some (OLastIndexOf (pval v, Some (prel f)))
  | ["includes"; v; f] -> Some (OIncludes (pval v, prel f))
  | "join" :: _ -> Some OJoin
  | ["at"; i] -> Some (OAt (prel i))
  | "x" :: _ -> None
  | "q" :: _ -> raise Exit
  | _ -> raise (Bad ("op " ^ String.concat " " ts))

(* ---- main loop ---- *)
type state =
  | Idle
  | Dead of string                        (* rest of the history is not modelled *)
  | Live of storage * meta * astore * meta

let () =
  let st = ref Idle and hid = ref "" and step = ref 0 in
  let emit line = print_string line; print_char '\n' in
  (try
    while true do
      let line = input_line stdin in
      let ts = List.filter (fun s -> s <> "") (String.split_on_char ' ' line) in
      (match ts with
       | [] -> ()
       | "H" :: id :: kd :: elems ->
           hid := id; step := 0;
           (try
             let l = List.map pelem elems in
             let (s, m) = if kd = "B" then init_plain_i l else init_array_i l in
             let (a, ma) = init_a (if kd = "B" then KPlain else KArray) l in
             st := Live (s, m, a, ma);
             let oi = { o_res = Inl RNone; o_log = []; o_len = m.m_len; o_ext = m.m_ext; o_elems = dump_i s } in
             let os = { o_res = Inl RNone; o_log = []; o_len = ma.m_len; o_ext = ma.m_ext; o_elems = dump_a a } in
             emit (Printf.sprintf "%s.0 %s | form=%s" id (pobs oi) (pform (form_of s)));
             if pobs oi <> pobs os then emit (Printf.sprintf "!spec %s.0 %s" id (pobs os))
           with Bad msg | Failure msg -> st := Dead ("bad:" ^ msg); emit (Printf.sprintf "%s.0 bad %s" id msg))
       | _ ->
           incr step;
           (match !st with
            | Idle -> emit (Printf.sprintf "?.%d bad no-history" !step)
            | Dead why -> emit (Printf.sprintf "%s.%d skip %s" !hid !step why)
            | Live (s, m, a, ma) ->
                (try
                  match pop_ ts with
                  | None -> st := Dead "harness-only"; emit (Printf.sprintf "%s.%d skip harness-only" !hid !step)
                  | Some o ->
                      let ((oi, s'), m') = iobs o s m in
                      let ((os, a'), ma') = sobs o a ma in
                      let unsup r = (match r with Inr Unsupported | Inr Internal -> true | _ -> false) in
                      if unsup oi.o_res || unsup os.o_res then begin
                        st := Dead "unsupported";
                        emit (Printf.sprintf "%s.%d skip %s" !hid !step (pres oi.o_res))
                      end else begin
                        st := Live (s', m', a', ma');
                        emit (Printf.sprintf "%s.%d %s | form=%s" !hid !step (pobs oi) (pform (form_of s')));
                        if pobs oi <> pobs os then emit (Printf.sprintf "!spec %s.%d %s" !hid !step (pobs os))
                      end
                with
                | Exit -> emit (Printf.sprintf "%s.%d skip query" !hid !step)
                | Bad msg | Failure msg ->
                  st := Dead ("bad:" ^ msg); emit (Printf.sprintf "%s.%d bad %s" !hid !step msg))))
    done
  with End_of_file -> ())
