#!/bin/sh
# builds ocaml/C17/_build/model from the extracted ocaml/gen/c17_model.ml and driver.ml
# (all build output stays under ocaml/C17/_build, which is git-ignored)
set -e
cd "$(dirname "$0")"
mkdir -p _build
cp ../gen/c17_model.ml ../gen/c17_model.mli driver.ml _build/
cd _build
ocamlfind ocamlopt -O2 -w -a -package str c17_model.mli c17_model.ml driver.ml -o model 2>/dev/null || \
ocamlfind ocamlopt -w -a c17_model.mli c17_model.ml driver.ml -o model
