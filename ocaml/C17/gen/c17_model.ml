
(** val negb : bool -> bool **)

let negb = function
| true -> false
| false -> true

type nat =
| O
| S of nat

(** val snd : ('a1 * 'a2) -> 'a2 **)

let snd = function
| (_, y) -> y

(** val length : 'a1 list -> nat **)

let rec length = function
| [] -> O
| _ :: l' -> S (length l')

(** val app : 'a1 list -> 'a1 list -> 'a1 list **)

let rec app l m =
  match l with
  | [] -> m
  | a :: l1 -> a :: (app l1 m)

(** val pred : nat -> nat **)

let pred n = match n with
| O -> n
| S u -> u

(** val add : nat -> nat -> nat **)

let rec add n m =
  match n with
  | O -> m
  | S p -> S (add p m)

(** val mul : nat -> nat -> nat **)

let rec mul n m =
  match n with
  | O -> O
  | S p -> add m (mul p m)

module Nat =
 struct
  (** val eqb : nat -> nat -> bool **)

  let rec eqb n m =
    match n with
    | O -> (match m with
            | O -> true
            | S _ -> false)
    | S n' -> (match m with
               | O -> false
               | S m' -> eqb n' m')

  (** val leb : nat -> nat -> bool **)

  let rec leb n m =
    match n with
    | O -> true
    | S n' -> (match m with
               | O -> false
               | S m' -> leb n' m')

  (** val ltb : nat -> nat -> bool **)

  let ltb n m =
    leb (S n) m

  (** val min : nat -> nat -> nat **)

  let rec min n m =
    match n with
    | O -> O
    | S n' -> (match m with
               | O -> O
               | S m' -> S (min n' m'))
 end

(** val nth : nat -> 'a1 list -> 'a1 -> 'a1 **)

let rec nth n l default =
  match n with
  | O -> (match l with
          | [] -> default
          | x :: _ -> x)
  | S m -> (match l with
            | [] -> default
            | _ :: t -> nth m t default)

(** val rev : 'a1 list -> 'a1 list **)

let rec rev = function
| [] -> []
| x :: l' -> app (rev l') (x :: [])

(** val map : ('a1 -> 'a2) -> 'a1 list -> 'a2 list **)

let rec map f = function
| [] -> []
| a :: t -> (f a) :: (map f t)

(** val existsb : ('a1 -> bool) -> 'a1 list -> bool **)

let rec existsb f = function
| [] -> false
| a :: l0 -> (||) (f a) (existsb f l0)

type modinfo = { mi_decls : nat list; mi_reads : nat list; mi_pre : bool;
                 mi_awaits : nat; mi_post : bool; mi_linkerr : bool }

type graph = modinfo list

(** val dummy_mod : modinfo **)

let dummy_mod =
  { mi_decls = []; mi_reads = []; mi_pre = false; mi_awaits = O; mi_post =
    false; mi_linkerr = false }

(** val info : graph -> nat -> modinfo **)

let info g m =
  nth m g dummy_mod

(** val mem : nat -> nat list -> bool **)

let mem x l =
  existsb (Nat.eqb x) l

(** val dedup_acc : nat list -> nat list -> nat list **)

let rec dedup_acc seen = function
| [] -> []
| x :: r ->
  if mem x seen then dedup_acc seen r else x :: (dedup_acc (x :: seen) r)

(** val dedup : nat list -> nat list **)

let dedup l =
  dedup_acc [] l

(** val requests : graph -> nat -> nat list **)

let requests g m =
  dedup (info g m).mi_decls

(** val has_tla : graph -> nat -> bool **)

let has_tla g m =
  Nat.ltb O (info g m).mi_awaits

(** val registered : graph -> nat -> bool **)

let registered g m =
  Nat.ltb m (length g)

type error =
| EThrow of nat
| ESyntax
| EType

type panic =
| PLinkNotLinking
| PAssertErrorIsSome
| PGatherNotAsync
| PGatherPendingZero
| POther of nat

type status =
| Unlinked
| Linking of nat
| PreLinked of nat
| Linked of nat
| Evaluating of nat option * nat * nat * nat option
| EvaluatingAsync of nat option * nat * nat * nat
| Evaluated of nat option * nat * error option

type mstate = { ms_status : status; ms_loaded : nat list;
                ms_aparents : nat list; ms_phase : nat }

(** val ms0 : mstate **)

let ms0 =
  { ms_status = Unlinked; ms_loaded = []; ms_aparents = []; ms_phase = O }

type event =
| EvStart of nat * nat list
| EvEnd of nat * nat list

type pstate =
| PPending
| PFulfilled
| PRejected of error

type job =
| JResume of nat * nat
| JFulfilled of nat
| JRejected of nat * error

type gstate = { gs_mods : (nat * mstate) list; gs_log : event list;
                gs_loads : (nat * nat) list; gs_proms : pstate list;
                gs_jobs : job list; gs_acount : nat }

(** val gs0 : gstate **)

let gs0 =
  { gs_mods = []; gs_log = []; gs_loads = []; gs_proms = []; gs_jobs = [];
    gs_acount = O }

(** val alookup : (nat * mstate) list -> nat -> mstate **)

let rec alookup l m =
  match l with
  | [] -> ms0
  | p :: r -> let (k, v) = p in if Nat.eqb k m then v else alookup r m

(** val getm : gstate -> nat -> mstate **)

let getm s m =
  alookup s.gs_mods m

(** val setm : gstate -> nat -> mstate -> gstate **)

let setm s m v =
  { gs_mods = ((m, v) :: s.gs_mods); gs_log = s.gs_log; gs_loads =
    s.gs_loads; gs_proms = s.gs_proms; gs_jobs = s.gs_jobs; gs_acount =
    s.gs_acount }

(** val status_of : gstate -> nat -> status **)

let status_of s m =
  (getm s m).ms_status

(** val set_status : gstate -> nat -> status -> gstate **)

let set_status s m st =
  let x = getm s m in
  setm s m { ms_status = st; ms_loaded = x.ms_loaded; ms_aparents =
    x.ms_aparents; ms_phase = x.ms_phase }

(** val set_phase : gstate -> nat -> nat -> gstate **)

let set_phase s m p =
  let x = getm s m in
  setm s m { ms_status = x.ms_status; ms_loaded = x.ms_loaded; ms_aparents =
    x.ms_aparents; ms_phase = p }

(** val set_aparents : gstate -> nat -> nat list -> gstate **)

let set_aparents s m l =
  let x = getm s m in
  setm s m { ms_status = x.ms_status; ms_loaded = x.ms_loaded; ms_aparents =
    l; ms_phase = x.ms_phase }

(** val add_loaded : gstate -> nat -> nat -> gstate **)

let add_loaded s m r =
  let x = getm s m in
  if mem r x.ms_loaded
  then s
  else setm s m { ms_status = x.ms_status; ms_loaded =
         (app x.ms_loaded (r :: [])); ms_aparents = x.ms_aparents; ms_phase =
         x.ms_phase }

(** val push_aparent : gstate -> nat -> nat -> gstate **)

let push_aparent s r m =
  set_aparents s r (app (getm s r).ms_aparents (m :: []))

(** val add_log : gstate -> event -> gstate **)

let add_log s e =
  { gs_mods = s.gs_mods; gs_log = (app s.gs_log (e :: [])); gs_loads =
    s.gs_loads; gs_proms = s.gs_proms; gs_jobs = s.gs_jobs; gs_acount =
    s.gs_acount }

(** val add_load : gstate -> nat -> nat -> gstate **)

let add_load s a b =
  { gs_mods = s.gs_mods; gs_log = s.gs_log; gs_loads =
    (app s.gs_loads ((a, b) :: [])); gs_proms = s.gs_proms; gs_jobs =
    s.gs_jobs; gs_acount = s.gs_acount }

(** val enqueue : gstate -> job -> gstate **)

let enqueue s j =
  { gs_mods = s.gs_mods; gs_log = s.gs_log; gs_loads = s.gs_loads; gs_proms =
    s.gs_proms; gs_jobs = (app s.gs_jobs (j :: [])); gs_acount = s.gs_acount }

(** val set_jobs : gstate -> job list -> gstate **)

let set_jobs s l =
  { gs_mods = s.gs_mods; gs_log = s.gs_log; gs_loads = s.gs_loads; gs_proms =
    s.gs_proms; gs_jobs = l; gs_acount = s.gs_acount }

(** val incr_acount : gstate -> gstate **)

let incr_acount s =
  { gs_mods = s.gs_mods; gs_log = s.gs_log; gs_loads = s.gs_loads; gs_proms =
    s.gs_proms; gs_jobs = s.gs_jobs; gs_acount = (S s.gs_acount) }

(** val new_promise : gstate -> gstate * nat **)

let new_promise s =
  ({ gs_mods = s.gs_mods; gs_log = s.gs_log; gs_loads = s.gs_loads;
    gs_proms = (app s.gs_proms (PPending :: [])); gs_jobs = s.gs_jobs;
    gs_acount = s.gs_acount }, (length s.gs_proms))

(** val settle_at : pstate list -> nat -> pstate -> pstate list **)

let rec settle_at l c v =
  match l with
  | [] -> []
  | p :: r ->
    (match p with
     | PPending ->
       (match c with
        | O -> v :: r
        | S c' -> p :: (settle_at r c' v))
     | _ -> (match c with
             | O -> p :: r
             | S c' -> p :: (settle_at r c' v)))

(** val settle : gstate -> nat -> pstate -> gstate **)

let settle s c v =
  { gs_mods = s.gs_mods; gs_log = s.gs_log; gs_loads = s.gs_loads; gs_proms =
    (settle_at s.gs_proms c v); gs_jobs = s.gs_jobs; gs_acount = s.gs_acount }

(** val promise_state : gstate -> nat -> pstate **)

let promise_state s c =
  nth c s.gs_proms PPending

type 'a res =
| ROk of 'a
| RErr of error
| RPanic of panic
| RFuel

(** val read_phases : gstate -> graph -> nat -> nat list **)

let read_phases s g m =
  map (fun t -> (getm s t).ms_phase) (info g m).mi_reads

(** val body_start : graph -> gstate -> nat -> gstate **)

let body_start g s m =
  let s0 = set_phase s m (S O) in
  let s1 = add_log s0 (EvStart (m, (read_phases s0 g m))) in
  set_phase s1 m (S (S O))

(** val body_end : graph -> gstate -> nat -> gstate **)

let body_end g s m =
  let s0 = set_phase s m (S (S (S O))) in
  add_log s0 (EvEnd (m, (read_phases s0 g m)))

(** val execute_sync : graph -> gstate -> nat -> gstate * unit res **)

let execute_sync g s m =
  match status_of s m with
  | Evaluating (_, _, _, _) ->
    let s0 = body_start g s m in
    if (||) (info g m).mi_pre (info g m).mi_post
    then (s0, (RErr (EThrow m)))
    else ((body_end g s0 m), (ROk ()))
  | EvaluatingAsync (_, _, _, _) ->
    let s0 = body_start g s m in
    if (||) (info g m).mi_pre (info g m).mi_post
    then (s0, (RErr (EThrow m)))
    else ((body_end g s0 m), (ROk ()))
  | _ -> (s, (RPanic (POther (S (S (S (S (S (S (S (S (S (S O)))))))))))))

(** val body_finish : graph -> gstate -> nat -> gstate **)

let body_finish g s m =
  if (info g m).mi_post
  then enqueue s (JRejected (m, (EThrow m)))
  else enqueue (body_end g s m) (JFulfilled m)

(** val execute_async : graph -> gstate -> nat -> gstate * unit res **)

let execute_async g s m =
  match status_of s m with
  | Evaluating (_, _, _, _) ->
    if negb (has_tla g m)
    then (s, (RPanic (POther (S (S (S (S (S (S (S (S (S (S (S O))))))))))))))
    else let s0 = body_start g s m in
         if (info g m).mi_pre
         then ((enqueue s0 (JRejected (m, (EThrow m)))), (ROk ()))
         else ((enqueue s0 (JResume (m, (pred (info g m).mi_awaits)))), (ROk
                ()))
  | EvaluatingAsync (_, _, _, _) ->
    if negb (has_tla g m)
    then (s, (RPanic (POther (S (S (S (S (S (S (S (S (S (S (S O))))))))))))))
    else let s0 = body_start g s m in
         if (info g m).mi_pre
         then ((enqueue s0 (JRejected (m, (EThrow m)))), (ROk ()))
         else ((enqueue s0 (JResume (m, (pred (info g m).mi_awaits)))), (ROk
                ()))
  | _ ->
    (s, (RPanic (POther (S (S (S (S (S (S (S (S (S (S (S (S O)))))))))))))))

type rec_t = gstate -> nat list -> nat -> nat -> (gstate * nat list) * nat res

(** val eval_requests :
    rec_t -> nat -> nat list -> gstate -> nat list -> nat -> nat ->
    (gstate * nat list) * (nat * nat) res **)

let rec eval_requests rec0 m reqs s stack index pend =
  match reqs with
  | [] -> ((s, stack), (ROk (index, pend)))
  | r :: rest ->
    let (p0, r0) = rec0 s stack index r in
    let (s0, stack0) = p0 in
    (match r0 with
     | ROk index0 ->
       (match status_of s0 r with
        | Evaluating (_, _, ranc, raorder) ->
          if negb (mem r stack0)
          then ((s0, stack0), (RPanic (POther (S (S (S (S (S (S (S (S (S (S
                 (S (S (S (S (S (S (S (S (S (S O)))))))))))))))))))))))
          else (match status_of s0 m with
                | Evaluating (tlc, cr, anc, ao) ->
                  let s1 =
                    set_status s0 m (Evaluating (tlc, cr, (Nat.min anc ranc),
                      ao))
                  in
                  (match raorder with
                   | Some _ ->
                     eval_requests rec0 m rest (push_aparent s1 r m) stack0
                       index0 (S pend)
                   | None -> eval_requests rec0 m rest s1 stack0 index0 pend)
                | _ ->
                  ((s0, stack0), (RPanic (POther (S (S (S (S (S (S (S (S (S
                    (S (S (S (S (S (S (S (S (S (S (S (S
                    O)))))))))))))))))))))))))
        | EvaluatingAsync (_, croot, _, _) ->
          (match status_of s0 croot with
           | EvaluatingAsync (_, _, _, _) ->
             eval_requests rec0 m rest (push_aparent s0 croot m) stack0
               index0 (S pend)
           | Evaluated (_, _, err) ->
             (match err with
              | Some e -> ((s0, stack0), (RErr e))
              | None -> eval_requests rec0 m rest s0 stack0 index0 pend)
           | _ ->
             ((s0, stack0), (RPanic (POther (S (S (S (S (S (S (S (S (S (S (S
               (S (S (S (S (S (S (S (S (S (S (S O))))))))))))))))))))))))))
        | Evaluated (_, croot, _) ->
          (match status_of s0 croot with
           | EvaluatingAsync (_, _, _, _) ->
             eval_requests rec0 m rest (push_aparent s0 croot m) stack0
               index0 (S pend)
           | Evaluated (_, _, err) ->
             (match err with
              | Some e -> ((s0, stack0), (RErr e))
              | None -> eval_requests rec0 m rest s0 stack0 index0 pend)
           | _ ->
             ((s0, stack0), (RPanic (POther (S (S (S (S (S (S (S (S (S (S (S
               (S (S (S (S (S (S (S (S (S (S (S O))))))))))))))))))))))))))
        | _ ->
          ((s0, stack0), (RPanic (POther (S (S (S (S (S (S (S (S (S (S (S (S
            (S (S (S (S (S (S (S (S (S (S (S O)))))))))))))))))))))))))))
     | RErr e -> ((s0, stack0), (RErr e))
     | RPanic p -> ((s0, stack0), (RPanic p))
     | RFuel -> ((s0, stack0), RFuel))

(** val pop_scc :
    nat -> nat -> gstate -> nat list -> (gstate * nat list) * panic option **)

let rec pop_scc m pend s = function
| [] ->
  ((s, []), (Some (POther (S (S (S (S (S (S (S (S (S (S (S (S (S (S (S (S (S
    (S (S (S (S (S (S (S (S (S (S (S (S (S O)))))))))))))))))))))))))))))))))
| r :: rest ->
  (match status_of s r with
   | Evaluating (tlc, croot, _, aorder) ->
     let cr = if Nat.eqb r m then croot else m in
     let s0 =
       match aorder with
       | Some o -> set_status s r (EvaluatingAsync (tlc, cr, o, pend))
       | None -> set_status s r (Evaluated (tlc, cr, None))
     in
     if Nat.eqb r m then ((s0, rest), None) else pop_scc m pend s0 rest
   | _ ->
     ((s, rest), (Some (POther (S (S (S (S (S (S (S (S (S (S (S (S (S (S (S
       (S (S (S (S (S (S (S (S (S (S (S (S (S (S (S (S
       O)))))))))))))))))))))))))))))))))))

(** val inner_evaluate :
    nat -> graph -> nat option -> gstate -> nat list -> nat -> nat ->
    (gstate * nat list) * nat res **)

let rec inner_evaluate fuel g cap s stack index m =
  match fuel with
  | O -> ((s, stack), RFuel)
  | S f ->
    (match status_of s m with
     | Linked _ ->
       let s0 = set_status s m (Evaluating (cap, m, index, None)) in
       let stack0 = m :: stack in
       let (p0, r) =
         eval_requests (fun s1 st i r -> inner_evaluate f g None s1 st i r) m
           (requests g m) s0 stack0 (S index) O
       in
       let (s1, stack1) = p0 in
       (match r with
        | ROk a ->
          let (index0, pend) = a in
          let (s2, r0) =
            if (||) (Nat.ltb O pend) (has_tla g m)
            then (match status_of s1 m with
                  | Unlinked ->
                    (s1, (RPanic (POther (S (S (S (S (S (S (S (S (S (S (S (S
                      (S (S (S (S (S (S (S (S (S (S (S (S (S (S (S (S (S (S
                      (S (S (S (S (S (S (S (S (S (S (S
                      O))))))))))))))))))))))))))))))))))))))))))))
                  | Linking _ ->
                    (s1, (RPanic (POther (S (S (S (S (S (S (S (S (S (S (S (S
                      (S (S (S (S (S (S (S (S (S (S (S (S (S (S (S (S (S (S
                      (S (S (S (S (S (S (S (S (S (S (S
                      O))))))))))))))))))))))))))))))))))))))))))))
                  | PreLinked _ ->
                    (s1, (RPanic (POther (S (S (S (S (S (S (S (S (S (S (S (S
                      (S (S (S (S (S (S (S (S (S (S (S (S (S (S (S (S (S (S
                      (S (S (S (S (S (S (S (S (S (S (S
                      O))))))))))))))))))))))))))))))))))))))))))))
                  | Linked _ ->
                    (s1, (RPanic (POther (S (S (S (S (S (S (S (S (S (S (S (S
                      (S (S (S (S (S (S (S (S (S (S (S (S (S (S (S (S (S (S
                      (S (S (S (S (S (S (S (S (S (S (S
                      O))))))))))))))))))))))))))))))))))))))))))))
                  | Evaluating (tlc, cr, anc, aorder) ->
                    (match aorder with
                     | Some _ ->
                       (s1, (RPanic (POther (S (S (S (S (S (S (S (S (S (S (S
                         (S (S (S (S (S (S (S (S (S (S (S (S (S (S (S (S (S
                         (S (S (S (S (S (S (S (S (S (S (S (S
                         O)))))))))))))))))))))))))))))))))))))))))))
                     | None ->
                       let s2 =
                         incr_acount
                           (set_status s1 m (Evaluating (tlc, cr, anc, (Some
                             s1.gs_acount))))
                       in
                       if Nat.eqb pend O
                       then execute_async g s2 m
                       else (s2, (ROk ())))
                  | _ ->
                    (s1, (RPanic (POther (S (S (S (S (S (S (S (S (S (S (S (S
                      (S (S (S (S (S (S (S (S (S (S (S (S (S (S (S (S (S (S
                      (S (S (S (S (S (S (S (S (S (S (S
                      O)))))))))))))))))))))))))))))))))))))))))))))
            else execute_sync g s1 m
          in
          (match r0 with
           | ROk _ ->
             (match status_of s2 m with
              | Evaluating (_, _, anc, _) ->
                if Nat.ltb index anc
                then ((s2, stack1), (RPanic (POther (S (S (S (S (S (S (S (S
                       (S (S (S (S (S (S (S (S (S (S (S (S (S (S (S (S (S (S
                       (S (S (S (S (S (S (S (S (S (S (S (S (S (S (S (S
                       O)))))))))))))))))))))))))))))))))))))))))))))
                else if Nat.eqb anc index
                     then let (p1, o) = pop_scc m pend s2 stack1 in
                          (match o with
                           | Some p -> (p1, (RPanic p))
                           | None -> (p1, (ROk index0)))
                     else ((s2, stack1), (ROk index0))
              | _ ->
                ((s2, stack1), (RPanic (POther (S (S (S (S (S (S (S (S (S (S
                  (S (S (S (S (S (S (S (S (S (S (S (S (S (S (S (S (S (S (S (S
                  (S (S (S (S (S (S (S (S (S (S (S (S (S
                  O)))))))))))))))))))))))))))))))))))))))))))))))
           | RErr e -> ((s2, stack1), (RErr e))
           | RPanic p -> ((s2, stack1), (RPanic p))
           | RFuel -> ((s2, stack1), RFuel))
        | RErr e -> ((s1, stack1), (RErr e))
        | RPanic p -> ((s1, stack1), (RPanic p))
        | RFuel -> ((s1, stack1), RFuel))
     | Evaluating (_, _, _, _) -> ((s, stack), (ROk index))
     | EvaluatingAsync (_, _, _, _) -> ((s, stack), (ROk index))
     | Evaluated (_, _, err) ->
       (match err with
        | Some e -> ((s, stack), (RErr e))
        | None -> ((s, stack), (ROk index)))
     | _ ->
       ((s, stack), (RPanic (POther (S (S (S (S (S (S (S (S (S (S (S (S (S (S
         (S (S (S (S (S (S (S (S (S (S (S (S (S (S (S (S (S (S (S (S (S (S (S
         (S (S (S (S (S (S (S O))))))))))))))))))))))))))))))))))))))))))))))))

(** val mark_errored :
    gstate -> nat list -> error -> gstate * panic option **)

let rec mark_errored s stack e =
  match stack with
  | [] -> (s, None)
  | r :: rest ->
    (match status_of s r with
     | Evaluating (tlc, croot, _, _) ->
       mark_errored (set_status s r (Evaluated (tlc, croot, (Some e)))) rest e
     | EvaluatingAsync (tlc, croot, _, _) ->
       mark_errored (set_status s r (Evaluated (tlc, croot, (Some e)))) rest e
     | _ ->
       (s, (Some (POther (S (S (S (S (S (S (S (S (S (S (S (S (S (S (S (S (S
         (S (S (S (S (S (S (S (S (S (S (S (S (S (S (S (S (S (S (S (S (S (S (S
         (S (S (S (S (S (S (S (S (S (S
         O))))))))))))))))))))))))))))))))))))))))))))))))))))))

(** val evaluate : nat -> graph -> gstate -> nat -> gstate * nat res **)

let evaluate fuel g s m =
  let go = fun s0 md ->
    let (s1, c) = new_promise s0 in
    let (p0, r) = inner_evaluate fuel g (Some c) s1 [] O md in
    let (s2, stack) = p0 in
    (match r with
     | ROk _ ->
       (match status_of s2 md with
        | Unlinked ->
          (s2, (RPanic (POther (S (S (S (S (S (S (S (S (S (S (S (S (S (S (S
            (S (S (S (S (S (S (S (S (S (S (S (S (S (S (S (S (S (S (S (S (S (S
            (S (S (S (S (S (S (S (S (S (S (S (S (S (S (S
            O)))))))))))))))))))))))))))))))))))))))))))))))))))))))
        | Linking _ ->
          (s2, (RPanic (POther (S (S (S (S (S (S (S (S (S (S (S (S (S (S (S
            (S (S (S (S (S (S (S (S (S (S (S (S (S (S (S (S (S (S (S (S (S (S
            (S (S (S (S (S (S (S (S (S (S (S (S (S (S (S
            O)))))))))))))))))))))))))))))))))))))))))))))))))))))))
        | PreLinked _ ->
          (s2, (RPanic (POther (S (S (S (S (S (S (S (S (S (S (S (S (S (S (S
            (S (S (S (S (S (S (S (S (S (S (S (S (S (S (S (S (S (S (S (S (S (S
            (S (S (S (S (S (S (S (S (S (S (S (S (S (S (S
            O)))))))))))))))))))))))))))))))))))))))))))))))))))))))
        | Linked _ ->
          (s2, (RPanic (POther (S (S (S (S (S (S (S (S (S (S (S (S (S (S (S
            (S (S (S (S (S (S (S (S (S (S (S (S (S (S (S (S (S (S (S (S (S (S
            (S (S (S (S (S (S (S (S (S (S (S (S (S (S (S
            O)))))))))))))))))))))))))))))))))))))))))))))))))))))))
        | Evaluating (_, _, _, _) ->
          (s2, (RPanic (POther (S (S (S (S (S (S (S (S (S (S (S (S (S (S (S
            (S (S (S (S (S (S (S (S (S (S (S (S (S (S (S (S (S (S (S (S (S (S
            (S (S (S (S (S (S (S (S (S (S (S (S (S (S (S
            O)))))))))))))))))))))))))))))))))))))))))))))))))))))))
        | EvaluatingAsync (_, _, _, _) ->
          (match stack with
           | [] -> (s2, (ROk c))
           | _ :: _ ->
             (s2, (RPanic (POther (S (S (S (S (S (S (S (S (S (S (S (S (S (S
               (S (S (S (S (S (S (S (S (S (S (S (S (S (S (S (S (S (S (S (S (S
               (S (S (S (S (S (S (S (S (S (S (S (S (S (S (S (S
               O)))))))))))))))))))))))))))))))))))))))))))))))))))))))
        | Evaluated (_, _, err) ->
          (match err with
           | Some _ ->
             (s2, (RPanic (POther (S (S (S (S (S (S (S (S (S (S (S (S (S (S
               (S (S (S (S (S (S (S (S (S (S (S (S (S (S (S (S (S (S (S (S (S
               (S (S (S (S (S (S (S (S (S (S (S (S (S (S (S (S (S
               O)))))))))))))))))))))))))))))))))))))))))))))))))))))))
           | None ->
             let s3 = settle s2 c PFulfilled in
             (match stack with
              | [] -> (s3, (ROk c))
              | _ :: _ ->
                (s3, (RPanic (POther (S (S (S (S (S (S (S (S (S (S (S (S (S
                  (S (S (S (S (S (S (S (S (S (S (S (S (S (S (S (S (S (S (S (S
                  (S (S (S (S (S (S (S (S (S (S (S (S (S (S (S (S (S (S
                  O)))))))))))))))))))))))))))))))))))))))))))))))))))))))))
     | RErr e ->
       let (s3, o) = mark_errored s2 stack e in
       (match o with
        | Some p -> (s3, (RPanic p))
        | None ->
          (match status_of s3 md with
           | Evaluated (_, _, err) ->
             (match err with
              | Some _ -> ((settle s3 c (PRejected e)), (ROk c))
              | None ->
                (s3, (RPanic (POther (S (S (S (S (S (S (S (S (S (S (S (S (S
                  (S (S (S (S (S (S (S (S (S (S (S (S (S (S (S (S (S (S (S (S
                  (S (S (S (S (S (S (S (S (S (S (S (S (S (S (S (S (S (S (S (S
                  O)))))))))))))))))))))))))))))))))))))))))))))))))))))))))
           | _ ->
             (s3, (RPanic (POther (S (S (S (S (S (S (S (S (S (S (S (S (S (S
               (S (S (S (S (S (S (S (S (S (S (S (S (S (S (S (S (S (S (S (S (S
               (S (S (S (S (S (S (S (S (S (S (S (S (S (S (S (S (S (S
               O))))))))))))))))))))))))))))))))))))))))))))))))))))))))))
     | x -> (s2, x))
  in
  (match status_of s m with
   | Linked _ -> go s m
   | EvaluatingAsync (tlc, croot, _, _) ->
     (match tlc with
      | Some c -> (s, (ROk c))
      | None -> go s croot)
   | Evaluated (tlc, croot, _) ->
     (match tlc with
      | Some c -> (s, (ROk c))
      | None -> go s croot)
   | _ ->
     (s, (RPanic (POther (S (S (S (S (S (S (S (S (S (S (S (S (S (S (S (S (S
       (S (S (S (S (S (S (S (S (S (S (S (S (S (S (S (S (S (S (S (S (S (S (S
       (S (S (S (S (S (S (S (S (S (S (S (S (S (S
       O))))))))))))))))))))))))))))))))))))))))))))))))))))))))))

(** val cycle_root_of : status -> nat option **)

let cycle_root_of = function
| Evaluating (_, c, _, _) -> Some c
| EvaluatingAsync (_, c, _, _) -> Some c
| Evaluated (_, c, _) -> Some c
| _ -> None

(** val evaluation_error : status -> error option **)

let evaluation_error = function
| Evaluated (_, _, e) -> e
| _ -> None

(** val gather :
    nat -> graph -> gstate -> nat -> nat list -> (gstate * nat list) * panic
    option **)

let rec gather fuel g s m exec =
  match fuel with
  | O ->
    ((s, exec), (Some (POther (S (S (S (S (S (S (S (S (S (S (S (S (S (S (S (S
      (S (S (S (S (S (S (S (S (S (S (S (S (S (S (S (S (S (S (S (S (S (S (S (S
      (S (S (S (S (S (S (S (S (S (S (S (S (S (S (S (S (S (S (S (S (S (S (S (S
      (S (S (S (S (S (S (S (S (S (S (S (S (S (S (S (S (S (S (S (S (S (S (S (S
      (S (S (S (S (S (S (S (S (S (S (S
      O))))))))))))))))))))))))))))))))))))))))))))))))))))))))))))))))))))))))))))))))))))))))))))))))))))))
  | S f ->
    let parents = (getm s m).ms_aparents in
    let s0 = set_aparents s m [] in
    let rec loop ps s1 exec0 =
      match ps with
      | [] -> ((s1, exec0), None)
      | p :: rest ->
        if mem p exec0
        then loop rest s1 exec0
        else (match cycle_root_of (status_of s1 p) with
              | Some cr ->
                (match evaluation_error (status_of s1 cr) with
                 | Some _ -> loop rest s1 exec0
                 | None ->
                   (match status_of s1 p with
                    | EvaluatingAsync (tlc, c, o, pend) ->
                      (match pend with
                       | O -> ((s1, exec0), (Some PGatherPendingZero))
                       | S pend' ->
                         let s2 =
                           set_status s1 p (EvaluatingAsync (tlc, c, o,
                             pend'))
                         in
                         (match pend' with
                          | O ->
                            let exec1 = app exec0 (p :: []) in
                            if has_tla g p
                            then loop rest s2 exec1
                            else let (p0, o0) = gather f g s2 p exec1 in
                                 let (s3, exec2) = p0 in
                                 (match o0 with
                                  | Some pn -> ((s3, exec2), (Some pn))
                                  | None -> loop rest s3 exec2)
                          | S _ -> loop rest s2 exec0))
                    | _ -> ((s1, exec0), (Some PGatherNotAsync))))
              | None -> loop rest s1 exec0)
    in loop parents s0 exec

(** val async_rejected :
    nat -> graph -> gstate -> nat -> error -> gstate * panic option **)

let rec async_rejected fuel g s m e =
  match fuel with
  | O ->
    (s, (Some (POther (S (S (S (S (S (S (S (S (S (S (S (S (S (S (S (S (S (S
      (S (S (S (S (S (S (S (S (S (S (S (S (S (S (S (S (S (S (S (S (S (S (S (S
      (S (S (S (S (S (S (S (S (S (S (S (S (S (S (S (S (S (S (S (S (S (S (S (S
      (S (S (S (S (S (S (S (S (S (S (S (S (S (S (S (S (S (S (S (S (S (S (S (S
      (S (S (S (S (S (S (S (S
      O)))))))))))))))))))))))))))))))))))))))))))))))))))))))))))))))))))))))))))))))))))))))))))))))))))))
  | S f ->
    (match status_of s m with
     | EvaluatingAsync (tlc, croot, _, _) ->
       let s0 = set_status s m (Evaluated (tlc, croot, (Some e))) in
       let r =
         match tlc with
         | Some c ->
           if Nat.eqb croot m
           then ((settle s0 c (PRejected e)), None)
           else (s0, (Some (POther (S (S (S (S (S (S (S (S (S (S (S (S (S (S
                  (S (S (S (S (S (S (S (S (S (S (S (S (S (S (S (S (S (S (S (S
                  (S (S (S (S (S (S (S (S (S (S (S (S (S (S (S (S (S (S (S (S
                  (S (S (S (S (S (S
                  O)))))))))))))))))))))))))))))))))))))))))))))))))))))))))))))))
         | None -> (s0, None)
       in
       let (s1, o) = r in
       (match o with
        | Some p -> (s1, (Some p))
        | None ->
          let parents = (getm s1 m).ms_aparents in
          let s2 = set_aparents s1 m [] in
          let rec loop ps s3 =
            match ps with
            | [] -> (s3, None)
            | p :: rest ->
              let (s4, o0) = async_rejected f g s3 p e in
              (match o0 with
               | Some pn -> (s4, (Some pn))
               | None -> loop rest s4)
          in loop parents s2)
     | Evaluated (_, _, err) ->
       (match err with
        | Some _ -> (s, None)
        | None -> (s, (Some PAssertErrorIsSome)))
     | _ ->
       (s, (Some (POther (S (S (S (S (S (S (S (S (S (S (S (S (S (S (S (S (S
         (S (S (S (S (S (S (S (S (S (S (S (S (S (S (S (S (S (S (S (S (S (S (S
         (S (S (S (S (S (S (S (S (S (S (S (S (S (S (S (S (S (S (S (S (S
         O)))))))))))))))))))))))))))))))))))))))))))))))))))))))))))))))))

(** val aorder_of : gstate -> nat -> nat option **)

let aorder_of s m =
  match status_of s m with
  | EvaluatingAsync (_, _, o, _) -> Some o
  | _ -> None

(** val insert_by : nat -> nat -> (nat * nat) list -> (nat * nat) list **)

let rec insert_by k x l = match l with
| [] -> (k, x) :: []
| p :: r ->
  let (k', y) = p in
  if Nat.ltb k k' then (k, x) :: l else (k', y) :: (insert_by k x r)

(** val sort_exec :
    gstate -> nat list -> (nat * nat) list -> nat list option **)

let rec sort_exec s l acc =
  match l with
  | [] -> Some (map snd acc)
  | x :: r ->
    (match aorder_of s x with
     | Some k -> sort_exec s r (insert_by k x acc)
     | None -> None)

(** val async_fulfilled :
    nat -> graph -> gstate -> nat -> gstate * panic option **)

let async_fulfilled fuel g s m =
  match status_of s m with
  | EvaluatingAsync (tlc, croot, _, _) ->
    let s0 = set_status s m (Evaluated (tlc, croot, None)) in
    let r =
      match tlc with
      | Some c ->
        if Nat.eqb croot m
        then ((settle s0 c PFulfilled), None)
        else (s0, (Some (POther (S (S (S (S (S (S (S (S (S (S (S (S (S (S (S
               (S (S (S (S (S (S (S (S (S (S (S (S (S (S (S (S (S (S (S (S (S
               (S (S (S (S (S (S (S (S (S (S (S (S (S (S (S (S (S (S (S (S (S
               (S (S (S (S (S (S (S (S (S (S (S (S (S
               O)))))))))))))))))))))))))))))))))))))))))))))))))))))))))))))))))))))))))
      | None -> (s0, None)
    in
    let (s1, o) = r in
    (match o with
     | Some p -> (s1, (Some p))
     | None ->
       let (p0, o0) = gather fuel g s1 m [] in
       let (s2, exec) = p0 in
       (match o0 with
        | Some p -> (s2, (Some p))
        | None ->
          (match sort_exec s2 exec [] with
           | Some sorted ->
             let rec loop l s3 =
               match l with
               | [] -> (s3, None)
               | x :: rest ->
                 (match status_of s3 x with
                  | Evaluated (_, _, err) ->
                    (match err with
                     | Some _ -> loop rest s3
                     | None -> (s3, (Some PAssertErrorIsSome)))
                  | _ ->
                    if has_tla g x
                    then let (s4, r0) = execute_async g s3 x in
                         (match r0 with
                          | ROk _ -> loop rest s4
                          | RPanic p -> (s4, (Some p))
                          | _ ->
                            (s4, (Some (POther (S (S (S (S (S (S (S (S (S (S
                              (S (S (S (S (S (S (S (S (S (S (S (S (S (S (S (S
                              (S (S (S (S (S (S (S (S (S (S (S (S (S (S (S (S
                              (S (S (S (S (S (S (S (S (S (S (S (S (S (S (S (S
                              (S (S (S (S (S (S (S (S (S (S (S (S (S (S
                              O))))))))))))))))))))))))))))))))))))))))))))))))))))))))))))))))))))))))))))
                    else let (s4, r0) = execute_sync g s3 x in
                         (match r0 with
                          | ROk _ ->
                            (match status_of s4 x with
                             | EvaluatingAsync (tlc', croot', _, _) ->
                               let s5 =
                                 set_status s4 x (Evaluated (tlc', croot',
                                   None))
                               in
                               (match tlc' with
                                | Some c ->
                                  if Nat.eqb croot' x
                                  then loop rest (settle s5 c PFulfilled)
                                  else (s5, (Some (POther (S (S (S (S (S (S
                                         (S (S (S (S (S (S (S (S (S (S (S (S
                                         (S (S (S (S (S (S (S (S (S (S (S (S
                                         (S (S (S (S (S (S (S (S (S (S (S (S
                                         (S (S (S (S (S (S (S (S (S (S (S (S
                                         (S (S (S (S (S (S (S (S (S (S (S (S
                                         (S (S (S (S (S (S (S
                                         O))))))))))))))))))))))))))))))))))))))))))))))))))))))))))))))))))))))))))))
                                | None -> loop rest s5)
                             | _ ->
                               (s4, (Some (POther (S (S (S (S (S (S (S (S (S
                                 (S (S (S (S (S (S (S (S (S (S (S (S (S (S (S
                                 (S (S (S (S (S (S (S (S (S (S (S (S (S (S (S
                                 (S (S (S (S (S (S (S (S (S (S (S (S (S (S (S
                                 (S (S (S (S (S (S (S (S (S (S (S (S (S (S (S
                                 (S (S (S (S (S
                                 O))))))))))))))))))))))))))))))))))))))))))))))))))))))))))))))))))))))))))))))
                          | RErr e ->
                            let (s5, o1) = async_rejected fuel g s4 m e in
                            (match o1 with
                             | Some p -> (s5, (Some p))
                             | None -> loop rest s5)
                          | RPanic p -> (s4, (Some p))
                          | RFuel ->
                            (s4, (Some (POther (S (S (S (S (S (S (S (S (S (S
                              (S (S (S (S (S (S (S (S (S (S (S (S (S (S (S (S
                              (S (S (S (S (S (S (S (S (S (S (S (S (S (S (S (S
                              (S (S (S (S (S (S (S (S (S (S (S (S (S (S (S (S
                              (S (S (S (S (S (S (S (S (S (S (S (S (S (S (S (S
                              (S (S (S (S (S (S (S (S (S (S (S (S (S (S (S (S
                              (S (S (S (S (S (S (S
                              O))))))))))))))))))))))))))))))))))))))))))))))))))))))))))))))))))))))))))))))))))))))))))))))))))))))
             in loop sorted s2
           | None ->
             (s2, (Some (POther (S (S (S (S (S (S (S (S (S (S (S (S (S (S (S
               (S (S (S (S (S (S (S (S (S (S (S (S (S (S (S (S (S (S (S (S (S
               (S (S (S (S (S (S (S (S (S (S (S (S (S (S (S (S (S (S (S (S (S
               (S (S (S (S (S (S (S (S (S (S (S (S (S (S
               O)))))))))))))))))))))))))))))))))))))))))))))))))))))))))))))))))))))))))))))
  | Evaluated (_, _, err) ->
    (match err with
     | Some _ -> (s, None)
     | None -> (s, (Some PAssertErrorIsSome)))
  | _ ->
    (s, (Some (POther (S (S (S (S (S (S (S (S (S (S (S (S (S (S (S (S (S (S
      (S (S (S (S (S (S (S (S (S (S (S (S (S (S (S (S (S (S (S (S (S (S (S (S
      (S (S (S (S (S (S (S (S (S (S (S (S (S (S (S (S (S (S (S (S (S (S (S (S
      (S (S (S (S (S (S (S (S (S
      O))))))))))))))))))))))))))))))))))))))))))))))))))))))))))))))))))))))))))))))

(** val run_job : nat -> graph -> gstate -> job -> gstate * panic option **)

let run_job fuel g s = function
| JResume (m, k0) ->
  (match k0 with
   | O -> ((body_finish g s m), None)
   | S k -> ((enqueue s (JResume (m, k))), None))
| JFulfilled m -> async_fulfilled fuel g s m
| JRejected (m, e) -> async_rejected fuel g s m e

(** val run_jobs : nat -> graph -> gstate -> gstate * unit res **)

let rec run_jobs fuel g s =
  match fuel with
  | O -> (s, RFuel)
  | S f ->
    (match s.gs_jobs with
     | [] -> (s, (ROk ()))
     | j :: rest ->
       let (s0, o) = run_job fuel g (set_jobs s rest) j in
       (match o with
        | Some p ->
          (match p with
           | POther n ->
             (match n with
              | O -> (s0, (RPanic p))
              | S n0 ->
                (match n0 with
                 | O -> (s0, (RPanic p))
                 | S n1 ->
                   (match n1 with
                    | O -> (s0, (RPanic p))
                    | S n2 ->
                      (match n2 with
                       | O -> (s0, (RPanic p))
                       | S n3 ->
                         (match n3 with
                          | O -> (s0, (RPanic p))
                          | S n4 ->
                            (match n4 with
                             | O -> (s0, (RPanic p))
                             | S n5 ->
                               (match n5 with
                                | O -> (s0, (RPanic p))
                                | S n6 ->
                                  (match n6 with
                                   | O -> (s0, (RPanic p))
                                   | S n7 ->
                                     (match n7 with
                                      | O -> (s0, (RPanic p))
                                      | S n8 ->
                                        (match n8 with
                                         | O -> (s0, (RPanic p))
                                         | S n9 ->
                                           (match n9 with
                                            | O -> (s0, (RPanic p))
                                            | S n10 ->
                                              (match n10 with
                                               | O -> (s0, (RPanic p))
                                               | S n11 ->
                                                 (match n11 with
                                                  | O -> (s0, (RPanic p))
                                                  | S n12 ->
                                                    (match n12 with
                                                     | O -> (s0, (RPanic p))
                                                     | S n13 ->
                                                       (match n13 with
                                                        | O ->
                                                          (s0, (RPanic p))
                                                        | S n14 ->
                                                          (match n14 with
                                                           | O ->
                                                             (s0, (RPanic p))
                                                           | S n15 ->
                                                             (match n15 with
                                                              | O ->
                                                                (s0, (RPanic
                                                                  p))
                                                              | S n16 ->
                                                                (match n16 with
                                                                 | O ->
                                                                   (s0,
                                                                    (RPanic
                                                                    p))
                                                                 | S n17 ->
                                                                   (match n17 with
                                                                    | O ->
                                                                    (s0,
                                                                    (RPanic
                                                                    p))
                                                                    | S n18 ->
                                                                    (match n18 with
                                                                    | O ->
                                                                    (s0,
                                                                    (RPanic
                                                                    p))
                                                                    | S n19 ->
                                                                    (match n19 with
                                                                    | O ->
                                                                    (s0,
                                                                    (RPanic
                                                                    p))
                                                                    | S n20 ->
                                                                    (match n20 with
                                                                    | O ->
                                                                    (s0,
                                                                    (RPanic
                                                                    p))
                                                                    | S n21 ->
                                                                    (match n21 with
                                                                    | O ->
                                                                    (s0,
                                                                    (RPanic
                                                                    p))
                                                                    | S n22 ->
                                                                    (match n22 with
                                                                    | O ->
                                                                    (s0,
                                                                    (RPanic
                                                                    p))
                                                                    | S n23 ->
                                                                    (match n23 with
                                                                    | O ->
                                                                    (s0,
                                                                    (RPanic
                                                                    p))
                                                                    | S n24 ->
                                                                    (match n24 with
                                                                    | O ->
                                                                    (s0,
                                                                    (RPanic
                                                                    p))
                                                                    | S n25 ->
                                                                    (match n25 with
                                                                    | O ->
                                                                    (s0,
                                                                    (RPanic
                                                                    p))
                                                                    | S n26 ->
                                                                    (match n26 with
                                                                    | O ->
                                                                    (s0,
                                                                    (RPanic
                                                                    p))
                                                                    | S n27 ->
                                                                    (match n27 with
                                                                    | O ->
                                                                    (s0,
                                                                    (RPanic
                                                                    p))
                                                                    | S n28 ->
                                                                    (match n28 with
                                                                    | O ->
                                                                    (s0,
                                                                    (RPanic
                                                                    p))
                                                                    | S n29 ->
                                                                    (match n29 with
                                                                    | O ->
                                                                    (s0,
                                                                    (RPanic
                                                                    p))
                                                                    | S n30 ->
                                                                    (match n30 with
                                                                    | O ->
                                                                    (s0,
                                                                    (RPanic
                                                                    p))
                                                                    | S n31 ->
                                                                    (match n31 with
                                                                    | O ->
                                                                    (s0,
                                                                    (RPanic
                                                                    p))
                                                                    | S n32 ->
                                                                    (match n32 with
                                                                    | O ->
                                                                    (s0,
                                                                    (RPanic
                                                                    p))
                                                                    | S n33 ->
                                                                    (match n33 with
                                                                    | O ->
                                                                    (s0,
                                                                    (RPanic
                                                                    p))
                                                                    | S n34 ->
                                                                    (match n34 with
                                                                    | O ->
                                                                    (s0,
                                                                    (RPanic
                                                                    p))
                                                                    | S n35 ->
                                                                    (match n35 with
                                                                    | O ->
                                                                    (s0,
                                                                    (RPanic
                                                                    p))
                                                                    | S n36 ->
                                                                    (match n36 with
                                                                    | O ->
                                                                    (s0,
                                                                    (RPanic
                                                                    p))
                                                                    | S n37 ->
                                                                    (match n37 with
                                                                    | O ->
                                                                    (s0,
                                                                    (RPanic
                                                                    p))
                                                                    | S n38 ->
                                                                    (match n38 with
                                                                    | O ->
                                                                    (s0,
                                                                    (RPanic
                                                                    p))
                                                                    | S n39 ->
                                                                    (match n39 with
                                                                    | O ->
                                                                    (s0,
                                                                    (RPanic
                                                                    p))
                                                                    | S n40 ->
                                                                    (match n40 with
                                                                    | O ->
                                                                    (s0,
                                                                    (RPanic
                                                                    p))
                                                                    | S n41 ->
                                                                    (match n41 with
                                                                    | O ->
                                                                    (s0,
                                                                    (RPanic
                                                                    p))
                                                                    | S n42 ->
                                                                    (match n42 with
                                                                    | O ->
                                                                    (s0,
                                                                    (RPanic
                                                                    p))
                                                                    | S n43 ->
                                                                    (match n43 with
                                                                    | O ->
                                                                    (s0,
                                                                    (RPanic
                                                                    p))
                                                                    | S n44 ->
                                                                    (match n44 with
                                                                    | O ->
                                                                    (s0,
                                                                    (RPanic
                                                                    p))
                                                                    | S n45 ->
                                                                    (match n45 with
                                                                    | O ->
                                                                    (s0,
                                                                    (RPanic
                                                                    p))
                                                                    | S n46 ->
                                                                    (match n46 with
                                                                    | O ->
                                                                    (s0,
                                                                    (RPanic
                                                                    p))
                                                                    | S n47 ->
                                                                    (match n47 with
                                                                    | O ->
                                                                    (s0,
                                                                    (RPanic
                                                                    p))
                                                                    | S n48 ->
                                                                    (match n48 with
                                                                    | O ->
                                                                    (s0,
                                                                    (RPanic
                                                                    p))
                                                                    | S n49 ->
                                                                    (match n49 with
                                                                    | O ->
                                                                    (s0,
                                                                    (RPanic
                                                                    p))
                                                                    | S n50 ->
                                                                    (match n50 with
                                                                    | O ->
                                                                    (s0,
                                                                    (RPanic
                                                                    p))
                                                                    | S n51 ->
                                                                    (match n51 with
                                                                    | O ->
                                                                    (s0,
                                                                    (RPanic
                                                                    p))
                                                                    | S n52 ->
                                                                    (match n52 with
                                                                    | O ->
                                                                    (s0,
                                                                    (RPanic
                                                                    p))
                                                                    | S n53 ->
                                                                    (match n53 with
                                                                    | O ->
                                                                    (s0,
                                                                    (RPanic
                                                                    p))
                                                                    | S n54 ->
                                                                    (match n54 with
                                                                    | O ->
                                                                    (s0,
                                                                    (RPanic
                                                                    p))
                                                                    | S n55 ->
                                                                    (match n55 with
                                                                    | O ->
                                                                    (s0,
                                                                    (RPanic
                                                                    p))
                                                                    | S n56 ->
                                                                    (match n56 with
                                                                    | O ->
                                                                    (s0,
                                                                    (RPanic
                                                                    p))
                                                                    | S n57 ->
                                                                    (match n57 with
                                                                    | O ->
                                                                    (s0,
                                                                    (RPanic
                                                                    p))
                                                                    | S n58 ->
                                                                    (match n58 with
                                                                    | O ->
                                                                    (s0,
                                                                    (RPanic
                                                                    p))
                                                                    | S n59 ->
                                                                    (match n59 with
                                                                    | O ->
                                                                    (s0,
                                                                    (RPanic
                                                                    p))
                                                                    | S n60 ->
                                                                    (match n60 with
                                                                    | O ->
                                                                    (s0,
                                                                    (RPanic
                                                                    p))
                                                                    | S n61 ->
                                                                    (match n61 with
                                                                    | O ->
                                                                    (s0,
                                                                    (RPanic
                                                                    p))
                                                                    | S n62 ->
                                                                    (match n62 with
                                                                    | O ->
                                                                    (s0,
                                                                    (RPanic
                                                                    p))
                                                                    | S n63 ->
                                                                    (match n63 with
                                                                    | O ->
                                                                    (s0,
                                                                    (RPanic
                                                                    p))
                                                                    | S n64 ->
                                                                    (match n64 with
                                                                    | O ->
                                                                    (s0,
                                                                    (RPanic
                                                                    p))
                                                                    | S n65 ->
                                                                    (match n65 with
                                                                    | O ->
                                                                    (s0,
                                                                    (RPanic
                                                                    p))
                                                                    | S n66 ->
                                                                    (match n66 with
                                                                    | O ->
                                                                    (s0,
                                                                    (RPanic
                                                                    p))
                                                                    | S n67 ->
                                                                    (match n67 with
                                                                    | O ->
                                                                    (s0,
                                                                    (RPanic
                                                                    p))
                                                                    | S n68 ->
                                                                    (match n68 with
                                                                    | O ->
                                                                    (s0,
                                                                    (RPanic
                                                                    p))
                                                                    | S n69 ->
                                                                    (match n69 with
                                                                    | O ->
                                                                    (s0,
                                                                    (RPanic
                                                                    p))
                                                                    | S n70 ->
                                                                    (match n70 with
                                                                    | O ->
                                                                    (s0,
                                                                    (RPanic
                                                                    p))
                                                                    | S n71 ->
                                                                    (match n71 with
                                                                    | O ->
                                                                    (s0,
                                                                    (RPanic
                                                                    p))
                                                                    | S n72 ->
                                                                    (match n72 with
                                                                    | O ->
                                                                    (s0,
                                                                    (RPanic
                                                                    p))
                                                                    | S n73 ->
                                                                    (match n73 with
                                                                    | O ->
                                                                    (s0,
                                                                    (RPanic
                                                                    p))
                                                                    | S n74 ->
                                                                    (match n74 with
                                                                    | O ->
                                                                    (s0,
                                                                    (RPanic
                                                                    p))
                                                                    | S n75 ->
                                                                    (match n75 with
                                                                    | O ->
                                                                    (s0,
                                                                    (RPanic
                                                                    p))
                                                                    | S n76 ->
                                                                    (match n76 with
                                                                    | O ->
                                                                    (s0,
                                                                    (RPanic
                                                                    p))
                                                                    | S n77 ->
                                                                    (match n77 with
                                                                    | O ->
                                                                    (s0,
                                                                    (RPanic
                                                                    p))
                                                                    | S n78 ->
                                                                    (match n78 with
                                                                    | O ->
                                                                    (s0,
                                                                    (RPanic
                                                                    p))
                                                                    | S n79 ->
                                                                    (match n79 with
                                                                    | O ->
                                                                    (s0,
                                                                    (RPanic
                                                                    p))
                                                                    | S n80 ->
                                                                    (match n80 with
                                                                    | O ->
                                                                    (s0,
                                                                    (RPanic
                                                                    p))
                                                                    | S n81 ->
                                                                    (match n81 with
                                                                    | O ->
                                                                    (s0,
                                                                    (RPanic
                                                                    p))
                                                                    | S n82 ->
                                                                    (match n82 with
                                                                    | O ->
                                                                    (s0,
                                                                    (RPanic
                                                                    p))
                                                                    | S n83 ->
                                                                    (match n83 with
                                                                    | O ->
                                                                    (s0,
                                                                    (RPanic
                                                                    p))
                                                                    | S n84 ->
                                                                    (match n84 with
                                                                    | O ->
                                                                    (s0,
                                                                    (RPanic
                                                                    p))
                                                                    | S n85 ->
                                                                    (match n85 with
                                                                    | O ->
                                                                    (s0,
                                                                    (RPanic
                                                                    p))
                                                                    | S n86 ->
                                                                    (match n86 with
                                                                    | O ->
                                                                    (s0,
                                                                    (RPanic
                                                                    p))
                                                                    | S n87 ->
                                                                    (match n87 with
                                                                    | O ->
                                                                    (s0,
                                                                    (RPanic
                                                                    p))
                                                                    | S n88 ->
                                                                    (match n88 with
                                                                    | O ->
                                                                    (s0,
                                                                    (RPanic
                                                                    p))
                                                                    | S n89 ->
                                                                    (match n89 with
                                                                    | O ->
                                                                    (s0,
                                                                    (RPanic
                                                                    p))
                                                                    | S n90 ->
                                                                    (match n90 with
                                                                    | O ->
                                                                    (s0,
                                                                    (RPanic
                                                                    p))
                                                                    | S n91 ->
                                                                    (match n91 with
                                                                    | O ->
                                                                    (s0,
                                                                    (RPanic
                                                                    p))
                                                                    | S n92 ->
                                                                    (match n92 with
                                                                    | O ->
                                                                    (s0,
                                                                    (RPanic
                                                                    p))
                                                                    | S n93 ->
                                                                    (match n93 with
                                                                    | O ->
                                                                    (s0,
                                                                    (RPanic
                                                                    p))
                                                                    | S n94 ->
                                                                    (match n94 with
                                                                    | O ->
                                                                    (s0,
                                                                    (RPanic
                                                                    p))
                                                                    | S n95 ->
                                                                    (match n95 with
                                                                    | O ->
                                                                    (s0,
                                                                    (RPanic
                                                                    p))
                                                                    | S n96 ->
                                                                    (match n96 with
                                                                    | O ->
                                                                    (s0,
                                                                    RFuel)
                                                                    | S n97 ->
                                                                    (match n97 with
                                                                    | O ->
                                                                    (s0,
                                                                    RFuel)
                                                                    | S n98 ->
                                                                    (match n98 with
                                                                    | O ->
                                                                    (s0,
                                                                    RFuel)
                                                                    | S _ ->
                                                                    (s0,
                                                                    (RPanic
                                                                    p))))))))))))))))))))))))))))))))))))))))))))))))))))))))))))))))))))))))))))))))))))))))))))))))))))))
           | _ -> (s0, (RPanic p)))
        | None -> run_jobs f g s0))

(** val init_environment : graph -> gstate -> nat -> gstate * unit res **)

let init_environment g s m =
  if (info g m).mi_linkerr
  then (s, (RErr ESyntax))
  else (match status_of s m with
        | Linking anc -> ((set_status s m (PreLinked anc)), (ROk ()))
        | _ ->
          (s, (RPanic (POther (S (S (S (S (S (S (S (S (S (S (S (S (S (S (S (S
            (S (S (S (S (S (S (S (S (S (S (S (S (S (S (S (S (S (S (S (S (S (S
            (S (S (S (S (S (S (S (S (S (S (S (S (S (S (S (S (S (S (S (S (S (S
            (S (S (S (S (S (S (S (S (S (S (S (S (S (S (S (S (S (S (S (S
            O))))))))))))))))))))))))))))))))))))))))))))))))))))))))))))))))))))))))))))))))))))

(** val link_requests :
    rec_t -> nat -> nat list -> gstate -> nat list -> nat -> (gstate * nat
    list) * nat res **)

let rec link_requests rec0 m reqs s stack index =
  match reqs with
  | [] -> ((s, stack), (ROk index))
  | r :: rest ->
    let (p, r0) = rec0 s stack index r in
    let (s0, stack0) = p in
    (match r0 with
     | ROk index0 ->
       (match status_of s0 r with
        | Unlinked ->
          ((s0, stack0), (RPanic (POther (S (S (S (S (S (S (S (S (S (S (S (S
            (S (S (S (S (S (S (S (S (S (S (S (S (S (S (S (S (S (S (S (S (S (S
            (S (S (S (S (S (S (S (S (S (S (S (S (S (S (S (S (S (S (S (S (S (S
            (S (S (S (S (S (S (S (S (S (S (S (S (S (S (S (S (S (S (S (S (S (S
            (S (S (S (S (S
            O))))))))))))))))))))))))))))))))))))))))))))))))))))))))))))))))))))))))))))))))))))))
        | Linking ranc ->
          if negb (mem r stack0)
          then ((s0, stack0), (RPanic (POther (S (S (S (S (S (S (S (S (S (S
                 (S (S (S (S (S (S (S (S (S (S (S (S (S (S (S (S (S (S (S (S
                 (S (S (S (S (S (S (S (S (S (S (S (S (S (S (S (S (S (S (S (S
                 (S (S (S (S (S (S (S (S (S (S (S (S (S (S (S (S (S (S (S (S
                 (S (S (S (S (S (S (S (S (S (S (S
                 O))))))))))))))))))))))))))))))))))))))))))))))))))))))))))))))))))))))))))))))))))))
          else (match status_of s0 m with
                | Linking anc ->
                  link_requests rec0 m rest
                    (set_status s0 m (Linking (Nat.min anc ranc))) stack0
                    index0
                | PreLinked anc ->
                  link_requests rec0 m rest
                    (set_status s0 m (PreLinked (Nat.min anc ranc))) stack0
                    index0
                | Linked anc ->
                  link_requests rec0 m rest
                    (set_status s0 m (Linked (Nat.min anc ranc))) stack0
                    index0
                | Evaluating (t, c, anc, o) ->
                  link_requests rec0 m rest
                    (set_status s0 m (Evaluating (t, c, (Nat.min anc ranc),
                      o))) stack0 index0
                | _ ->
                  ((s0, stack0), (RPanic (POther (S (S (S (S (S (S (S (S (S
                    (S (S (S (S (S (S (S (S (S (S (S (S (S (S (S (S (S (S (S
                    (S (S (S (S (S (S (S (S (S (S (S (S (S (S (S (S (S (S (S
                    (S (S (S (S (S (S (S (S (S (S (S (S (S (S (S (S (S (S (S
                    (S (S (S (S (S (S (S (S (S (S (S (S (S (S (S (S
                    O))))))))))))))))))))))))))))))))))))))))))))))))))))))))))))))))))))))))))))))))))))))
        | Evaluating (_, _, _, _) ->
          ((s0, stack0), (RPanic (POther (S (S (S (S (S (S (S (S (S (S (S (S
            (S (S (S (S (S (S (S (S (S (S (S (S (S (S (S (S (S (S (S (S (S (S
            (S (S (S (S (S (S (S (S (S (S (S (S (S (S (S (S (S (S (S (S (S (S
            (S (S (S (S (S (S (S (S (S (S (S (S (S (S (S (S (S (S (S (S (S (S
            (S (S (S (S (S
            O))))))))))))))))))))))))))))))))))))))))))))))))))))))))))))))))))))))))))))))))))))))
        | _ -> link_requests rec0 m rest s0 stack0 index0)
     | x -> ((s0, stack0), x))

(** val pop_link :
    nat -> gstate -> nat list -> (gstate * nat list) * panic option **)

let rec pop_link m s = function
| [] ->
  ((s, []), (Some (POther (S (S (S (S (S (S (S (S (S (S (S (S (S (S (S (S (S
    (S (S (S (S (S (S (S (S (S (S (S (S (S (S (S (S (S (S (S (S (S (S (S (S
    (S (S (S (S (S (S (S (S (S (S (S (S (S (S (S (S (S (S (S (S (S (S (S (S
    (S (S (S (S (S (S (S (S (S (S (S (S (S (S (S (S (S (S (S
    O)))))))))))))))))))))))))))))))))))))))))))))))))))))))))))))))))))))))))))))))))))))))
| r :: rest ->
  (match status_of s r with
   | PreLinked anc ->
     let s0 = set_status s r (Linked anc) in
     if Nat.eqb r m then ((s0, rest), None) else pop_link m s0 rest
   | _ ->
     ((s, rest), (Some (POther (S (S (S (S (S (S (S (S (S (S (S (S (S (S (S
       (S (S (S (S (S (S (S (S (S (S (S (S (S (S (S (S (S (S (S (S (S (S (S
       (S (S (S (S (S (S (S (S (S (S (S (S (S (S (S (S (S (S (S (S (S (S (S
       (S (S (S (S (S (S (S (S (S (S (S (S (S (S (S (S (S (S (S (S (S (S (S
       (S
       O)))))))))))))))))))))))))))))))))))))))))))))))))))))))))))))))))))))))))))))))))))))))))

(** val inner_link :
    nat -> graph -> gstate -> nat list -> nat -> nat -> (gstate * nat
    list) * nat res **)

let rec inner_link fuel g s stack index m =
  match fuel with
  | O -> ((s, stack), RFuel)
  | S f ->
    (match status_of s m with
     | Unlinked ->
       let s0 = set_status s m (Linking index) in
       let stack0 = m :: stack in
       let (p, r) =
         link_requests (inner_link f g) m (requests g m) s0 stack0 (S index)
       in
       let (s1, stack1) = p in
       (match r with
        | ROk index0 ->
          let (s2, r0) = init_environment g s1 m in
          (match r0 with
           | ROk _ ->
             (match status_of s2 m with
              | PreLinked anc ->
                if Nat.eqb anc index
                then let (p0, o) = pop_link m s2 stack1 in
                     (match o with
                      | Some p1 -> (p0, (RPanic p1))
                      | None -> (p0, (ROk index0)))
                else ((s2, stack1), (ROk index0))
              | _ ->
                ((s2, stack1), (RPanic (POther (S (S (S (S (S (S (S (S (S (S
                  (S (S (S (S (S (S (S (S (S (S (S (S (S (S (S (S (S (S (S (S
                  (S (S (S (S (S (S (S (S (S (S (S (S (S (S (S (S (S (S (S (S
                  (S (S (S (S (S (S (S (S (S (S (S (S (S (S (S (S (S (S (S (S
                  (S (S (S (S (S (S (S (S (S (S (S (S (S (S (S (S
                  O))))))))))))))))))))))))))))))))))))))))))))))))))))))))))))))))))))))))))))))))))))))))))
           | RErr e -> ((s2, stack1), (RErr e))
           | RPanic p0 -> ((s2, stack1), (RPanic p0))
           | RFuel -> ((s2, stack1), RFuel))
        | x -> ((s1, stack1), x))
     | Evaluating (_, _, _, _) ->
       ((s, stack), (RPanic (POther (S (S (S (S (S (S (S (S (S (S (S (S (S (S
         (S (S (S (S (S (S (S (S (S (S (S (S (S (S (S (S (S (S (S (S (S (S (S
         (S (S (S (S (S (S (S (S (S (S (S (S (S (S (S (S (S (S (S (S (S (S (S
         (S (S (S (S (S (S (S (S (S (S (S (S (S (S (S (S (S (S (S (S (S (S (S
         (S (S (S (S
         O))))))))))))))))))))))))))))))))))))))))))))))))))))))))))))))))))))))))))))))))))))))))))
     | _ -> ((s, stack), (ROk index)))

(** val unlink_stack : gstate -> nat list -> gstate * panic option **)

let rec unlink_stack s = function
| [] -> (s, None)
| r :: rest ->
  (match status_of s r with
   | Linking _ -> unlink_stack (set_status s r Unlinked) rest
   | _ -> (s, (Some PLinkNotLinking)))

(** val link : nat -> graph -> gstate -> nat -> gstate * unit res **)

let link fuel g s m =
  match status_of s m with
  | Linking _ ->
    (s, (RPanic (POther (S (S (S (S (S (S (S (S (S (S (S (S (S (S (S (S (S (S
      (S (S (S (S (S (S (S (S (S (S (S (S (S (S (S (S (S (S (S (S (S (S (S (S
      (S (S (S (S (S (S (S (S (S (S (S (S (S (S (S (S (S (S (S (S (S (S (S (S
      (S (S (S (S (S (S (S (S (S (S (S (S (S (S (S (S (S (S (S (S (S (S (S
      O))))))))))))))))))))))))))))))))))))))))))))))))))))))))))))))))))))))))))))))))))))))))))))
  | PreLinked _ ->
    (s, (RPanic (POther (S (S (S (S (S (S (S (S (S (S (S (S (S (S (S (S (S (S
      (S (S (S (S (S (S (S (S (S (S (S (S (S (S (S (S (S (S (S (S (S (S (S (S
      (S (S (S (S (S (S (S (S (S (S (S (S (S (S (S (S (S (S (S (S (S (S (S (S
      (S (S (S (S (S (S (S (S (S (S (S (S (S (S (S (S (S (S (S (S (S (S (S
      O))))))))))))))))))))))))))))))))))))))))))))))))))))))))))))))))))))))))))))))))))))))))))))
  | Evaluating (_, _, _, _) ->
    (s, (RPanic (POther (S (S (S (S (S (S (S (S (S (S (S (S (S (S (S (S (S (S
      (S (S (S (S (S (S (S (S (S (S (S (S (S (S (S (S (S (S (S (S (S (S (S (S
      (S (S (S (S (S (S (S (S (S (S (S (S (S (S (S (S (S (S (S (S (S (S (S (S
      (S (S (S (S (S (S (S (S (S (S (S (S (S (S (S (S (S (S (S (S (S (S (S
      O))))))))))))))))))))))))))))))))))))))))))))))))))))))))))))))))))))))))))))))))))))))))))))
  | _ ->
    let (p0, r) = inner_link fuel g s [] O m in
    let (s0, stack) = p0 in
    (match r with
     | ROk _ ->
       (match stack with
        | [] -> (s0, (ROk ()))
        | _ :: _ ->
          (s0, (RPanic (POther (S (S (S (S (S (S (S (S (S (S (S (S (S (S (S
            (S (S (S (S (S (S (S (S (S (S (S (S (S (S (S (S (S (S (S (S (S (S
            (S (S (S (S (S (S (S (S (S (S (S (S (S (S (S (S (S (S (S (S (S (S
            (S (S (S (S (S (S (S (S (S (S (S (S (S (S (S (S (S (S (S (S (S (S
            (S (S (S (S (S (S (S
            O))))))))))))))))))))))))))))))))))))))))))))))))))))))))))))))))))))))))))))))))))))))))))))
     | RErr e ->
       let (s1, o) = unlink_stack s0 (rev stack) in
       (match o with
        | Some p -> (s1, (RPanic p))
        | None -> (s1, (RErr e)))
     | RPanic p -> (s0, (RPanic p))
     | RFuel -> (s0, RFuel))

type lstate = { ls_loading : bool; ls_pending : nat; ls_visited : nat list;
                ls_queue : (nat * nat) list;
                ls_slab : (nat * nat) option list; ls_free : nat list;
                ls_result : error option option }

(** val ls0 : lstate **)

let ls0 =
  { ls_loading = true; ls_pending = (S O); ls_visited = []; ls_queue = [];
    ls_slab = []; ls_free = []; ls_result = None }

(** val ls_set_loading : lstate -> bool -> lstate **)

let ls_set_loading l b =
  { ls_loading = b; ls_pending = l.ls_pending; ls_visited = l.ls_visited;
    ls_queue = l.ls_queue; ls_slab = l.ls_slab; ls_free = l.ls_free;
    ls_result = l.ls_result }

(** val ls_set_pending : lstate -> nat -> lstate **)

let ls_set_pending l n =
  { ls_loading = l.ls_loading; ls_pending = n; ls_visited = l.ls_visited;
    ls_queue = l.ls_queue; ls_slab = l.ls_slab; ls_free = l.ls_free;
    ls_result = l.ls_result }

(** val ls_visit : lstate -> nat -> lstate **)

let ls_visit l m =
  { ls_loading = l.ls_loading; ls_pending = l.ls_pending; ls_visited =
    (m :: l.ls_visited); ls_queue = l.ls_queue; ls_slab = l.ls_slab;
    ls_free = l.ls_free; ls_result = l.ls_result }

(** val ls_enqueue : lstate -> (nat * nat) -> lstate **)

let ls_enqueue l j =
  { ls_loading = l.ls_loading; ls_pending = l.ls_pending; ls_visited =
    l.ls_visited; ls_queue = (app l.ls_queue (j :: [])); ls_slab = l.ls_slab;
    ls_free = l.ls_free; ls_result = l.ls_result }

(** val ls_settle : lstate -> error option -> lstate **)

let ls_settle l r =
  { ls_loading = l.ls_loading; ls_pending = l.ls_pending; ls_visited =
    l.ls_visited; ls_queue = l.ls_queue; ls_slab = l.ls_slab; ls_free =
    l.ls_free; ls_result =
    (match l.ls_result with
     | Some o -> Some o
     | None -> Some r) }

(** val inner_load :
    nat -> graph -> gstate -> lstate -> nat -> (gstate * lstate) * panic
    option **)

let rec inner_load fuel g s l m =
  match fuel with
  | O ->
    ((s, l), (Some (POther (S (S (S (S (S (S (S (S (S (S (S (S (S (S (S (S (S
      (S (S (S (S (S (S (S (S (S (S (S (S (S (S (S (S (S (S (S (S (S (S (S (S
      (S (S (S (S (S (S (S (S (S (S (S (S (S (S (S (S (S (S (S (S (S (S (S (S
      (S (S (S (S (S (S (S (S (S (S (S (S (S (S (S (S (S (S (S (S (S (S (S (S
      (S (S (S (S (S (S (S
      O)))))))))))))))))))))))))))))))))))))))))))))))))))))))))))))))))))))))))))))))))))))))))))))))))))
  | S f ->
    if negb l.ls_loading
    then ((s, l), (Some (POther (S (S (S (S (S (S (S (S (S (S (S (S (S (S (S
           (S (S (S (S (S (S (S (S (S (S (S (S (S (S (S (S (S (S (S (S (S (S
           (S (S (S (S (S (S (S (S (S (S (S (S (S (S (S (S (S (S (S (S (S (S
           (S (S (S (S (S (S (S (S (S (S (S (S (S (S (S (S (S (S (S (S (S (S
           (S (S (S (S (S (S (S (S (S
           O)))))))))))))))))))))))))))))))))))))))))))))))))))))))))))))))))))))))))))))))))))))))))))))
    else let visit =
           match status_of s m with
           | Unlinked -> negb (mem m l.ls_visited)
           | _ -> false
         in
         let r =
           if visit
           then let l0 = ls_visit l m in
                let reqs = requests g m in
                let l1 = ls_set_pending l0 (add l0.ls_pending (length reqs))
                in
                let rec loop rs s0 l2 =
                  match rs with
                  | [] -> ((s0, l2), None)
                  | r :: rest ->
                    let (p0, p) =
                      if mem r (getm s0 m).ms_loaded
                      then inner_load f g s0 l2 r
                      else ((s0, (ls_enqueue l2 (m, r))), None)
                    in
                    let (s1, l3) = p0 in
                    (match p with
                     | Some pn -> ((s1, l3), (Some pn))
                     | None ->
                       if negb l3.ls_loading
                       then ((s1, l3), None)
                       else loop rest s1 l3)
                in loop reqs s l1
           else ((s, l), None)
         in
         let (p0, o) = r in
         let (s0, l0) = p0 in
         (match o with
          | Some p -> ((s0, l0), (Some p))
          | None ->
            if negb l0.ls_loading
            then ((s0, l0), None)
            else (match l0.ls_pending with
                  | O ->
                    ((s0, l0), (Some (POther (S (S (S (S (S (S (S (S (S (S (S
                      (S (S (S (S (S (S (S (S (S (S (S (S (S (S (S (S (S (S
                      (S (S (S (S (S (S (S (S (S (S (S (S (S (S (S (S (S (S
                      (S (S (S (S (S (S (S (S (S (S (S (S (S (S (S (S (S (S
                      (S (S (S (S (S (S (S (S (S (S (S (S (S (S (S (S (S (S
                      (S (S (S (S (S (S (S (S
                      O))))))))))))))))))))))))))))))))))))))))))))))))))))))))))))))))))))))))))))))))))))))))))))))
                  | S n ->
                    let l1 = ls_set_pending l0 n in
                    (match n with
                     | O ->
                       ((s0, (ls_settle (ls_set_loading l1 false) None)),
                         None)
                     | S _ -> ((s0, l1), None))))

(** val load_job :
    nat -> graph -> gstate -> lstate -> (nat * nat) ->
    (gstate * lstate) * panic option **)

let load_job fuel g s l = function
| (m, r) ->
  let s0 = add_load s m r in
  if registered g r
  then let s1 = add_loaded s0 m r in
       if negb l.ls_loading then ((s1, l), None) else inner_load fuel g s1 l r
  else if negb l.ls_loading
       then ((s0, l), None)
       else ((s0, (ls_settle (ls_set_loading l false) (Some EType))), None)

(** val slab_set : 'a1 option list -> nat -> 'a1 option -> 'a1 option list **)

let rec slab_set sl i v =
  match sl with
  | [] -> []
  | x :: r -> (match i with
               | O -> v :: r
               | S i' -> x :: (slab_set r i' v))

(** val slab_insert_all :
    (nat * nat) list -> (nat * nat) option list -> nat list -> (nat * nat)
    option list * nat list **)

let rec slab_insert_all q sl fr =
  match q with
  | [] -> (sl, fr)
  | j :: rest ->
    (match fr with
     | [] -> slab_insert_all rest (app sl ((Some j) :: [])) []
     | i :: fr' -> slab_insert_all rest (slab_set sl i (Some j)) fr')

(** val slab_first : 'a1 option list -> nat -> (nat * 'a1) option **)

let rec slab_first sl i =
  match sl with
  | [] -> None
  | o :: r ->
    (match o with
     | Some j -> Some (i, j)
     | None -> slab_first r (S i))

(** val load_loop :
    nat -> graph -> gstate -> lstate -> (gstate * lstate) * unit res **)

let rec load_loop fuel g s l =
  match fuel with
  | O -> ((s, l), RFuel)
  | S f ->
    let (sl, fr) = slab_insert_all l.ls_queue l.ls_slab l.ls_free in
    (match slab_first sl O with
     | Some p ->
       let (i, j) = p in
       let l0 = { ls_loading = l.ls_loading; ls_pending = l.ls_pending;
         ls_visited = l.ls_visited; ls_queue = []; ls_slab =
         (slab_set sl i None); ls_free = (i :: fr); ls_result = l.ls_result }
       in
       let (p0, o) = load_job fuel g s l0 j in
       let (s0, l1) = p0 in
       (match o with
        | Some p1 ->
          (match p1 with
           | POther n ->
             (match n with
              | O -> ((s0, l1), (RPanic p1))
              | S n0 ->
                (match n0 with
                 | O -> ((s0, l1), (RPanic p1))
                 | S n1 ->
                   (match n1 with
                    | O -> ((s0, l1), (RPanic p1))
                    | S n2 ->
                      (match n2 with
                       | O -> ((s0, l1), (RPanic p1))
                       | S n3 ->
                         (match n3 with
                          | O -> ((s0, l1), (RPanic p1))
                          | S n4 ->
                            (match n4 with
                             | O -> ((s0, l1), (RPanic p1))
                             | S n5 ->
                               (match n5 with
                                | O -> ((s0, l1), (RPanic p1))
                                | S n6 ->
                                  (match n6 with
                                   | O -> ((s0, l1), (RPanic p1))
                                   | S n7 ->
                                     (match n7 with
                                      | O -> ((s0, l1), (RPanic p1))
                                      | S n8 ->
                                        (match n8 with
                                         | O -> ((s0, l1), (RPanic p1))
                                         | S n9 ->
                                           (match n9 with
                                            | O -> ((s0, l1), (RPanic p1))
                                            | S n10 ->
                                              (match n10 with
                                               | O -> ((s0, l1), (RPanic p1))
                                               | S n11 ->
                                                 (match n11 with
                                                  | O ->
                                                    ((s0, l1), (RPanic p1))
                                                  | S n12 ->
                                                    (match n12 with
                                                     | O ->
                                                       ((s0, l1), (RPanic p1))
                                                     | S n13 ->
                                                       (match n13 with
                                                        | O ->
                                                          ((s0, l1), (RPanic
                                                            p1))
                                                        | S n14 ->
                                                          (match n14 with
                                                           | O ->
                                                             ((s0, l1),
                                                               (RPanic p1))
                                                           | S n15 ->
                                                             (match n15 with
                                                              | O ->
                                                                ((s0, l1),
                                                                  (RPanic p1))
                                                              | S n16 ->
                                                                (match n16 with
                                                                 | O ->
                                                                   ((s0, l1),
                                                                    (RPanic
                                                                    p1))
                                                                 | S n17 ->
                                                                   (match n17 with
                                                                    | O ->
                                                                    ((s0,
                                                                    l1),
                                                                    (RPanic
                                                                    p1))
                                                                    | S n18 ->
                                                                    (match n18 with
                                                                    | O ->
                                                                    ((s0,
                                                                    l1),
                                                                    (RPanic
                                                                    p1))
                                                                    | S n19 ->
                                                                    (match n19 with
                                                                    | O ->
                                                                    ((s0,
                                                                    l1),
                                                                    (RPanic
                                                                    p1))
                                                                    | S n20 ->
                                                                    (match n20 with
                                                                    | O ->
                                                                    ((s0,
                                                                    l1),
                                                                    (RPanic
                                                                    p1))
                                                                    | S n21 ->
                                                                    (match n21 with
                                                                    | O ->
                                                                    ((s0,
                                                                    l1),
                                                                    (RPanic
                                                                    p1))
                                                                    | S n22 ->
                                                                    (match n22 with
                                                                    | O ->
                                                                    ((s0,
                                                                    l1),
                                                                    (RPanic
                                                                    p1))
                                                                    | S n23 ->
                                                                    (match n23 with
                                                                    | O ->
                                                                    ((s0,
                                                                    l1),
                                                                    (RPanic
                                                                    p1))
                                                                    | S n24 ->
                                                                    (match n24 with
                                                                    | O ->
                                                                    ((s0,
                                                                    l1),
                                                                    (RPanic
                                                                    p1))
                                                                    | S n25 ->
                                                                    (match n25 with
                                                                    | O ->
                                                                    ((s0,
                                                                    l1),
                                                                    (RPanic
                                                                    p1))
                                                                    | S n26 ->
                                                                    (match n26 with
                                                                    | O ->
                                                                    ((s0,
                                                                    l1),
                                                                    (RPanic
                                                                    p1))
                                                                    | S n27 ->
                                                                    (match n27 with
                                                                    | O ->
                                                                    ((s0,
                                                                    l1),
                                                                    (RPanic
                                                                    p1))
                                                                    | S n28 ->
                                                                    (match n28 with
                                                                    | O ->
                                                                    ((s0,
                                                                    l1),
                                                                    (RPanic
                                                                    p1))
                                                                    | S n29 ->
                                                                    (match n29 with
                                                                    | O ->
                                                                    ((s0,
                                                                    l1),
                                                                    (RPanic
                                                                    p1))
                                                                    | S n30 ->
                                                                    (match n30 with
                                                                    | O ->
                                                                    ((s0,
                                                                    l1),
                                                                    (RPanic
                                                                    p1))
                                                                    | S n31 ->
                                                                    (match n31 with
                                                                    | O ->
                                                                    ((s0,
                                                                    l1),
                                                                    (RPanic
                                                                    p1))
                                                                    | S n32 ->
                                                                    (match n32 with
                                                                    | O ->
                                                                    ((s0,
                                                                    l1),
                                                                    (RPanic
                                                                    p1))
                                                                    | S n33 ->
                                                                    (match n33 with
                                                                    | O ->
                                                                    ((s0,
                                                                    l1),
                                                                    (RPanic
                                                                    p1))
                                                                    | S n34 ->
                                                                    (match n34 with
                                                                    | O ->
                                                                    ((s0,
                                                                    l1),
                                                                    (RPanic
                                                                    p1))
                                                                    | S n35 ->
                                                                    (match n35 with
                                                                    | O ->
                                                                    ((s0,
                                                                    l1),
                                                                    (RPanic
                                                                    p1))
                                                                    | S n36 ->
                                                                    (match n36 with
                                                                    | O ->
                                                                    ((s0,
                                                                    l1),
                                                                    (RPanic
                                                                    p1))
                                                                    | S n37 ->
                                                                    (match n37 with
                                                                    | O ->
                                                                    ((s0,
                                                                    l1),
                                                                    (RPanic
                                                                    p1))
                                                                    | S n38 ->
                                                                    (match n38 with
                                                                    | O ->
                                                                    ((s0,
                                                                    l1),
                                                                    (RPanic
                                                                    p1))
                                                                    | S n39 ->
                                                                    (match n39 with
                                                                    | O ->
                                                                    ((s0,
                                                                    l1),
                                                                    (RPanic
                                                                    p1))
                                                                    | S n40 ->
                                                                    (match n40 with
                                                                    | O ->
                                                                    ((s0,
                                                                    l1),
                                                                    (RPanic
                                                                    p1))
                                                                    | S n41 ->
                                                                    (match n41 with
                                                                    | O ->
                                                                    ((s0,
                                                                    l1),
                                                                    (RPanic
                                                                    p1))
                                                                    | S n42 ->
                                                                    (match n42 with
                                                                    | O ->
                                                                    ((s0,
                                                                    l1),
                                                                    (RPanic
                                                                    p1))
                                                                    | S n43 ->
                                                                    (match n43 with
                                                                    | O ->
                                                                    ((s0,
                                                                    l1),
                                                                    (RPanic
                                                                    p1))
                                                                    | S n44 ->
                                                                    (match n44 with
                                                                    | O ->
                                                                    ((s0,
                                                                    l1),
                                                                    (RPanic
                                                                    p1))
                                                                    | S n45 ->
                                                                    (match n45 with
                                                                    | O ->
                                                                    ((s0,
                                                                    l1),
                                                                    (RPanic
                                                                    p1))
                                                                    | S n46 ->
                                                                    (match n46 with
                                                                    | O ->
                                                                    ((s0,
                                                                    l1),
                                                                    (RPanic
                                                                    p1))
                                                                    | S n47 ->
                                                                    (match n47 with
                                                                    | O ->
                                                                    ((s0,
                                                                    l1),
                                                                    (RPanic
                                                                    p1))
                                                                    | S n48 ->
                                                                    (match n48 with
                                                                    | O ->
                                                                    ((s0,
                                                                    l1),
                                                                    (RPanic
                                                                    p1))
                                                                    | S n49 ->
                                                                    (match n49 with
                                                                    | O ->
                                                                    ((s0,
                                                                    l1),
                                                                    (RPanic
                                                                    p1))
                                                                    | S n50 ->
                                                                    (match n50 with
                                                                    | O ->
                                                                    ((s0,
                                                                    l1),
                                                                    (RPanic
                                                                    p1))
                                                                    | S n51 ->
                                                                    (match n51 with
                                                                    | O ->
                                                                    ((s0,
                                                                    l1),
                                                                    (RPanic
                                                                    p1))
                                                                    | S n52 ->
                                                                    (match n52 with
                                                                    | O ->
                                                                    ((s0,
                                                                    l1),
                                                                    (RPanic
                                                                    p1))
                                                                    | S n53 ->
                                                                    (match n53 with
                                                                    | O ->
                                                                    ((s0,
                                                                    l1),
                                                                    (RPanic
                                                                    p1))
                                                                    | S n54 ->
                                                                    (match n54 with
                                                                    | O ->
                                                                    ((s0,
                                                                    l1),
                                                                    (RPanic
                                                                    p1))
                                                                    | S n55 ->
                                                                    (match n55 with
                                                                    | O ->
                                                                    ((s0,
                                                                    l1),
                                                                    (RPanic
                                                                    p1))
                                                                    | S n56 ->
                                                                    (match n56 with
                                                                    | O ->
                                                                    ((s0,
                                                                    l1),
                                                                    (RPanic
                                                                    p1))
                                                                    | S n57 ->
                                                                    (match n57 with
                                                                    | O ->
                                                                    ((s0,
                                                                    l1),
                                                                    (RPanic
                                                                    p1))
                                                                    | S n58 ->
                                                                    (match n58 with
                                                                    | O ->
                                                                    ((s0,
                                                                    l1),
                                                                    (RPanic
                                                                    p1))
                                                                    | S n59 ->
                                                                    (match n59 with
                                                                    | O ->
                                                                    ((s0,
                                                                    l1),
                                                                    (RPanic
                                                                    p1))
                                                                    | S n60 ->
                                                                    (match n60 with
                                                                    | O ->
                                                                    ((s0,
                                                                    l1),
                                                                    (RPanic
                                                                    p1))
                                                                    | S n61 ->
                                                                    (match n61 with
                                                                    | O ->
                                                                    ((s0,
                                                                    l1),
                                                                    (RPanic
                                                                    p1))
                                                                    | S n62 ->
                                                                    (match n62 with
                                                                    | O ->
                                                                    ((s0,
                                                                    l1),
                                                                    (RPanic
                                                                    p1))
                                                                    | S n63 ->
                                                                    (match n63 with
                                                                    | O ->
                                                                    ((s0,
                                                                    l1),
                                                                    (RPanic
                                                                    p1))
                                                                    | S n64 ->
                                                                    (match n64 with
                                                                    | O ->
                                                                    ((s0,
                                                                    l1),
                                                                    (RPanic
                                                                    p1))
                                                                    | S n65 ->
                                                                    (match n65 with
                                                                    | O ->
                                                                    ((s0,
                                                                    l1),
                                                                    (RPanic
                                                                    p1))
                                                                    | S n66 ->
                                                                    (match n66 with
                                                                    | O ->
                                                                    ((s0,
                                                                    l1),
                                                                    (RPanic
                                                                    p1))
                                                                    | S n67 ->
                                                                    (match n67 with
                                                                    | O ->
                                                                    ((s0,
                                                                    l1),
                                                                    (RPanic
                                                                    p1))
                                                                    | S n68 ->
                                                                    (match n68 with
                                                                    | O ->
                                                                    ((s0,
                                                                    l1),
                                                                    (RPanic
                                                                    p1))
                                                                    | S n69 ->
                                                                    (match n69 with
                                                                    | O ->
                                                                    ((s0,
                                                                    l1),
                                                                    (RPanic
                                                                    p1))
                                                                    | S n70 ->
                                                                    (match n70 with
                                                                    | O ->
                                                                    ((s0,
                                                                    l1),
                                                                    (RPanic
                                                                    p1))
                                                                    | S n71 ->
                                                                    (match n71 with
                                                                    | O ->
                                                                    ((s0,
                                                                    l1),
                                                                    (RPanic
                                                                    p1))
                                                                    | S n72 ->
                                                                    (match n72 with
                                                                    | O ->
                                                                    ((s0,
                                                                    l1),
                                                                    (RPanic
                                                                    p1))
                                                                    | S n73 ->
                                                                    (match n73 with
                                                                    | O ->
                                                                    ((s0,
                                                                    l1),
                                                                    (RPanic
                                                                    p1))
                                                                    | S n74 ->
                                                                    (match n74 with
                                                                    | O ->
                                                                    ((s0,
                                                                    l1),
                                                                    (RPanic
                                                                    p1))
                                                                    | S n75 ->
                                                                    (match n75 with
                                                                    | O ->
                                                                    ((s0,
                                                                    l1),
                                                                    (RPanic
                                                                    p1))
                                                                    | S n76 ->
                                                                    (match n76 with
                                                                    | O ->
                                                                    ((s0,
                                                                    l1),
                                                                    (RPanic
                                                                    p1))
                                                                    | S n77 ->
                                                                    (match n77 with
                                                                    | O ->
                                                                    ((s0,
                                                                    l1),
                                                                    (RPanic
                                                                    p1))
                                                                    | S n78 ->
                                                                    (match n78 with
                                                                    | O ->
                                                                    ((s0,
                                                                    l1),
                                                                    (RPanic
                                                                    p1))
                                                                    | S n79 ->
                                                                    (match n79 with
                                                                    | O ->
                                                                    ((s0,
                                                                    l1),
                                                                    (RPanic
                                                                    p1))
                                                                    | S n80 ->
                                                                    (match n80 with
                                                                    | O ->
                                                                    ((s0,
                                                                    l1),
                                                                    (RPanic
                                                                    p1))
                                                                    | S n81 ->
                                                                    (match n81 with
                                                                    | O ->
                                                                    ((s0,
                                                                    l1),
                                                                    (RPanic
                                                                    p1))
                                                                    | S n82 ->
                                                                    (match n82 with
                                                                    | O ->
                                                                    ((s0,
                                                                    l1),
                                                                    (RPanic
                                                                    p1))
                                                                    | S n83 ->
                                                                    (match n83 with
                                                                    | O ->
                                                                    ((s0,
                                                                    l1),
                                                                    (RPanic
                                                                    p1))
                                                                    | S n84 ->
                                                                    (match n84 with
                                                                    | O ->
                                                                    ((s0,
                                                                    l1),
                                                                    (RPanic
                                                                    p1))
                                                                    | S n85 ->
                                                                    (match n85 with
                                                                    | O ->
                                                                    ((s0,
                                                                    l1),
                                                                    (RPanic
                                                                    p1))
                                                                    | S n86 ->
                                                                    (match n86 with
                                                                    | O ->
                                                                    ((s0,
                                                                    l1),
                                                                    (RPanic
                                                                    p1))
                                                                    | S n87 ->
                                                                    (match n87 with
                                                                    | O ->
                                                                    ((s0,
                                                                    l1),
                                                                    (RPanic
                                                                    p1))
                                                                    | S n88 ->
                                                                    (match n88 with
                                                                    | O ->
                                                                    ((s0,
                                                                    l1),
                                                                    (RPanic
                                                                    p1))
                                                                    | S n89 ->
                                                                    (match n89 with
                                                                    | O ->
                                                                    ((s0,
                                                                    l1),
                                                                    (RPanic
                                                                    p1))
                                                                    | S n90 ->
                                                                    (match n90 with
                                                                    | O ->
                                                                    ((s0,
                                                                    l1),
                                                                    (RPanic
                                                                    p1))
                                                                    | S n91 ->
                                                                    (match n91 with
                                                                    | O ->
                                                                    ((s0,
                                                                    l1),
                                                                    (RPanic
                                                                    p1))
                                                                    | S n92 ->
                                                                    (match n92 with
                                                                    | O ->
                                                                    ((s0,
                                                                    l1),
                                                                    (RPanic
                                                                    p1))
                                                                    | S n93 ->
                                                                    (match n93 with
                                                                    | O ->
                                                                    ((s0,
                                                                    l1),
                                                                    (RPanic
                                                                    p1))
                                                                    | S n94 ->
                                                                    (match n94 with
                                                                    | O ->
                                                                    ((s0,
                                                                    l1),
                                                                    (RPanic
                                                                    p1))
                                                                    | S n95 ->
                                                                    (match n95 with
                                                                    | O ->
                                                                    ((s0,
                                                                    l1),
                                                                    RFuel)
                                                                    | S _ ->
                                                                    ((s0,
                                                                    l1),
                                                                    (RPanic
                                                                    p1)))))))))))))))))))))))))))))))))))))))))))))))))))))))))))))))))))))))))))))))))))))))))))))))))))
           | _ -> ((s0, l1), (RPanic p1)))
        | None -> load_loop f g s0 l1)
     | None -> ((s, l), (ROk ())))

(** val load :
    nat -> graph -> gstate -> nat -> gstate * error option option res **)

let load fuel g s m =
  let (p0, o) = inner_load fuel g s ls0 m in
  let (s0, l) = p0 in
  (match o with
   | Some p ->
     (match p with
      | POther n ->
        (match n with
         | O -> (s0, (RPanic p))
         | S n0 ->
           (match n0 with
            | O -> (s0, (RPanic p))
            | S n1 ->
              (match n1 with
               | O -> (s0, (RPanic p))
               | S n2 ->
                 (match n2 with
                  | O -> (s0, (RPanic p))
                  | S n3 ->
                    (match n3 with
                     | O -> (s0, (RPanic p))
                     | S n4 ->
                       (match n4 with
                        | O -> (s0, (RPanic p))
                        | S n5 ->
                          (match n5 with
                           | O -> (s0, (RPanic p))
                           | S n6 ->
                             (match n6 with
                              | O -> (s0, (RPanic p))
                              | S n7 ->
                                (match n7 with
                                 | O -> (s0, (RPanic p))
                                 | S n8 ->
                                   (match n8 with
                                    | O -> (s0, (RPanic p))
                                    | S n9 ->
                                      (match n9 with
                                       | O -> (s0, (RPanic p))
                                       | S n10 ->
                                         (match n10 with
                                          | O -> (s0, (RPanic p))
                                          | S n11 ->
                                            (match n11 with
                                             | O -> (s0, (RPanic p))
                                             | S n12 ->
                                               (match n12 with
                                                | O -> (s0, (RPanic p))
                                                | S n13 ->
                                                  (match n13 with
                                                   | O -> (s0, (RPanic p))
                                                   | S n14 ->
                                                     (match n14 with
                                                      | O -> (s0, (RPanic p))
                                                      | S n15 ->
                                                        (match n15 with
                                                         | O ->
                                                           (s0, (RPanic p))
                                                         | S n16 ->
                                                           (match n16 with
                                                            | O ->
                                                              (s0, (RPanic p))
                                                            | S n17 ->
                                                              (match n17 with
                                                               | O ->
                                                                 (s0, (RPanic
                                                                   p))
                                                               | S n18 ->
                                                                 (match n18 with
                                                                  | O ->
                                                                    (s0,
                                                                    (RPanic
                                                                    p))
                                                                  | S n19 ->
                                                                    (match n19 with
                                                                    | O ->
                                                                    (s0,
                                                                    (RPanic
                                                                    p))
                                                                    | S n20 ->
                                                                    (match n20 with
                                                                    | O ->
                                                                    (s0,
                                                                    (RPanic
                                                                    p))
                                                                    | S n21 ->
                                                                    (match n21 with
                                                                    | O ->
                                                                    (s0,
                                                                    (RPanic
                                                                    p))
                                                                    | S n22 ->
                                                                    (match n22 with
                                                                    | O ->
                                                                    (s0,
                                                                    (RPanic
                                                                    p))
                                                                    | S n23 ->
                                                                    (match n23 with
                                                                    | O ->
                                                                    (s0,
                                                                    (RPanic
                                                                    p))
                                                                    | S n24 ->
                                                                    (match n24 with
                                                                    | O ->
                                                                    (s0,
                                                                    (RPanic
                                                                    p))
                                                                    | S n25 ->
                                                                    (match n25 with
                                                                    | O ->
                                                                    (s0,
                                                                    (RPanic
                                                                    p))
                                                                    | S n26 ->
                                                                    (match n26 with
                                                                    | O ->
                                                                    (s0,
                                                                    (RPanic
                                                                    p))
                                                                    | S n27 ->
                                                                    (match n27 with
                                                                    | O ->
                                                                    (s0,
                                                                    (RPanic
                                                                    p))
                                                                    | S n28 ->
                                                                    (match n28 with
                                                                    | O ->
                                                                    (s0,
                                                                    (RPanic
                                                                    p))
                                                                    | S n29 ->
                                                                    (match n29 with
                                                                    | O ->
                                                                    (s0,
                                                                    (RPanic
                                                                    p))
                                                                    | S n30 ->
                                                                    (match n30 with
                                                                    | O ->
                                                                    (s0,
                                                                    (RPanic
                                                                    p))
                                                                    | S n31 ->
                                                                    (match n31 with
                                                                    | O ->
                                                                    (s0,
                                                                    (RPanic
                                                                    p))
                                                                    | S n32 ->
                                                                    (match n32 with
                                                                    | O ->
                                                                    (s0,
                                                                    (RPanic
                                                                    p))
                                                                    | S n33 ->
                                                                    (match n33 with
                                                                    | O ->
                                                                    (s0,
                                                                    (RPanic
                                                                    p))
                                                                    | S n34 ->
                                                                    (match n34 with
                                                                    | O ->
                                                                    (s0,
                                                                    (RPanic
                                                                    p))
                                                                    | S n35 ->
                                                                    (match n35 with
                                                                    | O ->
                                                                    (s0,
                                                                    (RPanic
                                                                    p))
                                                                    | S n36 ->
                                                                    (match n36 with
                                                                    | O ->
                                                                    (s0,
                                                                    (RPanic
                                                                    p))
                                                                    | S n37 ->
                                                                    (match n37 with
                                                                    | O ->
                                                                    (s0,
                                                                    (RPanic
                                                                    p))
                                                                    | S n38 ->
                                                                    (match n38 with
                                                                    | O ->
                                                                    (s0,
                                                                    (RPanic
                                                                    p))
                                                                    | S n39 ->
                                                                    (match n39 with
                                                                    | O ->
                                                                    (s0,
                                                                    (RPanic
                                                                    p))
                                                                    | S n40 ->
                                                                    (match n40 with
                                                                    | O ->
                                                                    (s0,
                                                                    (RPanic
                                                                    p))
                                                                    | S n41 ->
                                                                    (match n41 with
                                                                    | O ->
                                                                    (s0,
                                                                    (RPanic
                                                                    p))
                                                                    | S n42 ->
                                                                    (match n42 with
                                                                    | O ->
                                                                    (s0,
                                                                    (RPanic
                                                                    p))
                                                                    | S n43 ->
                                                                    (match n43 with
                                                                    | O ->
                                                                    (s0,
                                                                    (RPanic
                                                                    p))
                                                                    | S n44 ->
                                                                    (match n44 with
                                                                    | O ->
                                                                    (s0,
                                                                    (RPanic
                                                                    p))
                                                                    | S n45 ->
                                                                    (match n45 with
                                                                    | O ->
                                                                    (s0,
                                                                    (RPanic
                                                                    p))
                                                                    | S n46 ->
                                                                    (match n46 with
                                                                    | O ->
                                                                    (s0,
                                                                    (RPanic
                                                                    p))
                                                                    | S n47 ->
                                                                    (match n47 with
                                                                    | O ->
                                                                    (s0,
                                                                    (RPanic
                                                                    p))
                                                                    | S n48 ->
                                                                    (match n48 with
                                                                    | O ->
                                                                    (s0,
                                                                    (RPanic
                                                                    p))
                                                                    | S n49 ->
                                                                    (match n49 with
                                                                    | O ->
                                                                    (s0,
                                                                    (RPanic
                                                                    p))
                                                                    | S n50 ->
                                                                    (match n50 with
                                                                    | O ->
                                                                    (s0,
                                                                    (RPanic
                                                                    p))
                                                                    | S n51 ->
                                                                    (match n51 with
                                                                    | O ->
                                                                    (s0,
                                                                    (RPanic
                                                                    p))
                                                                    | S n52 ->
                                                                    (match n52 with
                                                                    | O ->
                                                                    (s0,
                                                                    (RPanic
                                                                    p))
                                                                    | S n53 ->
                                                                    (match n53 with
                                                                    | O ->
                                                                    (s0,
                                                                    (RPanic
                                                                    p))
                                                                    | S n54 ->
                                                                    (match n54 with
                                                                    | O ->
                                                                    (s0,
                                                                    (RPanic
                                                                    p))
                                                                    | S n55 ->
                                                                    (match n55 with
                                                                    | O ->
                                                                    (s0,
                                                                    (RPanic
                                                                    p))
                                                                    | S n56 ->
                                                                    (match n56 with
                                                                    | O ->
                                                                    (s0,
                                                                    (RPanic
                                                                    p))
                                                                    | S n57 ->
                                                                    (match n57 with
                                                                    | O ->
                                                                    (s0,
                                                                    (RPanic
                                                                    p))
                                                                    | S n58 ->
                                                                    (match n58 with
                                                                    | O ->
                                                                    (s0,
                                                                    (RPanic
                                                                    p))
                                                                    | S n59 ->
                                                                    (match n59 with
                                                                    | O ->
                                                                    (s0,
                                                                    (RPanic
                                                                    p))
                                                                    | S n60 ->
                                                                    (match n60 with
                                                                    | O ->
                                                                    (s0,
                                                                    (RPanic
                                                                    p))
                                                                    | S n61 ->
                                                                    (match n61 with
                                                                    | O ->
                                                                    (s0,
                                                                    (RPanic
                                                                    p))
                                                                    | S n62 ->
                                                                    (match n62 with
                                                                    | O ->
                                                                    (s0,
                                                                    (RPanic
                                                                    p))
                                                                    | S n63 ->
                                                                    (match n63 with
                                                                    | O ->
                                                                    (s0,
                                                                    (RPanic
                                                                    p))
                                                                    | S n64 ->
                                                                    (match n64 with
                                                                    | O ->
                                                                    (s0,
                                                                    (RPanic
                                                                    p))
                                                                    | S n65 ->
                                                                    (match n65 with
                                                                    | O ->
                                                                    (s0,
                                                                    (RPanic
                                                                    p))
                                                                    | S n66 ->
                                                                    (match n66 with
                                                                    | O ->
                                                                    (s0,
                                                                    (RPanic
                                                                    p))
                                                                    | S n67 ->
                                                                    (match n67 with
                                                                    | O ->
                                                                    (s0,
                                                                    (RPanic
                                                                    p))
                                                                    | S n68 ->
                                                                    (match n68 with
                                                                    | O ->
                                                                    (s0,
                                                                    (RPanic
                                                                    p))
                                                                    | S n69 ->
                                                                    (match n69 with
                                                                    | O ->
                                                                    (s0,
                                                                    (RPanic
                                                                    p))
                                                                    | S n70 ->
                                                                    (match n70 with
                                                                    | O ->
                                                                    (s0,
                                                                    (RPanic
                                                                    p))
                                                                    | S n71 ->
                                                                    (match n71 with
                                                                    | O ->
                                                                    (s0,
                                                                    (RPanic
                                                                    p))
                                                                    | S n72 ->
                                                                    (match n72 with
                                                                    | O ->
                                                                    (s0,
                                                                    (RPanic
                                                                    p))
                                                                    | S n73 ->
                                                                    (match n73 with
                                                                    | O ->
                                                                    (s0,
                                                                    (RPanic
                                                                    p))
                                                                    | S n74 ->
                                                                    (match n74 with
                                                                    | O ->
                                                                    (s0,
                                                                    (RPanic
                                                                    p))
                                                                    | S n75 ->
                                                                    (match n75 with
                                                                    | O ->
                                                                    (s0,
                                                                    (RPanic
                                                                    p))
                                                                    | S n76 ->
                                                                    (match n76 with
                                                                    | O ->
                                                                    (s0,
                                                                    (RPanic
                                                                    p))
                                                                    | S n77 ->
                                                                    (match n77 with
                                                                    | O ->
                                                                    (s0,
                                                                    (RPanic
                                                                    p))
                                                                    | S n78 ->
                                                                    (match n78 with
                                                                    | O ->
                                                                    (s0,
                                                                    (RPanic
                                                                    p))
                                                                    | S n79 ->
                                                                    (match n79 with
                                                                    | O ->
                                                                    (s0,
                                                                    (RPanic
                                                                    p))
                                                                    | S n80 ->
                                                                    (match n80 with
                                                                    | O ->
                                                                    (s0,
                                                                    (RPanic
                                                                    p))
                                                                    | S n81 ->
                                                                    (match n81 with
                                                                    | O ->
                                                                    (s0,
                                                                    (RPanic
                                                                    p))
                                                                    | S n82 ->
                                                                    (match n82 with
                                                                    | O ->
                                                                    (s0,
                                                                    (RPanic
                                                                    p))
                                                                    | S n83 ->
                                                                    (match n83 with
                                                                    | O ->
                                                                    (s0,
                                                                    (RPanic
                                                                    p))
                                                                    | S n84 ->
                                                                    (match n84 with
                                                                    | O ->
                                                                    (s0,
                                                                    (RPanic
                                                                    p))
                                                                    | S n85 ->
                                                                    (match n85 with
                                                                    | O ->
                                                                    (s0,
                                                                    (RPanic
                                                                    p))
                                                                    | S n86 ->
                                                                    (match n86 with
                                                                    | O ->
                                                                    (s0,
                                                                    (RPanic
                                                                    p))
                                                                    | S n87 ->
                                                                    (match n87 with
                                                                    | O ->
                                                                    (s0,
                                                                    (RPanic
                                                                    p))
                                                                    | S n88 ->
                                                                    (match n88 with
                                                                    | O ->
                                                                    (s0,
                                                                    (RPanic
                                                                    p))
                                                                    | S n89 ->
                                                                    (match n89 with
                                                                    | O ->
                                                                    (s0,
                                                                    (RPanic
                                                                    p))
                                                                    | S n90 ->
                                                                    (match n90 with
                                                                    | O ->
                                                                    (s0,
                                                                    (RPanic
                                                                    p))
                                                                    | S n91 ->
                                                                    (match n91 with
                                                                    | O ->
                                                                    (s0,
                                                                    (RPanic
                                                                    p))
                                                                    | S n92 ->
                                                                    (match n92 with
                                                                    | O ->
                                                                    (s0,
                                                                    (RPanic
                                                                    p))
                                                                    | S n93 ->
                                                                    (match n93 with
                                                                    | O ->
                                                                    (s0,
                                                                    (RPanic
                                                                    p))
                                                                    | S n94 ->
                                                                    (match n94 with
                                                                    | O ->
                                                                    (s0,
                                                                    (RPanic
                                                                    p))
                                                                    | S n95 ->
                                                                    (match n95 with
                                                                    | O ->
                                                                    (s0,
                                                                    RFuel)
                                                                    | S _ ->
                                                                    (s0,
                                                                    (RPanic
                                                                    p)))))))))))))))))))))))))))))))))))))))))))))))))))))))))))))))))))))))))))))))))))))))))))))))))))
      | _ -> (s0, (RPanic p)))
   | None ->
     let (p1, r) = load_loop fuel g s0 l in
     let (s1, l0) = p1 in
     (match r with
      | ROk _ -> (s1, (ROk l0.ls_result))
      | RErr e -> (s1, (RErr e))
      | RPanic p -> (s1, (RPanic p))
      | RFuel -> (s1, RFuel)))

type outcome =
| OFulfilled
| OPending
| ORejected of error
| OPanic of panic
| OFuel

(** val run_op : nat -> graph -> gstate -> nat -> gstate * outcome **)

let run_op fuel g s m =
  let (s0, r) = load fuel g s m in
  (match r with
   | ROk a ->
     (match a with
      | Some o ->
        (match o with
         | Some e -> (s0, (ORejected e))
         | None ->
           let (s1, r0) = link fuel g s0 m in
           (match r0 with
            | ROk _ ->
              let (s2, r1) = evaluate fuel g s1 m in
              (match r1 with
               | ROk c ->
                 let (s3, r2) = run_jobs fuel g s2 in
                 (match r2 with
                  | ROk _ ->
                    (s3,
                      (match promise_state s3 c with
                       | PPending -> OPending
                       | PFulfilled -> OFulfilled
                       | PRejected e -> ORejected e))
                  | RErr e -> (s3, (ORejected e))
                  | RPanic p -> (s3, (OPanic p))
                  | RFuel -> (s3, OFuel))
               | RErr e -> (s2, (ORejected e))
               | RPanic p -> (s2, (OPanic p))
               | RFuel -> (s2, OFuel))
            | RErr e -> (s1, (ORejected e))
            | RPanic p -> (s1, (OPanic p))
            | RFuel -> (s1, OFuel)))
      | None -> (s0, OPending))
   | RErr e -> (s0, (ORejected e))
   | RPanic p -> (s0, (OPanic p))
   | RFuel -> (s0, OFuel))

(** val run_ops :
    nat -> graph -> gstate -> nat list -> (gstate * outcome) list **)

let rec run_ops fuel g s = function
| [] -> []
| m :: rest ->
  let (s', o) = run_op fuel g s m in
  (s',
  o) :: (match o with
         | OPanic _ -> []
         | OFuel -> []
         | _ -> run_ops fuel g s' rest)

(** val default_fuel : graph -> nat **)

let default_fuel g =
  add
    (add (mul (mul (S (S (S (S O)))) (length g)) (length g))
      (mul (S (S (S (S O)))) (length g))) (S (S (S (S (S (S (S (S (S (S (S (S
    (S (S (S (S (S (S (S (S (S (S (S (S (S (S (S (S (S (S (S (S (S (S (S (S
    (S (S (S (S (S (S (S (S (S (S (S (S (S (S (S (S (S (S (S (S (S (S (S (S
    (S (S (S (S
    O))))))))))))))))))))))))))))))))))))))))))))))))))))))))))))))))
