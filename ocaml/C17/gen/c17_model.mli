
val negb : bool -> bool

type nat =
| O
| S of nat

val snd : ('a1 * 'a2) -> 'a2

val length : 'a1 list -> nat

val app : 'a1 list -> 'a1 list -> 'a1 list

val pred : nat -> nat

val add : nat -> nat -> nat

val mul : nat -> nat -> nat

module Nat :
 sig
  val eqb : nat -> nat -> bool

  val leb : nat -> nat -> bool

  val ltb : nat -> nat -> bool

  val min : nat -> nat -> nat
 end

val nth : nat -> 'a1 list -> 'a1 -> 'a1

val rev : 'a1 list -> 'a1 list

val map : ('a1 -> 'a2) -> 'a1 list -> 'a2 list

val existsb : ('a1 -> bool) -> 'a1 list -> bool

type modinfo = { mi_decls : nat list; mi_reads : nat list; mi_pre : bool;
                 mi_awaits : nat; mi_post : bool; mi_linkerr : bool }

type graph = modinfo list

val dummy_mod : modinfo

val info : graph -> nat -> modinfo

val mem : nat -> nat list -> bool

val dedup_acc : nat list -> nat list -> nat list

val dedup : nat list -> nat list

val requests : graph -> nat -> nat list

val has_tla : graph -> nat -> bool

val registered : graph -> nat -> bool

type error =
| EThrow of nat
| ESyntax
| EType

type panic =
| PLinkNotLinking
| PAssertErrorIsSome
| PGatherNotAsync
| PGatherPendingZero
| POther of nat

type status =
| Unlinked
| Linking of nat
| PreLinked of nat
| Linked of nat
| Evaluating of nat option * nat * nat * nat option
| EvaluatingAsync of nat option * nat * nat * nat
| Evaluated of nat option * nat * error option

type mstate = { ms_status : status; ms_loaded : nat list;
                ms_aparents : nat list; ms_phase : nat }

val ms0 : mstate

type event =
| EvStart of nat * nat list
| EvEnd of nat * nat list

type pstate =
| PPending
| PFulfilled
| PRejected of error

type job =
| JResume of nat * nat
| JFulfilled of nat
| JRejected of nat * error

type gstate = { gs_mods : (nat * mstate) list; gs_log : event list;
                gs_loads : (nat * nat) list; gs_proms : pstate list;
                gs_jobs : job list; gs_acount : nat }

val gs0 : gstate

val alookup : (nat * mstate) list -> nat -> mstate

val getm : gstate -> nat -> mstate

val setm : gstate -> nat -> mstate -> gstate

val status_of : gstate -> nat -> status

val set_status : gstate -> nat -> status -> gstate

val set_phase : gstate -> nat -> nat -> gstate

val set_aparents : gstate -> nat -> nat list -> gstate

val add_loaded : gstate -> nat -> nat -> gstate

val push_aparent : gstate -> nat -> nat -> gstate

val add_log : gstate -> event -> gstate

val add_load : gstate -> nat -> nat -> gstate

val enqueue : gstate -> job -> gstate

val set_jobs : gstate -> job list -> gstate

val incr_acount : gstate -> gstate

val new_promise : gstate -> gstate * nat

val settle_at : pstate list -> nat -> pstate -> pstate list

val settle : gstate -> nat -> pstate -> gstate

val promise_state : gstate -> nat -> pstate

type 'a res =
| ROk of 'a
| RErr of error
| RPanic of panic
| RFuel

val read_phases : gstate -> graph -> nat -> nat list

val body_start : graph -> gstate -> nat -> gstate

val body_end : graph -> gstate -> nat -> gstate

val execute_sync : graph -> gstate -> nat -> gstate * unit res

val body_finish : graph -> gstate -> nat -> gstate

val execute_async : graph -> gstate -> nat -> gstate * unit res

type rec_t = gstate -> nat list -> nat -> nat -> (gstate * nat list) * nat res

val eval_requests :
  rec_t -> nat -> nat list -> gstate -> nat list -> nat -> nat ->
  (gstate * nat list) * (nat * nat) res

val pop_scc :
  nat -> nat -> gstate -> nat list -> (gstate * nat list) * panic option

val inner_evaluate :
  nat -> graph -> nat option -> gstate -> nat list -> nat -> nat ->
  (gstate * nat list) * nat res

val mark_errored : gstate -> nat list -> error -> gstate * panic option

val evaluate : nat -> graph -> gstate -> nat -> gstate * nat res

val cycle_root_of : status -> nat option

val evaluation_error : status -> error option

val gather :
  nat -> graph -> gstate -> nat -> nat list -> (gstate * nat list) * panic
  option

val async_rejected :
  nat -> graph -> gstate -> nat -> error -> gstate * panic option

val aorder_of : gstate -> nat -> nat option

val insert_by : nat -> nat -> (nat * nat) list -> (nat * nat) list

val sort_exec : gstate -> nat list -> (nat * nat) list -> nat list option

val async_fulfilled : nat -> graph -> gstate -> nat -> gstate * panic option

val run_job : nat -> graph -> gstate -> job -> gstate * panic option

val run_jobs : nat -> graph -> gstate -> gstate * unit res

val init_environment : graph -> gstate -> nat -> gstate * unit res

val link_requests :
  rec_t -> nat -> nat list -> gstate -> nat list -> nat -> (gstate * nat
  list) * nat res

val pop_link : nat -> gstate -> nat list -> (gstate * nat list) * panic option

val inner_link :
  nat -> graph -> gstate -> nat list -> nat -> nat -> (gstate * nat
  list) * nat res

val unlink_stack : gstate -> nat list -> gstate * panic option

val link : nat -> graph -> gstate -> nat -> gstate * unit res

type lstate = { ls_loading : bool; ls_pending : nat; ls_visited : nat list;
                ls_queue : (nat * nat) list;
                ls_slab : (nat * nat) option list; ls_free : nat list;
                ls_result : error option option }

val ls0 : lstate

val ls_set_loading : lstate -> bool -> lstate

val ls_set_pending : lstate -> nat -> lstate

val ls_visit : lstate -> nat -> lstate

val ls_enqueue : lstate -> (nat * nat) -> lstate

val ls_settle : lstate -> error option -> lstate

val inner_load :
  nat -> graph -> gstate -> lstate -> nat -> (gstate * lstate) * panic option

val load_job :
  nat -> graph -> gstate -> lstate -> (nat * nat) ->
  (gstate * lstate) * panic option

val slab_set : 'a1 option list -> nat -> 'a1 option -> 'a1 option list

val slab_insert_all :
  (nat * nat) list -> (nat * nat) option list -> nat list -> (nat * nat)
  option list * nat list

val slab_first : 'a1 option list -> nat -> (nat * 'a1) option

val load_loop :
  nat -> graph -> gstate -> lstate -> (gstate * lstate) * unit res

val load : nat -> graph -> gstate -> nat -> gstate * error option option res

type outcome =
| OFulfilled
| OPending
| ORejected of error
| OPanic of panic
| OFuel

val run_op : nat -> graph -> gstate -> nat -> gstate * outcome

val run_ops : nat -> graph -> gstate -> nat list -> (gstate * outcome) list

val default_fuel : graph -> nat
