(* C17 model driver: reads the same case lines as harness/src/bin/modops.rs and prints the same result lines,
   computed by the extracted Coq model (ocaml/gen/c17_model.ml).
   Arguments: --reject-m, --own-pending, --gather-keeps select the repaired variants of Modules.cfg (default: cfg0).
   A read of a `var` export whose module body has not started prints '?': the engine prints '!' (binding not
   initialised by InitializeEnvironment, a known finding) or 'u' (repaired); the check treats '?' as either. *)
open C17_model

let rec nat_of_int n = if n <= 0 then O else S (nat_of_int (n - 1))
let rec int_of_nat = function O -> 0 | S n -> 1 + int_of_nat n

let split_on c s = String.split_on_char c s
let trim = String.trim

type decl = { kind : char; t : int; u : int }

let parse_decl d =
  let kind = d.[0] in
  let rest = String.sub d 1 (String.length d - 1) in
  match String.index_opt rest '.' with
  | Some i ->
      { kind; t = int_of_string (String.sub rest 0 i);
        u = int_of_string (String.sub rest (i + 1) (String.length rest - i - 1)) }
  | None -> { kind; t = int_of_string rest; u = 0 }

let parse_case line =
  match split_on '|' line with
  | [ m; o ] ->
      let mods =
        List.map
          (fun ms ->
            match split_on ':' (trim ms) with
            | [ fl; ds ] ->
                let decls =
                  List.filter_map
                    (fun d -> let d = trim d in if d = "" then None else Some (parse_decl d))
                    (split_on ',' ds)
                in
                (trim fl, decls)
            | _ -> failwith "module")
          (split_on ';' (trim m))
      in
      let ops =
        List.filter_map
          (fun op ->
            let op = trim op in
            if op = "" then None
            else if op = "J" then Some ('J', 0)
            else Some (op.[0], int_of_string (String.sub op 1 (String.length op - 1))))
          (split_on ',' o)
      in
      (mods, ops)
  | _ -> failwith "case"

let count c s = let n = ref 0 in String.iter (fun x -> if x = c then incr n) s; !n

let modinfo_of (fl, decls) =
  let targets = List.map (fun d -> nat_of_int d.t) decls in
  let reads =
    List.filter_map
      (fun d ->
        match d.kind with
        | 'n' | 's' -> Some (nat_of_int d.t)
        | 'r' -> Some (nat_of_int d.u)
        | _ -> None)
      decls
  in
  { mi_decls = targets; mi_reads = reads; mi_pre = String.contains fl 'T';
    mi_awaits = nat_of_int (count 'a' fl + count 'p' fl); mi_post = String.contains fl 't';
    mi_linkerr = String.contains fl 'E' }

let err_str = function
  | EThrow m -> Printf.sprintf "Error(m%d)" (int_of_nat m)
  | ESyntax -> "SyntaxError"
  | EType -> "TypeError"

let panic_str = function
  | PLinkNotLinking -> "link-not-linking"
  | PAssertErrorIsSome -> "assert-error-is-some"
  | PGatherNotAsync -> "gather-not-async"
  | PGatherPendingZero -> "gather-pending-zero"
  | POther n -> Printf.sprintf "other-%d" (int_of_nat n)

let rec drop n l = if n <= 0 then l else match l with [] -> [] | _ :: r -> drop (n - 1) r

let the_cfg = ref cfg0

let run line =
  let mods, ops = parse_case line in
  let g = List.map modinfo_of mods in
  let is_let t = match List.nth_opt mods t with Some (fl, _) -> String.contains fl 'l' | None -> false in
  let minfo = Array.of_list g in
  let phase_char t p = match p with 0 -> if is_let t then '!' else '?' | 1 -> if is_let t then '!' else 'u' | 2 -> '1' | _ -> '2' in
  let reads_str m ps =
    let targets = if m < Array.length minfo then List.map int_of_nat minfo.(m).mi_reads else [] in
    let b = Buffer.create 8 in
    List.iteri (fun i p -> Buffer.add_char b (phase_char (List.nth targets i) (int_of_nat p))) ps;
    Buffer.contents b
  in
  let ev_str = function
    | EvStart (m, ps) -> let m = int_of_nat m in Printf.sprintf "start:m%d:%s" m (reads_str m ps)
    | EvEnd (m, ps) -> let m = int_of_nat m in Printf.sprintf "end:m%d:%s" m (reads_str m ps)
  in
  (* ops: L k = load; link; evaluate; drain (run_op).  P k = load; drain.  E k = link; evaluate (no drain).  J = drain. *)
  let fuel = default_fuel g in
  let cf = !the_cfg in
  let plog = ref 0 and ploads = ref 0 in
  let evals = ref [] in
  let outs = ref [] in
  let pst s c = match promise_state s c with PPending -> "P" | PFulfilled -> "F" | PRejected e -> "R:" ^ err_str e in
  let emit name st s =
    let log = drop !plog s.gs_log and loads = drop !ploads s.gs_loads in
    plog := List.length s.gs_log;
    ploads := List.length s.gs_loads;
    outs :=
      Printf.sprintf "%s=%s~%s~%s" name st
        (String.concat "," (List.map ev_str log))
        (String.concat "," (List.map (fun (a, b) -> Printf.sprintf "m%d>m%d" (int_of_nat a) (int_of_nat b)) loads))
      :: !outs
  in
  let rec go s = function
    | [] -> ()
    | (kind, k) :: rest -> (
        let name = if kind = 'J' then "J" else Printf.sprintf "%c%d" kind k in
        let stop st s = emit name st s in
        let cont st s = emit name st s; go s rest in
        match kind with
        | 'L' -> (
            let s', o = run_op cf fuel g s (nat_of_int k) in
            match o with
            | OFulfilled -> cont "F" s'
            | OPending -> cont "P" s'
            | ORejected e -> cont ("R:" ^ err_str e) s'
            | OPanic p -> stop ("X:" ^ panic_str p) s'
            | OFuel -> stop "FUEL" s')
        | 'P' -> (
            match load fuel g s (nat_of_int k) with
            | s1, RFuel -> stop "FUEL" s1
            | s1, RPanic p -> stop ("X:" ^ panic_str p) s1
            | s1, RErr e -> cont ("R:" ^ err_str e) s1
            | s1, ROk r -> (
                let st = match r with None -> "P" | Some None -> "F" | Some (Some e) -> "R:" ^ err_str e in
                match run_jobs cf fuel g s1 with
                | s2, ROk _ -> cont st s2
                | s2, RPanic p -> stop ("X:" ^ panic_str p) s2
                | s2, _ -> stop "FUEL" s2))
        | 'E' -> (
            match link fuel g s (nat_of_int k) with
            | s1, RFuel -> stop "FUEL" s1
            | s1, RPanic p -> stop ("X:" ^ panic_str p) s1
            | s1, RErr e -> cont ("R:" ^ err_str e) s1
            | s1, ROk _ -> (
                match evaluate cf fuel g s1 (nat_of_int k) with
                | s2, ROk c -> evals := !evals @ [ c ]; cont (pst s2 c) s2
                | s2, RPanic p -> stop ("X:" ^ panic_str p) s2
                | s2, RErr e -> cont ("R:" ^ err_str e) s2
                | s2, RFuel -> stop "FUEL" s2))
        | _ -> (
            match run_jobs cf fuel g s with
            | s1, ROk _ -> cont (String.concat "/" (List.map (pst s1) !evals)) s1
            | s1, RPanic p -> stop ("X:" ^ panic_str p) s1
            | s1, _ -> stop "FUEL" s1))
  in
  go gs0 ops;
  String.concat ";" (List.rev !outs)

let () =
  let rej = ref false and own = ref false and keeps = ref false in
  Array.iteri
    (fun i a -> if i > 0 then match a with
       | "--reject-m" -> rej := true
       | "--own-pending" -> own := true
       | "--gather-keeps" -> keeps := true
       | _ -> (prerr_endline ("unknown argument " ^ a); exit 2))
    Sys.argv;
  the_cfg := { cf_reject_m = !rej; cf_own_pending = !own; cf_gather_keeps = !keeps };
  try
    while true do
      let line = trim (input_line stdin) in
      if line <> "" then begin
        (try print_endline (run line) with e -> print_endline ("bad-input " ^ Printexc.to_string e));
        flush stdout
      end
    done
  with End_of_file -> ()
