#!/bin/bash
# Build the OCaml drivers of the extracted models (extraction itself is done by the Coq build).
set -e
cd "$(dirname "$0")"
mkdir -p _build
build_one() {   # name  gen-module  driver-dir
  local name=$1 gen=$2 dir=$3
  if [ ! -f gen/$gen.ml ]; then echo "missing gen/$gen.ml (run the Coq build first)"; return 1; fi
  if [ _build/$name -nt gen/$gen.ml ] && [ _build/$name -nt $dir/driver.ml ]; then return 0; fi
  rm -rf _build/$name.d && mkdir -p _build/$name.d
  cp gen/$gen.ml gen/$gen.mli $dir/driver.ml _build/$name.d/
  (cd _build/$name.d && ocamlfind ocamlopt -w -a -o ../$name $gen.mli $gen.ml driver.ml 2>&1 | grep -v "^$" | head -20 || true)
  test -x _build/$name
}
build_one jsref jsref jsref
for d in */; do
  d=${d%/}
  if [ -f "$d/build.sh" ] && [ "$d" != "jsref" ]; then (cd "$d" && bash build.sh) || exit 1; fi
done
