(* C19 model driver: runs the extracted Coq printer / parser / parser_shaped predicate.
   Input lines:
     P <id> <S-expression of a program (list of stmt)>   -> "<id>\t<wf 0|1>\t<token words>\t<rt>"
          rt = ok | diff | err | fuel : parse_tokens (print_tokens prog) compared with prog
     T <id> <token words>                                 -> "<id>\tok\t<wf 0|1>\t<sexp>" | "<id>\terr" | "<id>\tfuel"
   Token words (blank separated): punctuators as written, K:<keyword>, I:<identifier>, N:<decimal>,
   S:"<escaped>", B:true|false, NULL, O:<anything else>.
   Strings are unescaped to their cooked bytes (UTF-8) on input and re-escaped on output. *)
open C19_model

let cstr (s : Stdlib.String.t) : C19_model.string =
  let r = ref EmptyString in
  for i = Stdlib.String.length s - 1 downto 0 do
    let c = Char.code s.[i] in
    let b k = (c lsr k) land 1 = 1 in
    r := String (Ascii (b 0, b 1, b 2, b 3, b 4, b 5, b 6, b 7), !r)
  done;
  !r

let ostr (s : C19_model.string) : Stdlib.String.t =
  let b = Buffer.create 16 in
  let rec go = function
    | EmptyString -> ()
    | String (Ascii (b0, b1, b2, b3, b4, b5, b6, b7), r) ->
        let v x k = if x then 1 lsl k else 0 in
        Buffer.add_char b (Char.chr (v b0 0 + v b1 1 + v b2 2 + v b3 3 + v b4 4 + v b5 5 + v b6 6 + v b7 7));
        go r
  in
  go s;
  Buffer.contents b

(* the harness wire escape (backslash escapes and uXXXX; code points above 127 become UTF-8 bytes) *)
let unescape_wire (s : Stdlib.String.t) : Stdlib.String.t =
  let b = Buffer.create (Stdlib.String.length s) in
  let n = Stdlib.String.length s in
  let i = ref 0 in
  while !i < n do
    if s.[!i] = '\\' && !i + 1 < n then begin
      (match s.[!i + 1] with
      | 'n' -> Buffer.add_char b '\n'; i := !i + 2
      | 'r' -> Buffer.add_char b '\r'; i := !i + 2
      | 't' -> Buffer.add_char b '\t'; i := !i + 2
      | '"' -> Buffer.add_char b '"'; i := !i + 2
      | '\\' -> Buffer.add_char b '\\'; i := !i + 2
      | 'u' when !i + 5 < n ->
          let cp = int_of_string ("0x" ^ Stdlib.String.sub s (!i + 2) 4) in
          if cp < 0x80 then Buffer.add_char b (Char.chr cp)
          else if cp < 0x800 then (Buffer.add_char b (Char.chr (0xC0 lor (cp lsr 6))); Buffer.add_char b (Char.chr (0x80 lor (cp land 0x3F))))
          else (Buffer.add_char b (Char.chr (0xE0 lor (cp lsr 12))); Buffer.add_char b (Char.chr (0x80 lor ((cp lsr 6) land 0x3F)));
                Buffer.add_char b (Char.chr (0x80 lor (cp land 0x3F))));
          i := !i + 6
      | c -> Buffer.add_char b c; i := !i + 2)
    end else begin Buffer.add_char b s.[!i]; incr i end
  done;
  Buffer.contents b


(* cooked bytes (UTF-8) -> the wire escape used in S-expressions and token words *)
let escape_wire (s : Stdlib.String.t) : Stdlib.String.t =
  let b = Buffer.create (Stdlib.String.length s + 8) in
  let n = Stdlib.String.length s in
  let i = ref 0 in
  let emit cp =
    if cp = 0x22 then Buffer.add_string b "\\\""
    else if cp = 0x5c then Buffer.add_string b "\\\\"
    else if cp < 0x21 || cp > 0x7e then begin
      if cp > 0xFFFF then begin
        let c = cp - 0x10000 in
        Buffer.add_string b (Printf.sprintf "\\u%04x\\u%04x" (0xD800 + (c lsr 10)) (0xDC00 + (c land 0x3FF)))
      end else Buffer.add_string b (Printf.sprintf "\\u%04x" cp)
    end else Buffer.add_char b (Char.chr cp)
  in
  while !i < n do
    let c = Char.code s.[!i] in
    if c < 0x80 then (emit c; incr i)
    else if c land 0xE0 = 0xC0 && !i + 1 < n then (emit (((c land 0x1F) lsl 6) lor (Char.code s.[!i + 1] land 0x3F)); i := !i + 2)
    else if c land 0xF0 = 0xE0 && !i + 2 < n then
      (emit (((c land 0x0F) lsl 12) lor ((Char.code s.[!i + 1] land 0x3F) lsl 6) lor (Char.code s.[!i + 2] land 0x3F)); i := !i + 3)
    else if c land 0xF8 = 0xF0 && !i + 3 < n then
      (emit (((c land 0x07) lsl 18) lor ((Char.code s.[!i + 1] land 0x3F) lsl 12) lor ((Char.code s.[!i + 2] land 0x3F) lsl 6)
             lor (Char.code s.[!i + 3] land 0x3F)); i := !i + 4)
    else (emit c; incr i)
  done;
  Buffer.contents b

let rec pos_of_int (z : int) : positive =
  if z = 1 then XH else if z land 1 = 0 then XO (pos_of_int (z lsr 1)) else XI (pos_of_int (z lsr 1))

let n_of_string (s : Stdlib.String.t) : n =
  let z = int_of_string s in
  if z < 0 then failwith "negative" else if z = 0 then N0 else Npos (pos_of_int z)

let rec int_of_pos = function XH -> 1 | XO p -> 2 * int_of_pos p | XI p -> 1 + (2 * int_of_pos p)
let string_of_n = function N0 -> "0" | Npos p -> string_of_int (int_of_pos p)

(* ---------------------------------------------------------------- S-expressions *)
type sx = A of Stdlib.String.t | Q of Stdlib.String.t | L of sx list | B of sx list

exception Bad of Stdlib.String.t

let parse_sx (s : Stdlib.String.t) : sx =
  let n = Stdlib.String.length s in
  let i = ref 0 in
  let rec skip () = if !i < n && (s.[!i] = ' ' || s.[!i] = '\t') then (incr i; skip ()) in
  let rec one () : sx =
    skip ();
    if !i >= n then raise (Bad "eof");
    match s.[!i] with
    | '(' -> incr i; L (many ')')
    | '[' -> incr i; B (many ']')
    | '"' ->
        incr i;
        let st = !i in
        while !i < n && s.[!i] <> '"' do
          if s.[!i] = '\\' then i := !i + 2 else incr i
        done;
        if !i >= n then raise (Bad "unterminated string");
        let r = Stdlib.String.sub s st (!i - st) in
        incr i;
        Q r
    | _ ->
        let st = !i in
        while !i < n && not (List.mem s.[!i] [ ' '; '('; ')'; '['; ']'; '\t' ]) do incr i done;
        A (Stdlib.String.sub s st (!i - st))
  and many close : sx list =
    skip ();
    if !i >= n then raise (Bad "eof in list");
    if s.[!i] = close then (incr i; [])
    else
      let x = one () in
      x :: many close
  in
  let r = one () in
  skip ();
  if !i < n then raise (Bad "trailing input");
  r

let binop_names =
  [ ("Add", Add); ("Sub", Sub); ("Mul", Mul); ("Div", Div); ("Mod", Mod); ("Exp", Exp); ("Shl", Shl); ("Shr", Shr);
    ("UShr", UShr); ("Lt", Lt); ("Gt", Gt); ("Le", Le); ("Ge", Ge); ("Eq", Eq); ("Ne", Ne); ("SEq", SEq); ("SNe", SNe);
    ("BitAnd", BitAnd); ("BitOr", BitOr); ("BitXor", BitXor); ("LAnd", LAnd); ("LOr", LOr); ("Coal", Coal); ("In", In);
    ("InstanceOf", InstanceOf); ("Comma", Comma) ]

let unop_names =
  [ ("UDelete", UDelete); ("UVoid", UVoid); ("UTypeof", UTypeof); ("UPlus", UPlus); ("UMinus", UMinus);
    ("UTilde", UTilde); ("UNot", UNot) ]

let rassoc x l = fst (List.find (fun (_, v) -> v = x) l)

let d_bool = function A "true" -> true | A "false" -> false | _ -> raise (Bad "bool")
let d_str = function Q s -> cstr (unescape_wire s) | _ -> raise (Bad "string")
let d_opt f = function A "None" -> None | L [ A "Some"; x ] -> Some (f x) | _ -> raise (Bad "option")
let d_list f = function B l -> List.map f l | _ -> raise (Bad "list")
let d_binop = function A s -> (try List.assoc s binop_names with Not_found -> raise (Bad ("binop " ^ s))) | _ -> raise (Bad "binop")

let rec d_expr (x : sx) : expr =
  match x with
  | A "EThis" -> EThis
  | A "ENull" -> ENull
  | L [ A "EId"; s ] -> EId (d_str s)
  | L [ A "ENum"; A n ] -> ENum (n_of_string n)
  | L [ A "EStr"; s ] -> EStr (d_str s)
  | L [ A "EBool"; b ] -> EBool (d_bool b)
  | L [ A "EArray"; es ] -> EArray (d_list (d_opt d_expr) es)
  | L [ A "EObject"; ps ] -> EObject (d_list d_prop ps)
  | L [ A "EParen"; e ] -> EParen (d_expr e)
  | L [ A "EFunc"; n; ps; b ] -> EFunc (d_opt d_str n, d_list d_str ps, d_list d_stmt b)
  | L [ A "EArrow"; ps; b ] -> EArrow (d_list d_str ps, d_list d_stmt b)
  | L [ A "EMember"; e; s ] -> EMember (d_expr e, d_str s)
  | L [ A "EIndex"; e; i ] -> EIndex (d_expr e, d_expr i)
  | L [ A "ECall"; f; args ] -> ECall (d_expr f, d_list d_expr args)
  | L [ A "ENew"; f; args ] -> ENew (d_expr f, d_list d_expr args)
  | L [ A "EUpdate"; p; i; e ] -> EUpdate (d_bool p, d_bool i, d_expr e)
  | L [ A "EUnary"; A o; e ] -> EUnary ((try List.assoc o unop_names with Not_found -> raise (Bad "unop")), d_expr e)
  | L [ A "EBin"; o; l; r ] -> EBin (d_binop o, d_expr l, d_expr r)
  | L [ A "ECond"; c; t; f ] -> ECond (d_expr c, d_expr t, d_expr f)
  | L [ A "EAssign"; o; l; r ] ->
      let ao = match o with A "AAssign" -> AAssign | L [ A "AOp"; b ] -> AOp (d_binop b) | _ -> raise (Bad "assignop") in
      EAssign (ao, d_expr l, d_expr r)
  | _ -> raise (Bad "expr")

and d_prop = function
  | L [ A "PShort"; s ] -> PShort (d_str s)
  | L [ A "PKV"; k; v ] -> PKV (d_str k, d_expr v)
  | L [ A "PComputed"; k; v ] -> PComputed (d_expr k, d_expr v)
  | _ -> raise (Bad "prop")

and d_decl = function L [ A "Pair"; n; i ] -> (d_str n, d_opt d_expr i) | _ -> raise (Bad "decl")

and d_head = function
  | L [ A "FHVar"; s ] -> FHVar (d_str s)
  | L [ A "FHLet"; s ] -> FHLet (d_str s)
  | L [ A "FHConst"; s ] -> FHConst (d_str s)
  | L [ A "FHTarget"; e ] -> FHTarget (d_expr e)
  | _ -> raise (Bad "forhead")

and d_stmt (x : sx) : stmt =
  match x with
  | A "SEmpty" -> SEmpty
  | A "SDebugger" -> SDebugger
  | L [ A "SBlock"; b ] -> SBlock (d_list d_stmt b)
  | L [ A "SVar"; ds ] -> SVar (d_list d_decl ds)
  | L [ A "SLet"; ds ] -> SLet (d_list d_decl ds)
  | L [ A "SConst"; ds ] -> SConst (d_list d_decl ds)
  | L [ A "SExpr"; e ] -> SExpr (d_expr e)
  | L [ A "SIf"; c; t; f ] -> SIf (d_expr c, d_stmt t, d_opt d_stmt f)
  | L [ A "SDoWhile"; b; c ] -> SDoWhile (d_stmt b, d_expr c)
  | L [ A "SWhile"; c; b ] -> SWhile (d_expr c, d_stmt b)
  | L [ A "SFor"; i; c; s; b ] ->
      let init =
        match i with
        | A "FINone" -> FINone
        | L [ A "FIExpr"; e ] -> FIExpr (d_expr e)
        | L [ A "FIVar"; ds ] -> FIVar (d_list d_decl ds)
        | L [ A "FILet"; ds ] -> FILet (d_list d_decl ds)
        | L [ A "FIConst"; ds ] -> FIConst (d_list d_decl ds)
        | _ -> raise (Bad "forinit")
      in
      SFor (init, d_opt d_expr c, d_opt d_expr s, d_stmt b)
  | L [ A "SForIn"; h; e; b ] -> SForIn (d_head h, d_expr e, d_stmt b)
  | L [ A "SForOf"; h; e; b ] -> SForOf (d_head h, d_expr e, d_stmt b)
  | L [ A "SSwitch"; e; cs ] ->
      SSwitch
        ( d_expr e,
          d_list (function L [ A "Pair"; c; b ] -> (d_opt d_expr c, d_list d_stmt b) | _ -> raise (Bad "case")) cs )
  | L [ A "SContinue"; l ] -> SContinue (d_opt d_str l)
  | L [ A "SBreak"; l ] -> SBreak (d_opt d_str l)
  | L [ A "SReturn"; e ] -> SReturn (d_opt d_expr e)
  | L [ A "SLabelled"; l; s ] -> SLabelled (d_str l, d_stmt s)
  | L [ A "SThrow"; e ] -> SThrow (d_expr e)
  | L [ A "STry"; b; c; f ] ->
      STry
        ( d_list d_stmt b,
          d_opt (function L [ A "Pair"; p; cb ] -> (d_opt d_str p, d_list d_stmt cb) | _ -> raise (Bad "catch")) c,
          d_opt (d_list d_stmt) f )
  | L [ A "SFunDecl"; n; ps; b ] -> SFunDecl (d_str n, d_list d_str ps, d_list d_stmt b)
  | _ -> raise (Bad "stmt")

(* ---------------------------------------------------------------- printing S-expressions *)
let q s = "\"" ^ escape_wire (ostr s) ^ "\""
let e_opt f = function None -> "None" | Some x -> "(Some " ^ f x ^ ")"
let e_list f l = "[" ^ Stdlib.String.concat " " (List.map f l) ^ "]"
let e_bool b = if b then "true" else "false"
let e_binop o = rassoc o binop_names

let rec e_expr = function
  | EThis -> "EThis"
  | ENull -> "ENull"
  | EId s -> "(EId " ^ q s ^ ")"
  | ENum n -> "(ENum " ^ string_of_n n ^ ")"
  | EStr s -> "(EStr " ^ q s ^ ")"
  | EBool b -> "(EBool " ^ e_bool b ^ ")"
  | EArray es -> "(EArray " ^ e_list (e_opt e_expr) es ^ ")"
  | EObject ps -> "(EObject " ^ e_list e_prop ps ^ ")"
  | EParen e -> "(EParen " ^ e_expr e ^ ")"
  | EFunc (n, ps, b) -> "(EFunc " ^ e_opt q n ^ " " ^ e_list q ps ^ " " ^ e_list e_stmt b ^ ")"
  | EArrow (ps, b) -> "(EArrow " ^ e_list q ps ^ " " ^ e_list e_stmt b ^ ")"
  | EMember (e, s) -> "(EMember " ^ e_expr e ^ " " ^ q s ^ ")"
  | EIndex (e, i) -> "(EIndex " ^ e_expr e ^ " " ^ e_expr i ^ ")"
  | ECall (f, a) -> "(ECall " ^ e_expr f ^ " " ^ e_list e_expr a ^ ")"
  | ENew (f, a) -> "(ENew " ^ e_expr f ^ " " ^ e_list e_expr a ^ ")"
  | EUpdate (p, i, e) -> "(EUpdate " ^ e_bool p ^ " " ^ e_bool i ^ " " ^ e_expr e ^ ")"
  | EUnary (o, e) -> "(EUnary " ^ rassoc o unop_names ^ " " ^ e_expr e ^ ")"
  | EBin (o, l, r) -> "(EBin " ^ e_binop o ^ " " ^ e_expr l ^ " " ^ e_expr r ^ ")"
  | ECond (c, t, f) -> "(ECond " ^ e_expr c ^ " " ^ e_expr t ^ " " ^ e_expr f ^ ")"
  | EAssign (o, l, r) ->
      "(EAssign " ^ (match o with AAssign -> "AAssign" | AOp b -> "(AOp " ^ e_binop b ^ ")") ^ " " ^ e_expr l ^ " " ^ e_expr r ^ ")"

and e_prop = function
  | PShort s -> "(PShort " ^ q s ^ ")"
  | PKV (k, v) -> "(PKV " ^ q k ^ " " ^ e_expr v ^ ")"
  | PComputed (k, v) -> "(PComputed " ^ e_expr k ^ " " ^ e_expr v ^ ")"

and e_decl (n, i) = "(Pair " ^ q n ^ " " ^ e_opt e_expr i ^ ")"

and e_head = function
  | FHVar s -> "(FHVar " ^ q s ^ ")"
  | FHLet s -> "(FHLet " ^ q s ^ ")"
  | FHConst s -> "(FHConst " ^ q s ^ ")"
  | FHTarget e -> "(FHTarget " ^ e_expr e ^ ")"

and e_stmt = function
  | SEmpty -> "SEmpty"
  | SDebugger -> "SDebugger"
  | SBlock b -> "(SBlock " ^ e_list e_stmt b ^ ")"
  | SVar ds -> "(SVar " ^ e_list e_decl ds ^ ")"
  | SLet ds -> "(SLet " ^ e_list e_decl ds ^ ")"
  | SConst ds -> "(SConst " ^ e_list e_decl ds ^ ")"
  | SExpr e -> "(SExpr " ^ e_expr e ^ ")"
  | SIf (c, t, f) -> "(SIf " ^ e_expr c ^ " " ^ e_stmt t ^ " " ^ e_opt e_stmt f ^ ")"
  | SDoWhile (b, c) -> "(SDoWhile " ^ e_stmt b ^ " " ^ e_expr c ^ ")"
  | SWhile (c, b) -> "(SWhile " ^ e_expr c ^ " " ^ e_stmt b ^ ")"
  | SFor (i, c, s, b) ->
      let init =
        match i with
        | FINone -> "FINone"
        | FIExpr e -> "(FIExpr " ^ e_expr e ^ ")"
        | FIVar ds -> "(FIVar " ^ e_list e_decl ds ^ ")"
        | FILet ds -> "(FILet " ^ e_list e_decl ds ^ ")"
        | FIConst ds -> "(FIConst " ^ e_list e_decl ds ^ ")"
      in
      "(SFor " ^ init ^ " " ^ e_opt e_expr c ^ " " ^ e_opt e_expr s ^ " " ^ e_stmt b ^ ")"
  | SForIn (h, e, b) -> "(SForIn " ^ e_head h ^ " " ^ e_expr e ^ " " ^ e_stmt b ^ ")"
  | SForOf (h, e, b) -> "(SForOf " ^ e_head h ^ " " ^ e_expr e ^ " " ^ e_stmt b ^ ")"
  | SSwitch (e, cs) ->
      "(SSwitch " ^ e_expr e ^ " " ^ e_list (fun (c, b) -> "(Pair " ^ e_opt e_expr c ^ " " ^ e_list e_stmt b ^ ")") cs ^ ")"
  | SContinue l -> "(SContinue " ^ e_opt q l ^ ")"
  | SBreak l -> "(SBreak " ^ e_opt q l ^ ")"
  | SReturn e -> "(SReturn " ^ e_opt e_expr e ^ ")"
  | SLabelled (l, s) -> "(SLabelled " ^ q l ^ " " ^ e_stmt s ^ ")"
  | SThrow e -> "(SThrow " ^ e_expr e ^ ")"
  | STry (b, c, f) ->
      "(STry " ^ e_list e_stmt b ^ " "
      ^ e_opt (fun (p, cb) -> "(Pair " ^ e_opt q p ^ " " ^ e_list e_stmt cb ^ ")") c
      ^ " " ^ e_opt (e_list e_stmt) f ^ ")"
  | SFunDecl (n, ps, b) -> "(SFunDecl " ^ q n ^ " " ^ e_list q ps ^ " " ^ e_list e_stmt b ^ ")"

(* ---------------------------------------------------------------- token words *)
let punct_words =
  [ ("(", POpenParen); (")", PCloseParen); ("[", POpenBracket); ("]", PCloseBracket); ("{", POpenBlock); ("}", PCloseBlock);
    (".", PDot); (";", PSemicolon); (",", PComma); (":", PColon); ("?", PQuestion); ("=>", PArrow); ("...", PSpread);
    ("=", PAssign); ("++", PInc); ("--", PDec); ("!", PNot); ("~", PNeg) ]

let op_words =
  [ ("+", Add); ("-", Sub); ("*", Mul); ("/", Div); ("%", Mod); ("**", Exp); ("<<", Shl); (">>", Shr); (">>>", UShr);
    ("<", Lt); (">", Gt); ("<=", Le); (">=", Ge); ("==", Eq); ("!=", Ne); ("===", SEq); ("!==", SNe); ("&", BitAnd);
    ("|", BitOr); ("^", BitXor); ("&&", LAnd); ("||", LOr); ("??", Coal) ]

let kw_words =
  [ ("this", KThis); ("function", KFunction); ("new", KNew); ("delete", KDelete); ("void", KVoid); ("typeof", KTypeof);
    ("in", KIn); ("instanceof", KInstanceof); ("var", KVar); ("let", KLet); ("const", KConst); ("if", KIf); ("else", KElse);
    ("do", KDo); ("while", KWhile); ("for", KFor); ("of", KOf); ("switch", KSwitch); ("case", KCase); ("default", KDefault);
    ("continue", KContinue); ("break", KBreak); ("return", KReturn); ("throw", KThrow); ("try", KTry); ("catch", KCatch);
    ("finally", KFinally); ("debugger", KDebugger) ]

let word_of_token (t : token) : Stdlib.String.t =
  match t with
  | TP (POp o) -> (try rassoc o op_words with Not_found -> "O:badop")
  | TP (PAssignOp o) -> (try rassoc o op_words ^ "=" with Not_found -> "O:badassign")
  | TP p -> rassoc p punct_words
  | TK k -> "K:" ^ rassoc k kw_words
  | TId s -> "I:" ^ ostr s
  | TNum n -> "N:" ^ string_of_n n
  | TStr s -> "S:\"" ^ escape_wire (ostr s) ^ "\""
  | TBool b -> "B:" ^ e_bool b
  | TNull -> "NULL"
  | TOther s -> "O:" ^ ostr s

let starts w p = Stdlib.String.length w >= Stdlib.String.length p && Stdlib.String.sub w 0 (Stdlib.String.length p) = p
let drop w k = Stdlib.String.sub w k (Stdlib.String.length w - k)

let token_of_word (w : Stdlib.String.t) : token =
  if starts w "K:" then (try TK (List.assoc (drop w 2) kw_words) with Not_found -> TOther (cstr w))
  else if starts w "I:" then TId (cstr (drop w 2))
  else if starts w "N:" then (try TNum (n_of_string (drop w 2)) with _ -> TOther (cstr w))
  else if starts w "S:\"" && Stdlib.String.length w >= 4 then TStr (cstr (unescape_wire (Stdlib.String.sub w 3 (Stdlib.String.length w - 4))))
  else if w = "B:true" then TBool true
  else if w = "B:false" then TBool false
  else if w = "NULL" then TNull
  else if starts w "O:" then TOther (cstr w)
  else
    match List.assoc_opt w punct_words with
    | Some p -> TP p
    | None -> (
        match List.assoc_opt w op_words with
        | Some o -> TP (POp o)
        | None ->
            let n = Stdlib.String.length w in
            if n >= 2 && w.[n - 1] = '=' then
              match List.assoc_opt (Stdlib.String.sub w 0 (n - 1)) op_words with
              | Some o -> TP (PAssignOp o)
              | None -> TOther (cstr w)
            else TOther (cstr w))

(* ---------------------------------------------------------------- text level (deepening round) *)
let text_of_string (s : Stdlib.String.t) : ascii list =
  let r = ref [] in
  for i = Stdlib.String.length s - 1 downto 0 do
    let c = Char.code s.[i] in
    let b k = (c lsr k) land 1 = 1 in
    r := Ascii (b 0, b 1, b 2, b 3, b 4, b 5, b 6, b 7) :: !r
  done;
  !r

let char_of_ascii (Ascii (b0, b1, b2, b3, b4, b5, b6, b7)) =
  let v x k = if x then 1 lsl k else 0 in
  Char.chr (v b0 0 + v b1 1 + v b2 2 + v b3 3 + v b4 4 + v b5 5 + v b6 6 + v b7 7)

let string_of_text (t : ascii list) =
  let b = Buffer.create 64 in
  List.iter (fun a -> Buffer.add_char b (char_of_ascii a)) t;
  Buffer.contents b

(* is `txt` a layout of `toks`: the token texts in order, separated by white space only, with white space wherever
   needs_sep demands it (the hypothesis of theorem lex_layout, checked on boa's real output) *)
let check_layout (txt : ascii list) (toks : token list) : Stdlib.String.t =
  let rec skip t had = match t with c :: r when is_ws c -> skip r true | _ -> (t, had) in
  let rec strip p t = match (p, t) with
    | [], _ -> Some t
    | a :: p', b :: t' when a = b -> strip p' t'
    | _ -> None in
  let rec go prev t toks =
    let t, had = skip t false in
    match toks with
    | [] -> if t = [] then "ok" else "trailing"
    | k :: rest -> (
        match strip (tok_text k) t with
        | None -> "mismatch:" ^ word_of_token k
        | Some t' ->
            (match prev with
             | Some p when (not had) && needs_sep p k -> "glue:" ^ word_of_token p ^ "~" ^ word_of_token k
             | _ -> go (Some k) t' rest))
  in
  go None txt toks

let split_words s = List.filter (fun x -> x <> "") (Stdlib.String.split_on_char ' ' s)

let () =
  try
    while true do
      let line = input_line stdin in
      let n = Stdlib.String.length line in
      if n >= 2 then begin
        let cmd = line.[0] in
        let rest = Stdlib.String.sub line 2 (n - 2) in
        let id, payload =
          match Stdlib.String.index_opt rest ' ' with
          | Some k -> (Stdlib.String.sub rest 0 k, Stdlib.String.sub rest (k + 1) (Stdlib.String.length rest - k - 1))
          | None -> (rest, "")
        in
        (match cmd with
        | 'P' -> (
            match (try Stdlib.Ok (d_list d_stmt (parse_sx payload)) with Bad m -> Stdlib.Error m | Failure m -> Stdlib.Error m | Invalid_argument m -> Stdlib.Error m) with
            | Stdlib.Error m -> Printf.printf "%s\tbad\t%s\n" id m
            | Stdlib.Ok prog ->
                let toks = print_tokens prog in
                let wf = parser_shapedb prog in
                let rt =
                  match parse_script (fuel_for toks) toks with
                  | Ok (l, _) -> if l = prog then "ok" else "diff"
                  | Err -> "err"
                  | Fuel -> "fuel"
                in
                Printf.printf "%s\t%d\t%s\t%s\n" id (if wf then 1 else 0)
                  (Stdlib.String.concat " " (List.map word_of_token toks)) rt)
        | 'X' -> (
            let sx, wire =
              match Stdlib.String.index_opt payload '\t' with
              | Some k -> (Stdlib.String.sub payload 0 k, Stdlib.String.sub payload (k + 1) (Stdlib.String.length payload - k - 1))
              | None -> (payload, "")
            in
            match (try Stdlib.Ok (d_list d_stmt (parse_sx sx)) with Bad m -> Stdlib.Error m | Failure m -> Stdlib.Error m | Invalid_argument m -> Stdlib.Error m) with
            | Stdlib.Error m -> Printf.printf "%s\tbad\t%s\n" id m
            | Stdlib.Ok prog ->
                let toks = print_tokens prog in
                let txt = text_of_string (unescape_wire wire) in
                let pr = printable_progb prog in
                let lexboa = match lex txt with Some l -> if l = toks then "eq" else "diff" | None -> "none" in
                let ptext = match parse_text txt with Some a -> if a = prog then "eq" else "diff" | None -> "none" in
                let lay = check_layout txt toks in
                let rtxt = render toks in
                let self = (match lex rtxt with Some l -> l = toks | None -> false) && (match parse_text rtxt with Some a -> a = prog | None -> false) in
                Printf.printf "%s\t%d\t%s\t%s\t%s\t%s\t%s\n" id (if pr then 1 else 0) lexboa ptext lay (if self then "ok" else "bad")
                  (Stdlib.String.escaped (string_of_text rtxt)))
        | 'L' -> (
            let txt = text_of_string (unescape_wire payload) in
            match lex txt with
            | Some l -> Printf.printf "%s\tok\t%s\n" id (Stdlib.String.concat " " (List.map word_of_token l))
            | None -> Printf.printf "%s\tnone\n" id)
        | 'R' -> (
            match (try Stdlib.Ok (d_list d_stmt (parse_sx payload)) with Bad m -> Stdlib.Error m | Failure m -> Stdlib.Error m | Invalid_argument m -> Stdlib.Error m) with
            | Stdlib.Error m -> Printf.printf "%s\tbad\t%s\n" id m
            | Stdlib.Ok prog -> Printf.printf "%s\tok\t%s\n" id (escape_wire (string_of_text (render (print_tokens prog)))))
        | 'T' -> (
            let toks = List.map token_of_word (split_words payload) in
            match parse_script (fuel_for toks) toks with
            | Ok (l, _) -> Printf.printf "%s\tok\t%d\t%s\n" id (if parser_shapedb l then 1 else if shaped_coreb l then 2 else 0) (e_list e_stmt l)
            | Err -> Printf.printf "%s\terr\n" id
            | Fuel -> Printf.printf "%s\tfuel\n" id)
        | _ -> Printf.printf "%s\tbad\tcommand\n" id);
        flush stdout
      end
    done
  with End_of_file -> ()
