#!/bin/sh
# Builds the C19 model driver from the extracted code.  coq/C19/Extract_C19.v writes ocaml/gen/c19_model.ml{,i};
# every compiled output stays under _build/ (git-ignored), nothing is written next to the sources.
set -e
cd "$(dirname "$0")"
mkdir -p _build
if [ ! -f ../gen/c19_model.ml ]; then echo "missing ocaml/gen/c19_model.ml (build coq/C19/Extract_C19.vo first)" >&2; exit 3; fi
if [ -x _build/c19_model ] && [ _build/c19_model -nt ../gen/c19_model.ml ] && [ _build/c19_model -nt c19_driver.ml ]; then exit 0; fi
cp ../gen/c19_model.ml ../gen/c19_model.mli c19_driver.ml _build/
cd _build
ocamlfind ocamlopt -O2 -w -a c19_model.mli c19_model.ml c19_driver.ml -o c19_model.tmp 2>/dev/null || \
ocamlfind ocamlopt -w -a c19_model.mli c19_model.ml c19_driver.ml -o c19_model.tmp
mv c19_model.tmp c19_model
