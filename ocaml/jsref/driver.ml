(* Driver for the extracted JSRef interpreter.
   stdin lines:  run <id> <fuel> <sexp>      stdout:  <id>\t<status>\t<trace json>\t<completion>
   The S-expression reader and the printers below are the only hand-written OCaml in the model path. *)
open Jsref

let rec pos_of_int (i : int) : positive =
  if i = 1 then XH else if i land 1 = 0 then XO (pos_of_int (i lsr 1)) else XI (pos_of_int (i lsr 1))
let n_of_int (i : int) : n = if i = 0 then N0 else Npos (pos_of_int i)

(* decimal string (possibly > 63 bits) to N: Horner in extracted arithmetic for long ones *)
let n_of_string (s : Stdlib.String.t) : n =
  if Stdlib.String.length s <= 17 then n_of_int (int_of_string s)
  else begin
    let acc = ref N0 in
    let ten = n_of_int 10 in
    Stdlib.String.iter (fun c -> acc := Jsref.N.add (Jsref.N.mul !acc ten) (n_of_int (Stdlib.Char.code c - 48))) s;
    !acc
  end

let rec int_of_pos = function XH -> 1 | XO p -> 2 * int_of_pos p | XI p -> 2 * int_of_pos p + 1
let int_of_n = function N0 -> 0 | Npos p -> int_of_pos p

let rec nat_of_int (i : int) : nat =
  let rec go acc k = if k = 0 then acc else go (S acc) (k - 1) in go O i

(* reader *)
let parse (s : Stdlib.String.t) : sexp =
  let len = Stdlib.String.length s in
  let pos = ref 0 in
  let rec skip () = while !pos < len && s.[!pos] = ' ' do incr pos done in
  let rec item () : sexp =
    skip ();
    if !pos >= len then failwith "eof"
    else if s.[!pos] = '(' then begin
      incr pos;
      let items = ref [] in
      let fin = ref false in
      while not !fin do
        skip ();
        if !pos >= len then failwith "unterminated"
        else if s.[!pos] = ')' then (incr pos; fin := true)
        else items := item () :: !items
      done;
      L (Stdlib.List.rev !items)
    end else begin
      let st = !pos in
      while !pos < len && s.[!pos] >= '0' && s.[!pos] <= '9' do incr pos done;
      if !pos = st then failwith "bad atom";
      A (n_of_string (Stdlib.String.sub s st (!pos - st)))
    end in
  item ()

let buf_units (b : Stdlib.Buffer.t) (u : n list) =
  Stdlib.Buffer.add_char b '"';
  Stdlib.List.iter (fun c ->
    let c = int_of_n c in
    if c = 0x22 then Stdlib.Buffer.add_string b "\\\""
    else if c = 0x5c then Stdlib.Buffer.add_string b "\\\\"
    else if c >= 0x20 && c <= 0x7e then Stdlib.Buffer.add_char b (Stdlib.Char.chr c)
    else Stdlib.Buffer.add_string b (Stdlib.Printf.sprintf "\\u%04x" c)) u;
  Stdlib.Buffer.add_char b '"'

let units_to_string u = let b = Stdlib.Buffer.create 64 in buf_units b u; Stdlib.Buffer.contents b
let raw_ascii (u : n list) = Stdlib.String.concat "" (Stdlib.List.map (fun c -> Stdlib.String.make 1 (Stdlib.Char.chr (int_of_n c land 0x7f))) u)

let trace_json (t : n list list) =
  let b = Stdlib.Buffer.create 256 in
  Stdlib.Buffer.add_char b '[';
  Stdlib.List.iteri (fun i l -> if i > 0 then Stdlib.Buffer.add_char b ','; buf_units b l) t;
  Stdlib.Buffer.add_char b ']';
  Stdlib.Buffer.contents b

let value_str ty text =
  let ty = raw_ascii ty in
  match text with
  | Some t -> Stdlib.Printf.sprintf "%s:%s" ty (units_to_string t)
  | None -> Stdlib.Printf.sprintf "%s:[%s]" ty ty

let () =
  try
    while true do
      let line = input_line stdin in
      if Stdlib.String.length line > 4 && Stdlib.String.sub line 0 4 = "run " then begin
        let rest = Stdlib.String.sub line 4 (Stdlib.String.length line - 4) in
        let sp1 = Stdlib.String.index rest ' ' in
        let id = Stdlib.String.sub rest 0 sp1 in
        let rest2 = Stdlib.String.sub rest (sp1 + 1) (Stdlib.String.length rest - sp1 - 1) in
        let sp2 = Stdlib.String.index rest2 ' ' in
        let fuel = int_of_string (Stdlib.String.sub rest2 0 sp2) in
        let sx = Stdlib.String.sub rest2 (sp2 + 1) (Stdlib.String.length rest2 - sp2 - 1) in
        let out =
          try
            match run_sexp (nat_of_int fuel) (parse sx) with
            | RValue (t, ty, tx) -> Stdlib.Printf.sprintf "ok\t%s\tV:%s" (trace_json t) (value_str ty tx)
            | RErrorClass (t, c) -> Stdlib.Printf.sprintf "ok\t%s\tT:%s" (trace_json t) (raw_ascii c)
            | RThrownPrim (t, ty, tx) -> Stdlib.Printf.sprintf "ok\t%s\tT:throw:%s" (trace_json t) (value_str ty tx)
            | RThrownObject t -> Stdlib.Printf.sprintf "ok\t%s\tT:throw:object" (trace_json t)
            | REarlyError -> "ok\t[]\tE:SyntaxError"
            | RFuelOut -> "fuel\t[]\t-"
            | RUnsup c -> Stdlib.Printf.sprintf "unsupported:%d\t[]\t-" (int_of_n c)
            | RBadInput -> "badinput\t[]\t-"
          with
          | Stack_overflow -> "stackoverflow\t[]\t-"
          | Failure m -> Stdlib.Printf.sprintf "badinput:%s\t[]\t-" m
        in
        print_string id; print_char '\t'; print_endline out
      end
    done
  with End_of_file -> ()
