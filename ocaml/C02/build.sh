#!/bin/sh
# Builds the C02 model driver from the extracted code.  coq/C02/Extract_C02.v writes ocaml/gen/c02_model.ml{,i};
# every compiled output stays under ocaml/C02/_build/ (git-ignored), nothing is written next to the sources.
set -e
cd "$(dirname "$0")"
mkdir -p _build
GEN=../gen
if [ ! -f $GEN/c02_model.ml ]; then echo "missing ocaml/gen/c02_model.ml (build coq/C02/Extract_C02.vo first)" >&2; exit 3; fi
if [ -x _build/c02_model ] && [ _build/c02_model -nt $GEN/c02_model.ml ] && [ _build/c02_model -nt c02_driver.ml ]; then exit 0; fi
cp $GEN/c02_model.ml $GEN/c02_model.mli c02_driver.ml _build/
cd _build
ocamlfind ocamlopt -O2 -w -a c02_model.mli c02_model.ml c02_driver.ml -o c02_model.tmp 2>/dev/null || \
ocamlfind ocamlopt -w -a c02_model.mli c02_model.ml c02_driver.ml -o c02_model.tmp
mv c02_model.tmp c02_model
