(* C02 model driver: evaluates the extracted kernels on the grid given on stdin.
   stdin: line 1 = a values, line 2 = b values (decimal, blank separated).
   stdout: one line per (profile, route, operator): `<profile> <route> <op-index|name> <case> <case> ...`,
   a case being the comma-joined encoding (the enc functions of Model_C02.v), row-major over a x b (unary: over a). *)
open C02_model

let rec pos_of_int n = if n = 1 then XH else if n land 1 = 1 then XI (pos_of_int (n lsr 1)) else XO (pos_of_int (n lsr 1))
let z_of_int n = if n = 0 then Z0 else if n > 0 then Zpos (pos_of_int n) else Zneg (pos_of_int (- n))
let rec int_of_pos = function XH -> 1 | XO p -> 2 * int_of_pos p | XI p -> 2 * int_of_pos p + 1
let int_of_z = function Z0 -> 0 | Zpos p -> int_of_pos p | Zneg p -> - (int_of_pos p)

let show l = String.concat "," (List.map (fun z -> string_of_int (int_of_z z)) l)
let ints s = List.filter_map (fun t -> if t = "" then None else Some (int_of_string t)) (String.split_on_char ' ' (String.trim s))

let () =
  let avs = List.map z_of_int (ints (input_line stdin)) in
  let bvs = List.map z_of_int (ints (input_line stdin)) in
  let profs = [ ("debug", Debug); ("release", Release) ] in
  List.iter (fun (pn, p) ->
    List.iteri (fun i op ->
      let b = Buffer.create 65536 in
      Buffer.add_string b (Printf.sprintf "%s fast %d" pn i);
      List.iter (fun a -> List.iter (fun y -> Buffer.add_char b ' '; Buffer.add_string b (show (encf (run_fast p op a y)))) bvs) avs;
      print_endline (Buffer.contents b);
      let b = Buffer.create 65536 in
      Buffer.add_string b (Printf.sprintf "%s ops %d" pn i);
      List.iter (fun a -> List.iter (fun y -> Buffer.add_char b ' '; Buffer.add_string b (show (enc_res (run_ops p op a y)))) bvs) avs;
      print_endline (Buffer.contents b)) all_binops;
    let line name f = print_endline (String.concat " " ((pn ^ " unary " ^ name) :: List.map f avs)) in
    line "neg" (fun a -> show (enc_res (neg_ops_i32 p a)));
    line "inc" (fun a -> show (enc_res_pair (inc_i32 p a)));
    line "dec" (fun a -> show (enc_res_pair (dec_i32 p a)))) profs
