(* C11 model driver: runs the extracted Eval_C11.case_eval on run-time parsed cases.
   Input, one case per line (blank separated):
     <A> <B> <SA> <SB> <from> <p1> <p2> <byte>
   A, B: comma separated decimal code units, `-` = empty.  SA, SB: scalar values of A / B when they are
   well-formed UTF-16 (`-` = empty str), `N` = None.
   Output, one line per case: the groups of case_eval joined by `|`, the observations of a group by `;`,
   the numbers of an observation by `,` (an absent group is the empty string). *)
open C11model

let rec pos_of_int (i : int) : positive =
  if i = 1 then XH else if i land 1 = 1 then XI (pos_of_int (i lsr 1)) else XO (pos_of_int (i lsr 1))
let n_of_int (i : int) : n = if i = 0 then N0 else Npos (pos_of_int i)
let rec int_of_pos (p : positive) : int =
  match p with XH -> 1 | XO q -> 2 * int_of_pos q | XI q -> 2 * int_of_pos q + 1
let int_of_n (x : n) : int = match x with N0 -> 0 | Npos p -> int_of_pos p
let rec nat_of_int (i : int) : nat = if i <= 0 then O else S (nat_of_int (i - 1))

let parse_list (s : string) : n list =
  if s = "-" then [] else List.map (fun x -> n_of_int (int_of_string x)) (String.split_on_char ',' s)
let parse_opt (s : string) : n list option = if s = "N" then None else Some (parse_list s)

let () =
  let buf = Buffer.create 65536 in
  (try
     while true do
       let line = input_line stdin in
       match List.filter (fun x -> x <> "") (String.split_on_char ' ' line) with
       | [a; b; sa; sb; from; p1; p2; byte] ->
           let r =
             case_eval (parse_list a) (parse_list b) (parse_opt sa) (parse_opt sb)
               (nat_of_int (int_of_string from)) (nat_of_int (int_of_string p1)) (nat_of_int (int_of_string p2))
               (n_of_int (int_of_string byte))
           in
           Buffer.clear buf;
           List.iteri
             (fun gi g ->
               if gi > 0 then Buffer.add_char buf '|';
               List.iteri
                 (fun oi o ->
                   if oi > 0 then Buffer.add_char buf ';';
                   List.iteri
                     (fun ni x ->
                       if ni > 0 then Buffer.add_char buf ',';
                       Buffer.add_string buf (string_of_int (int_of_n x)))
                     o)
                 g)
             r;
           print_endline (Buffer.contents buf)
       | [] -> ()
       | _ -> print_endline "ERR bad-line"
     done
   with End_of_file -> ());
  flush stdout
