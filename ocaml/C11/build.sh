#!/bin/bash
# Build the C11 model driver from the extracted model + driver.ml with ocamlfind ocamlopt.
# The extraction itself (coq/C11/Extract_C11.v -> ocaml/gen/c11model.ml{,i}) is a target of the Coq Makefile build
# (checks/c11.py asks for C11/Extract_C11.vo); when the extracted files are missing or older than the model this script
# runs that one coqc itself.  Idempotent.  All compiled output goes to ocaml/C11/_build/ (git-ignored), the extracted
# sources to ocaml/gen/ (git-ignored); nothing is written next to the sources.
set -eu
HERE="$(cd "$(dirname "$0")" && pwd)"
COQ="$HERE/../../coq"
GEN="$HERE/../gen"
OUT="$HERE/_build"
mkdir -p "$OUT" "$GEN"
BIN="$OUT/driver"
(
  flock 9
  need_extract=0
  for f in "$COQ/C11/Model_C11.v" "$COQ/C11/Eval_C11.v" "$COQ/C11/Extract_C11.v"; do
    if [ ! -f "$GEN/c11model.ml" ] || [ ! -f "$GEN/c11model.mli" ] || [ "$f" -nt "$GEN/c11model.ml" ]; then need_extract=1; fi
  done
  if [ $need_extract = 1 ]; then
    if [ ! -f "$COQ/C11/Eval_C11.vo" ] || [ "$COQ/C11/Eval_C11.v" -nt "$COQ/C11/Eval_C11.vo" ] || [ "$COQ/C11/Model_C11.v" -nt "$COQ/C11/Eval_C11.vo" ]; then
      echo "Eval_C11.vo missing or stale (build it through the Coq Makefile first)" >&2
      exit 3
    fi
    (cd "$COQ" && timeout 600 coqc -noglob -Q Common Common -Q C11 C11 -o "$OUT/Extract_C11.vo" C11/Extract_C11.v) > "$OUT/extract.log" 2>&1 \
      || { cat "$OUT/extract.log" >&2; exit 4; }
  fi
  if [ ! -x "$BIN" ] || [ "$GEN/c11model.ml" -nt "$BIN" ] || [ "$HERE/driver.ml" -nt "$BIN" ] || [ "$HERE/build.sh" -nt "$BIN" ]; then
    cp "$GEN/c11model.ml" "$GEN/c11model.mli" "$HERE/driver.ml" "$OUT/"
    cd "$OUT"
    timeout 600 ocamlfind ocamlopt -O3 -w -a c11model.mli c11model.ml driver.ml -o driver.tmp 2>/dev/null \
      || timeout 600 ocamlfind ocamlopt -w -a c11model.mli c11model.ml driver.ml -o driver.tmp
    mv driver.tmp driver
  fi
) 9> "$OUT/.lock"
echo "$BIN"
