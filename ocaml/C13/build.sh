#!/bin/sh
# builds the model driver from the extracted code (gen/numtext.ml is produced by coq/C13/Extract_C13.v)
set -e
cd "$(dirname "$0")"
mkdir -p _build
cp gen/numtext.ml gen/numtext.mli numdrv.ml _build/
cd _build
ocamlfind ocamlopt -O3 -unboxed-types 2>/dev/null >/dev/null || true
ocamlfind ocamlopt -w -a -inline 200 -unsafe numtext.mli numtext.ml numdrv.ml -o ../numdrv
