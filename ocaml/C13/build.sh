#!/bin/sh
# Builds the model driver from the extracted code.  coq/C13/Extract_C13.v writes _build/numtext.ml{,i};
# every compiled output stays under _build/ (git-ignored), nothing is written next to the sources.
set -e
cd "$(dirname "$0")"
mkdir -p _build
if [ ! -f _build/numtext.ml ]; then echo "missing _build/numtext.ml (build coq/C13/Extract_C13.vo first)" >&2; exit 3; fi
if [ -x _build/numdrv ] && [ _build/numdrv -nt _build/numtext.ml ] && [ _build/numdrv -nt numdrv.ml ] && [ _build/numdrv -nt build.sh ]; then exit 0; fi
cp numdrv.ml _build/numdrv.ml
cd _build
ocamlfind ocamlopt -O3 -w -a -inline 200 -unsafe numtext.mli numtext.ml numdrv.ml -o numdrv.tmp 2>/dev/null || \
ocamlfind ocamlopt -w -a -inline 200 -unsafe numtext.mli numtext.ml numdrv.ml -o numdrv.tmp
mv numdrv.tmp numdrv
