(* C13 model driver: same line protocol as harness/src/bin/numops.rs, answers computed by the functions
   extracted from coq/C13 (Numtext).  Output per line:  <specification answer> TAB <code-level model answer or ->
   The code-level column is the model of the REPAIRED algorithms (coq/C13/Deep_Code_C13.v); with NUMDRV_OLD_MODELS=1
   it is the model of the algorithms as they were on the pinned tree (coq/C13/Code_C13.v).
   Answers: S:"..."  N:<16 hex>  N:nan  T:RangeError  T:SyntaxError  -  (specification leaves it open / not modelled) *)
type str = string
open Numtext

let rec pos_of_int (n : int) : positive =
  if n = 1 then XH else if n land 1 = 1 then XI (pos_of_int (n lsr 1)) else XO (pos_of_int (n lsr 1))
let z_of_int (n : int) : z = if n = 0 then Z0 else if n > 0 then Zpos (pos_of_int n) else Zneg (pos_of_int (-n))

(* 64-bit pattern from 16 hex digits, as a Z in [0, 2^64) *)
let z_of_hex (s : str) : z =
  let acc = ref Z0 in
  String.iter (fun c ->
    let d = match c with
      | '0'..'9' -> Char.code c - 48 | 'a'..'f' -> Char.code c - 87 | 'A'..'F' -> Char.code c - 55
      | _ -> failwith "hex" in
    acc := Z.add (Z.mul !acc (z_of_int 16)) (z_of_int d)) s;
  !acc

let rec int_of_pos (p : positive) : int =
  match p with XH -> 1 | XO q -> 2 * int_of_pos q | XI q -> 2 * int_of_pos q + 1
let int_of_z (x : z) : int = match x with Z0 -> 0 | Zpos p -> int_of_pos p | Zneg p -> - (int_of_pos p)

let hex_of_z (x : z) : str =
  (* x < 2^64: split in two 32-bit halves to stay inside OCaml's 63-bit ints *)
  let two32 = z_of_int 4294967296 in
  let hi = int_of_z (Z.div x two32) and lo = int_of_z (Z.modulo x two32) in
  Printf.sprintf "%08x%08x" hi lo

let old_models = (try Sys.getenv "NUMDRV_OLD_MODELS" = "1" with Not_found -> false)
let nan_z = z_of_hex "7ff8000000000000"
let show_num (x : z) : str = if x = nan_z then "N:nan" else "N:" ^ hex_of_z x

let show_units (u : z list) : str =
  let b = Buffer.create 64 in
  Buffer.add_string b "S:\"";
  List.iter (fun c ->
    let c = int_of_z c in
    if c = 0x22 then Buffer.add_string b "\\\""
    else if c = 0x5c then Buffer.add_string b "\\\\"
    else if c >= 0x20 && c <= 0x7e then Buffer.add_char b (Char.chr c)
    else Buffer.add_string b (Printf.sprintf "\\u%04x" c)) u;
  Buffer.add_char b '"';
  Buffer.contents b

let show_res (r : res) : str = match r with Str s -> show_units s | RangeError -> "T:RangeError"
let show_lit (r : lit_res) : str = match r with LNum b -> show_num b | LSyntaxError -> "T:SyntaxError"

(* the \uXXXX wire format of bh::unescape_units; input bytes are UTF-8 *)
let units_of_wire (s : str) : z list =
  let n = String.length s in
  let out = ref [] in
  let push c = out := z_of_int c :: !out in
  let i = ref 0 in
  while !i < n do
    let c = s.[!i] in
    if c = '\\' && !i + 1 < n then begin
      match s.[!i + 1] with
      | 'n' -> push 10; i := !i + 2
      | 'r' -> push 13; i := !i + 2
      | 't' -> push 9; i := !i + 2
      | '"' -> push 34; i := !i + 2
      | '\\' -> push 92; i := !i + 2
      | 'u' when !i + 6 <= n -> push (int_of_string ("0x" ^ String.sub s (!i + 2) 4)); i := !i + 6
      | _ -> push (Char.code c); incr i
    end else begin
      let b0 = Char.code c in
      if b0 < 0x80 then (push b0; incr i)
      else begin
        let len, init = if b0 >= 0xf0 then 4, b0 land 7 else if b0 >= 0xe0 then 3, b0 land 15 else 2, b0 land 31 in
        let cp = ref init in
        for k = 1 to len - 1 do
          if !i + k < n then cp := (!cp lsl 6) lor (Char.code s.[!i + k] land 63)
        done;
        if !cp >= 0x10000 then begin
          let v = !cp - 0x10000 in
          push (0xd800 + (v lsr 10)); push (0xdc00 + (v land 0x3ff))
        end else push !cp;
        i := !i + len
      end
    end
  done;
  List.rev !out

(* ToIntegerOrInfinity of the harness-side argument; infinities become out-of-range integers *)
let opt_arg (s : str) : z option =
  match s with
  | "u" -> None
  | "inf" -> Some (z_of_int 1000000)
  | "-inf" -> Some (z_of_int (-1000000))
  | "nan" -> Some Z0
  | _ -> (match int_of_string_opt s with
          | Some i -> Some (z_of_int i)
          | None -> Some (z_of_int (int_of_float (Float.trunc (float_of_string s)))))

(* ToInt32 of the parseInt radix argument *)
let to_int32 (s : str) : z =
  match s with
  | "u" | "inf" | "-inf" | "nan" -> Z0
  | _ -> let f = match int_of_string_opt s with Some i -> float_of_int i | None -> float_of_string s in
         let t = Float.trunc f in
         let m = Float.rem t 4294967296.0 in
         let m = if m < 0.0 then m +. 4294967296.0 else m in
         let m = if m >= 2147483648.0 then m -. 4294967296.0 else m in
         z_of_int (int_of_float m)

let split_first (s : str) : str * str =
  match String.index_opt s ' ' with
  | Some i -> String.sub s 0 i, String.sub s (i + 1) (String.length s - i - 1)
  | None -> s, ""

let split_last (s : str) : str * str =
  match String.rindex_opt s ' ' with
  | Some i -> String.sub s 0 i, String.sub s (i + 1) (String.length s - i - 1)
  | None -> s, "u"

let words (s : str) : str list = List.filter (fun w -> w <> "") (String.split_on_char ' ' s)

(* a line starting with '~' asks for the specification answer only (the code-level models of the digit
   generating methods expand 768 / 1100 exact digits per case: the check samples them) *)
let spec_only = ref false

let answer (line : str) : str =
  let line = if String.length line > 0 && line.[0] = '~' then (spec_only := true; String.sub line 1 (String.length line - 1)) else (spec_only := false; line) in
  let op, rest = split_first line in
  match op with
  | "tostr" -> show_units (to_string_spec (z_of_hex (String.trim rest))) ^ "\t-"
  | "rt" ->
      let b = z_of_hex (String.trim rest) in
      show_num (string_to_number_spec (to_string_spec b)) ^ "\t-"
  | "radix" ->
      (match words rest with
       | [b; r] ->
           let b = z_of_hex b and r = (match opt_arg r with Some r -> r | None -> z_of_int 10) in
           (match radix_string_spec b r with Some x -> show_res x | None -> "-") ^ "\t" ^
           (if Z.ltb r (z_of_int 2) || Z.ltb (z_of_int 36) r || Z.eqb r (z_of_int 10) then "-"
            else match radix_int_model b r with Some s -> show_units s | None -> "-")
       | _ -> "?args")
  | "fixed" ->
      (match words rest with
       | [b; d] -> let b = z_of_hex b and d = (match opt_arg d with Some d -> d | None -> Z0) in
                   show_res (to_fixed_spec b d) ^ "\t" ^ (if old_models || !spec_only then "-" else show_res (to_fixed_fixed_model b d))
       | _ -> "?args")
  | "exp" ->
      (match words rest with
       | [b; d] -> let b = z_of_hex b and d = opt_arg d in
                   show_res (to_exponential_spec b d) ^ "\t" ^ (if !spec_only then "-" else show_res ((if old_models then to_exponential_model else to_exponential_fixed_model) b d))
       | _ -> "?args")
  | "prec" ->
      (match words rest with
       | [b; d] -> let b = z_of_hex b and d = opt_arg d in
                   show_res (to_precision_spec b d) ^ "\t" ^ (if !spec_only then "-" else show_res ((if old_models then to_precision_model else to_precision_fixed_model) b d))
       | _ -> "?args")
  | "num" -> let u = units_of_wire rest in
             show_num (string_to_number_spec u) ^ "\t" ^ show_num ((if old_models then string_to_number_model else string_to_number_fixed_model) u)
  | "pf" -> show_num (parse_float_spec (units_of_wire rest)) ^ "\t-"
  | "pi" -> let s, r = split_last rest in
            let u = units_of_wire s and r = to_int32 r in
            show_num (parse_int_spec u r) ^ "\t" ^ show_num ((if old_models then parse_int_model else parse_int_fixed_model) u r)
  | "lit" ->
      let u = units_of_wire rest in
      let sloppy = show_lit (numeric_literal_spec u false) and strict = show_lit (numeric_literal_spec u true) in
      String.concat " | " [sloppy; strict; sloppy; sloppy; show_lit (json_number_spec u)] ^ "\t-"
  | _ -> "?op"

let () =
  try
    while true do
      let line = input_line stdin in
      let line = if String.length line > 0 && line.[String.length line - 1] = '\r' then String.sub line 0 (String.length line - 1) else line in
      if line <> "" then begin
        (try print_string (answer line) with e -> print_string ("?exn " ^ Printexc.to_string e));
        print_newline ()
      end
    done
  with End_of_file -> ()
