
val negb : bool -> bool

type nat =
| O
| S of nat

val option_map : ('a1 -> 'a2) -> 'a1 option -> 'a2 option

val length : 'a1 list -> nat

val app : 'a1 list -> 'a1 list -> 'a1 list

type comparison =
| Eq
| Lt
| Gt

val compOpp : comparison -> comparison

val add : nat -> nat -> nat

type positive =
| XI of positive
| XO of positive
| XH

type n =
| N0
| Npos of positive

type z =
| Z0
| Zpos of positive
| Zneg of positive

module Pos :
 sig
  val succ : positive -> positive

  val add : positive -> positive -> positive

  val add_carry : positive -> positive -> positive

  val pred_double : positive -> positive

  val mul : positive -> positive -> positive

  val iter : ('a1 -> 'a1) -> 'a1 -> positive -> 'a1

  val size : positive -> positive

  val compare_cont : comparison -> positive -> positive -> comparison

  val compare : positive -> positive -> comparison

  val eqb : positive -> positive -> bool

  val iter_op : ('a1 -> 'a1 -> 'a1) -> positive -> 'a1 -> 'a1

  val to_nat : positive -> nat

  val of_succ_nat : nat -> positive
 end

module N :
 sig
  val add : n -> n -> n

  val mul : n -> n -> n
 end

module Z :
 sig
  val double : z -> z

  val succ_double : z -> z

  val pred_double : z -> z

  val pos_sub : positive -> positive -> z

  val add : z -> z -> z

  val opp : z -> z

  val sub : z -> z -> z

  val mul : z -> z -> z

  val pow_pos : z -> positive -> z

  val pow : z -> z -> z

  val compare : z -> z -> comparison

  val leb : z -> z -> bool

  val ltb : z -> z -> bool

  val eqb : z -> z -> bool

  val max : z -> z -> z

  val abs : z -> z

  val to_nat : z -> nat

  val of_nat : nat -> z

  val of_N : n -> z

  val pos_div_eucl : positive -> z -> z * z

  val div_eucl : z -> z -> z * z

  val div : z -> z -> z

  val modulo : z -> z -> z

  val even : z -> bool

  val log2 : z -> z
 end

val nth : nat -> 'a1 list -> 'a1 -> 'a1

val rev : 'a1 list -> 'a1 list

val map : ('a1 -> 'a2) -> 'a1 list -> 'a2 list

val fold_left : ('a1 -> 'a2 -> 'a1) -> 'a2 list -> 'a1 -> 'a1

val existsb : ('a1 -> bool) -> 'a1 list -> bool

val forallb : ('a1 -> bool) -> 'a1 list -> bool

val filter : ('a1 -> bool) -> 'a1 list -> 'a1 list

val firstn : nat -> 'a1 list -> 'a1 list

val skipn : nat -> 'a1 list -> 'a1 list

val repeat : 'a1 -> nat -> 'a1 list

type ascii =
| Ascii of bool * bool * bool * bool * bool * bool * bool * bool

val n_of_digits : bool list -> n

val n_of_ascii : ascii -> n

type string =
| EmptyString
| String of ascii * string

type ustr = z list

val lit : string -> ustr

val ustr_eqb : ustr -> ustr -> bool

val strip_prefix : ustr -> ustr -> ustr option

val zrepeat : z -> z -> ustr

val p52 : z

val p63 : z

val iNF : z

val nAN : z

val mag : z -> z

val is_neg : z -> bool

val with_sign : bool -> z -> z

val bexp : z -> z

val bman : z -> z

val sig0 : z -> z

val sh : z -> z

val ratio : z -> z * z

val log2floor : z -> z -> z

val round_nneg : z -> z -> z

val round_signed : bool -> z -> z -> z

val scale10 : z -> z -> z -> z * z

val nd_fuel : nat -> z -> z

val nd : z -> z

val dec_exp : z -> z -> z

val digs_fuel : nat -> z -> z -> z list -> z list

val digs : z -> z -> z list

val digit_char : z -> z

val dstr : z -> z -> ustr

val dec_str : z -> ustr

val gap_num : z -> z

val at_binade : z -> bool

val in_iv : bool -> z -> z -> z -> z -> bool

val shortest_search :
  nat -> bool -> z -> z -> z -> z -> z -> z -> z -> z -> ((z * z) * z) option

val shortest : z -> ((z * z) * z) option

val exp_suffix : z -> ustr

val take : z -> ustr -> ustr

val drop : z -> ustr -> ustr

val format_shortest : z -> z -> z -> ustr

val to_string_spec : z -> ustr

val is_ws : z -> bool

val trim_start : ustr -> ustr

val trim_end : ustr -> ustr

val trim : ustr -> ustr

val is_digit : z -> bool

val span_digits : ustr -> z list * ustr

val num_of : z -> z list -> z

val scan_exp : ustr -> z * ustr

val scan_decimal : ustr -> ((z * z) * ustr) option

val dec_value : bool -> z -> z -> z

val radix_digit : z -> z

val all_radix_digits : z -> ustr -> z list option

val nondecimal_prefix : ustr -> (z * ustr) option

val split_sign : ustr -> bool * ustr

val string_to_number_spec : ustr -> z

val parse_float_spec : ustr -> z

val span_radix : z -> ustr -> z list

val parse_int_spec : ustr -> z -> z

type res =
| Str of ustr
| RangeError

val round_half_up : z -> z -> z -> z

val to_fixed_spec : z -> z -> res

val exp_digits : z -> z -> z -> z * z

val mantissa_point : ustr -> ustr

val exp_part : z -> ustr

val to_exponential_spec : z -> z option -> res

val to_precision_spec : z -> z option -> res

val int_value : z -> z option

val radix_string_spec : z -> z -> res option

type lit_res =
| LNum of z
| LSyntaxError

val strip_sep_aux : bool -> ustr -> ustr option

val strip_sep : ustr -> ustr option

val has_sep : ustr -> bool

val all_digits : ustr -> bool

val all_octal : ustr -> bool

val break_at : (z -> bool) -> ustr -> ustr * ustr

val sep_run_ok : bool -> ustr -> bool

val decimal_literal : ustr -> lit_res

val numeric_literal_spec : ustr -> bool -> lit_res

val json_number_spec : ustr -> lit_res

val f_of_int : z -> z

val f_mul_small : z -> z -> z

val f_add_small : z -> z -> z

val f_mul_add_small : z -> z -> z -> z

val f_div_small : z -> z -> z

val from_js_str_radix_model : z -> z list -> z

val parse_int_model : ustr -> z -> z

val u32_from_str_radix : z -> ustr -> z option

val mul_add_loop : z -> ustr -> z -> z

val nondecimal_model : z -> ustr -> z

val lower : z -> z

val ci_eqb : ustr -> ustr -> bool

val fast_float_parse_model : ustr -> z

val string_to_number_model : ustr -> z

val exp_positive : z -> bool

val radix_zeros : nat -> z -> z -> z -> z * z

val radix_digits : nat -> z -> z -> ustr -> ustr

val radix_int_model : z -> z -> ustr option

val round_half_even : z -> z -> z -> z

val exp_digits_even : z -> z -> z -> z * z

val to_exponential_model : z -> z option -> res

val fixed100 : z -> z -> ustr

val flt_str_to_exp_loop : ustr -> z -> bool -> bool -> z -> z

val flt_str_to_exp : ustr -> z

val carry_loop : ustr -> bool -> ustr * bool

val round_to_precision : ustr -> z -> ustr * bool

val find_dot : ustr -> nat option

val remove_at : nat -> ustr -> ustr

val insert_at : z -> z -> ustr -> ustr

val int_str : z -> ustr

val to_precision_model : z -> z option -> res
