
(** val negb : bool -> bool **)

let negb = function
| true -> false
| false -> true

type nat =
| O
| S of nat

(** val option_map : ('a1 -> 'a2) -> 'a1 option -> 'a2 option **)

let option_map f = function
| Some a -> Some (f a)
| None -> None

(** val length : 'a1 list -> nat **)

let rec length = function
| [] -> O
| _ :: l' -> S (length l')

(** val app : 'a1 list -> 'a1 list -> 'a1 list **)

let rec app l m =
  match l with
  | [] -> m
  | a :: l1 -> a :: (app l1 m)

type comparison =
| Eq
| Lt
| Gt

(** val compOpp : comparison -> comparison **)

let compOpp = function
| Eq -> Eq
| Lt -> Gt
| Gt -> Lt

module Coq__1 = struct
 (** val add : nat -> nat -> nat **)
 let rec add n0 m =
   match n0 with
   | O -> m
   | S p -> S (add p m)
end
include Coq__1

type positive =
| XI of positive
| XO of positive
| XH

type n =
| N0
| Npos of positive

type z =
| Z0
| Zpos of positive
| Zneg of positive

module Pos =
 struct
  (** val succ : positive -> positive **)

  let rec succ = function
  | XI p -> XO (succ p)
  | XO p -> XI p
  | XH -> XO XH

  (** val add : positive -> positive -> positive **)

  let rec add x y =
    match x with
    | XI p ->
      (match y with
       | XI q -> XO (add_carry p q)
       | XO q -> XI (add p q)
       | XH -> XO (succ p))
    | XO p ->
      (match y with
       | XI q -> XI (add p q)
       | XO q -> XO (add p q)
       | XH -> XI p)
    | XH -> (match y with
             | XI q -> XO (succ q)
             | XO q -> XI q
             | XH -> XO XH)

  (** val add_carry : positive -> positive -> positive **)

  and add_carry x y =
    match x with
    | XI p ->
      (match y with
       | XI q -> XI (add_carry p q)
       | XO q -> XO (add_carry p q)
       | XH -> XI (succ p))
    | XO p ->
      (match y with
       | XI q -> XO (add_carry p q)
       | XO q -> XI (add p q)
       | XH -> XO (succ p))
    | XH ->
      (match y with
       | XI q -> XI (succ q)
       | XO q -> XO (succ q)
       | XH -> XI XH)

  (** val pred_double : positive -> positive **)

  let rec pred_double = function
  | XI p -> XI (XO p)
  | XO p -> XI (pred_double p)
  | XH -> XH

  (** val mul : positive -> positive -> positive **)

  let rec mul x y =
    match x with
    | XI p -> add y (XO (mul p y))
    | XO p -> XO (mul p y)
    | XH -> y

  (** val iter : ('a1 -> 'a1) -> 'a1 -> positive -> 'a1 **)

  let rec iter f x = function
  | XI n' -> f (iter f (iter f x n') n')
  | XO n' -> iter f (iter f x n') n'
  | XH -> f x

  (** val size : positive -> positive **)

  let rec size = function
  | XI p0 -> succ (size p0)
  | XO p0 -> succ (size p0)
  | XH -> XH

  (** val compare_cont : comparison -> positive -> positive -> comparison **)

  let rec compare_cont r x y =
    match x with
    | XI p ->
      (match y with
       | XI q -> compare_cont r p q
       | XO q -> compare_cont Gt p q
       | XH -> Gt)
    | XO p ->
      (match y with
       | XI q -> compare_cont Lt p q
       | XO q -> compare_cont r p q
       | XH -> Gt)
    | XH -> (match y with
             | XH -> r
             | _ -> Lt)

  (** val compare : positive -> positive -> comparison **)

  let compare =
    compare_cont Eq

  (** val eqb : positive -> positive -> bool **)

  let rec eqb p q =
    match p with
    | XI p0 -> (match q with
                | XI q0 -> eqb p0 q0
                | _ -> false)
    | XO p0 -> (match q with
                | XO q0 -> eqb p0 q0
                | _ -> false)
    | XH -> (match q with
             | XH -> true
             | _ -> false)

  (** val iter_op : ('a1 -> 'a1 -> 'a1) -> positive -> 'a1 -> 'a1 **)

  let rec iter_op op p a =
    match p with
    | XI p0 -> op a (iter_op op p0 (op a a))
    | XO p0 -> iter_op op p0 (op a a)
    | XH -> a

  (** val to_nat : positive -> nat **)

  let to_nat x =
    iter_op Coq__1.add x (S O)

  (** val of_succ_nat : nat -> positive **)

  let rec of_succ_nat = function
  | O -> XH
  | S x -> succ (of_succ_nat x)
 end

module N =
 struct
  (** val add : n -> n -> n **)

  let add n0 m =
    match n0 with
    | N0 -> m
    | Npos p -> (match m with
                 | N0 -> n0
                 | Npos q -> Npos (Pos.add p q))

  (** val mul : n -> n -> n **)

  let mul n0 m =
    match n0 with
    | N0 -> N0
    | Npos p -> (match m with
                 | N0 -> N0
                 | Npos q -> Npos (Pos.mul p q))
 end

module Z =
 struct
  (** val double : z -> z **)

  let double = function
  | Z0 -> Z0
  | Zpos p -> Zpos (XO p)
  | Zneg p -> Zneg (XO p)

  (** val succ_double : z -> z **)

  let succ_double = function
  | Z0 -> Zpos XH
  | Zpos p -> Zpos (XI p)
  | Zneg p -> Zneg (Pos.pred_double p)

  (** val pred_double : z -> z **)

  let pred_double = function
  | Z0 -> Zneg XH
  | Zpos p -> Zpos (Pos.pred_double p)
  | Zneg p -> Zneg (XI p)

  (** val pos_sub : positive -> positive -> z **)

  let rec pos_sub x y =
    match x with
    | XI p ->
      (match y with
       | XI q -> double (pos_sub p q)
       | XO q -> succ_double (pos_sub p q)
       | XH -> Zpos (XO p))
    | XO p ->
      (match y with
       | XI q -> pred_double (pos_sub p q)
       | XO q -> double (pos_sub p q)
       | XH -> Zpos (Pos.pred_double p))
    | XH ->
      (match y with
       | XI q -> Zneg (XO q)
       | XO q -> Zneg (Pos.pred_double q)
       | XH -> Z0)

  (** val add : z -> z -> z **)

  let add x y =
    match x with
    | Z0 -> y
    | Zpos x' ->
      (match y with
       | Z0 -> x
       | Zpos y' -> Zpos (Pos.add x' y')
       | Zneg y' -> pos_sub x' y')
    | Zneg x' ->
      (match y with
       | Z0 -> x
       | Zpos y' -> pos_sub y' x'
       | Zneg y' -> Zneg (Pos.add x' y'))

  (** val opp : z -> z **)

  let opp = function
  | Z0 -> Z0
  | Zpos x0 -> Zneg x0
  | Zneg x0 -> Zpos x0

  (** val sub : z -> z -> z **)

  let sub m n0 =
    add m (opp n0)

  (** val mul : z -> z -> z **)

  let mul x y =
    match x with
    | Z0 -> Z0
    | Zpos x' ->
      (match y with
       | Z0 -> Z0
       | Zpos y' -> Zpos (Pos.mul x' y')
       | Zneg y' -> Zneg (Pos.mul x' y'))
    | Zneg x' ->
      (match y with
       | Z0 -> Z0
       | Zpos y' -> Zneg (Pos.mul x' y')
       | Zneg y' -> Zpos (Pos.mul x' y'))

  (** val pow_pos : z -> positive -> z **)

  let pow_pos z0 =
    Pos.iter (mul z0) (Zpos XH)

  (** val pow : z -> z -> z **)

  let pow x = function
  | Z0 -> Zpos XH
  | Zpos p -> pow_pos x p
  | Zneg _ -> Z0

  (** val compare : z -> z -> comparison **)

  let compare x y =
    match x with
    | Z0 -> (match y with
             | Z0 -> Eq
             | Zpos _ -> Lt
             | Zneg _ -> Gt)
    | Zpos x' -> (match y with
                  | Zpos y' -> Pos.compare x' y'
                  | _ -> Gt)
    | Zneg x' ->
      (match y with
       | Zneg y' -> compOpp (Pos.compare x' y')
       | _ -> Lt)

  (** val leb : z -> z -> bool **)

  let leb x y =
    match compare x y with
    | Gt -> false
    | _ -> true

  (** val ltb : z -> z -> bool **)

  let ltb x y =
    match compare x y with
    | Lt -> true
    | _ -> false

  (** val eqb : z -> z -> bool **)

  let eqb x y =
    match x with
    | Z0 -> (match y with
             | Z0 -> true
             | _ -> false)
    | Zpos p -> (match y with
                 | Zpos q -> Pos.eqb p q
                 | _ -> false)
    | Zneg p -> (match y with
                 | Zneg q -> Pos.eqb p q
                 | _ -> false)

  (** val max : z -> z -> z **)

  let max n0 m =
    match compare n0 m with
    | Lt -> m
    | _ -> n0

  (** val abs : z -> z **)

  let abs = function
  | Zneg p -> Zpos p
  | x -> x

  (** val to_nat : z -> nat **)

  let to_nat = function
  | Zpos p -> Pos.to_nat p
  | _ -> O

  (** val of_nat : nat -> z **)

  let of_nat = function
  | O -> Z0
  | S n1 -> Zpos (Pos.of_succ_nat n1)

  (** val of_N : n -> z **)

  let of_N = function
  | N0 -> Z0
  | Npos p -> Zpos p

  (** val pos_div_eucl : positive -> z -> z * z **)

  let rec pos_div_eucl a b =
    match a with
    | XI a' ->
      let (q, r) = pos_div_eucl a' b in
      let r' = add (mul (Zpos (XO XH)) r) (Zpos XH) in
      if ltb r' b
      then ((mul (Zpos (XO XH)) q), r')
      else ((add (mul (Zpos (XO XH)) q) (Zpos XH)), (sub r' b))
    | XO a' ->
      let (q, r) = pos_div_eucl a' b in
      let r' = mul (Zpos (XO XH)) r in
      if ltb r' b
      then ((mul (Zpos (XO XH)) q), r')
      else ((add (mul (Zpos (XO XH)) q) (Zpos XH)), (sub r' b))
    | XH -> if leb (Zpos (XO XH)) b then (Z0, (Zpos XH)) else ((Zpos XH), Z0)

  (** val div_eucl : z -> z -> z * z **)

  let div_eucl a b =
    match a with
    | Z0 -> (Z0, Z0)
    | Zpos a' ->
      (match b with
       | Z0 -> (Z0, a)
       | Zpos _ -> pos_div_eucl a' b
       | Zneg b' ->
         let (q, r) = pos_div_eucl a' (Zpos b') in
         (match r with
          | Z0 -> ((opp q), Z0)
          | _ -> ((opp (add q (Zpos XH))), (add b r))))
    | Zneg a' ->
      (match b with
       | Z0 -> (Z0, a)
       | Zpos _ ->
         let (q, r) = pos_div_eucl a' b in
         (match r with
          | Z0 -> ((opp q), Z0)
          | _ -> ((opp (add q (Zpos XH))), (sub b r)))
       | Zneg b' -> let (q, r) = pos_div_eucl a' (Zpos b') in (q, (opp r)))

  (** val div : z -> z -> z **)

  let div a b =
    let (q, _) = div_eucl a b in q

  (** val modulo : z -> z -> z **)

  let modulo a b =
    let (_, r) = div_eucl a b in r

  (** val even : z -> bool **)

  let even = function
  | Z0 -> true
  | Zpos p -> (match p with
               | XO _ -> true
               | _ -> false)
  | Zneg p -> (match p with
               | XO _ -> true
               | _ -> false)

  (** val log2 : z -> z **)

  let log2 = function
  | Zpos p0 ->
    (match p0 with
     | XI p -> Zpos (Pos.size p)
     | XO p -> Zpos (Pos.size p)
     | XH -> Z0)
  | _ -> Z0
 end

(** val nth : nat -> 'a1 list -> 'a1 -> 'a1 **)

let rec nth n0 l default =
  match n0 with
  | O -> (match l with
          | [] -> default
          | x :: _ -> x)
  | S m -> (match l with
            | [] -> default
            | _ :: t -> nth m t default)

(** val rev : 'a1 list -> 'a1 list **)

let rec rev = function
| [] -> []
| x :: l' -> app (rev l') (x :: [])

(** val map : ('a1 -> 'a2) -> 'a1 list -> 'a2 list **)

let rec map f = function
| [] -> []
| a :: t -> (f a) :: (map f t)

(** val fold_left : ('a1 -> 'a2 -> 'a1) -> 'a2 list -> 'a1 -> 'a1 **)

let rec fold_left f l a0 =
  match l with
  | [] -> a0
  | b :: t -> fold_left f t (f a0 b)

(** val existsb : ('a1 -> bool) -> 'a1 list -> bool **)

let rec existsb f = function
| [] -> false
| a :: l0 -> (||) (f a) (existsb f l0)

(** val forallb : ('a1 -> bool) -> 'a1 list -> bool **)

let rec forallb f = function
| [] -> true
| a :: l0 -> (&&) (f a) (forallb f l0)

(** val filter : ('a1 -> bool) -> 'a1 list -> 'a1 list **)

let rec filter f = function
| [] -> []
| x :: l0 -> if f x then x :: (filter f l0) else filter f l0

(** val firstn : nat -> 'a1 list -> 'a1 list **)

let rec firstn n0 l =
  match n0 with
  | O -> []
  | S n1 -> (match l with
             | [] -> []
             | a :: l0 -> a :: (firstn n1 l0))

(** val skipn : nat -> 'a1 list -> 'a1 list **)

let rec skipn n0 l =
  match n0 with
  | O -> l
  | S n1 -> (match l with
             | [] -> []
             | _ :: l0 -> skipn n1 l0)

(** val repeat : 'a1 -> nat -> 'a1 list **)

let rec repeat x = function
| O -> []
| S k -> x :: (repeat x k)

type ascii =
| Ascii of bool * bool * bool * bool * bool * bool * bool * bool

(** val n_of_digits : bool list -> n **)

let rec n_of_digits = function
| [] -> N0
| b :: l' ->
  N.add (if b then Npos XH else N0) (N.mul (Npos (XO XH)) (n_of_digits l'))

(** val n_of_ascii : ascii -> n **)

let n_of_ascii = function
| Ascii (a0, a1, a2, a3, a4, a5, a6, a7) ->
  n_of_digits
    (a0 :: (a1 :: (a2 :: (a3 :: (a4 :: (a5 :: (a6 :: (a7 :: []))))))))

type string =
| EmptyString
| String of ascii * string

type ustr = z list

(** val lit : string -> ustr **)

let rec lit = function
| EmptyString -> []
| String (c, r) -> (Z.of_N (n_of_ascii c)) :: (lit r)

(** val ustr_eqb : ustr -> ustr -> bool **)

let rec ustr_eqb a b =
  match a with
  | [] -> (match b with
           | [] -> true
           | _ :: _ -> false)
  | x :: a' ->
    (match b with
     | [] -> false
     | y :: b' -> (&&) (Z.eqb x y) (ustr_eqb a' b'))

(** val strip_prefix : ustr -> ustr -> ustr option **)

let rec strip_prefix p s =
  match p with
  | [] -> Some s
  | x :: p' ->
    (match s with
     | [] -> None
     | y :: s' -> if Z.eqb x y then strip_prefix p' s' else None)

(** val zrepeat : z -> z -> ustr **)

let zrepeat c n0 =
  repeat c (Z.to_nat n0)

(** val p52 : z **)

let p52 =
  Zpos (XO (XO (XO (XO (XO (XO (XO (XO (XO (XO (XO (XO (XO (XO (XO (XO (XO
    (XO (XO (XO (XO (XO (XO (XO (XO (XO (XO (XO (XO (XO (XO (XO (XO (XO (XO
    (XO (XO (XO (XO (XO (XO (XO (XO (XO (XO (XO (XO (XO (XO (XO (XO (XO
    XH))))))))))))))))))))))))))))))))))))))))))))))))))))

(** val p63 : z **)

let p63 =
  Zpos (XO (XO (XO (XO (XO (XO (XO (XO (XO (XO (XO (XO (XO (XO (XO (XO (XO
    (XO (XO (XO (XO (XO (XO (XO (XO (XO (XO (XO (XO (XO (XO (XO (XO (XO (XO
    (XO (XO (XO (XO (XO (XO (XO (XO (XO (XO (XO (XO (XO (XO (XO (XO (XO (XO
    (XO (XO (XO (XO (XO (XO (XO (XO (XO (XO
    XH)))))))))))))))))))))))))))))))))))))))))))))))))))))))))))))))

(** val iNF : z **)

let iNF =
  Zpos (XO (XO (XO (XO (XO (XO (XO (XO (XO (XO (XO (XO (XO (XO (XO (XO (XO
    (XO (XO (XO (XO (XO (XO (XO (XO (XO (XO (XO (XO (XO (XO (XO (XO (XO (XO
    (XO (XO (XO (XO (XO (XO (XO (XO (XO (XO (XO (XO (XO (XO (XO (XO (XO (XI
    (XI (XI (XI (XI (XI (XI (XI (XI (XI
    XH))))))))))))))))))))))))))))))))))))))))))))))))))))))))))))))

(** val nAN : z **)

let nAN =
  Zpos (XO (XO (XO (XO (XO (XO (XO (XO (XO (XO (XO (XO (XO (XO (XO (XO (XO
    (XO (XO (XO (XO (XO (XO (XO (XO (XO (XO (XO (XO (XO (XO (XO (XO (XO (XO
    (XO (XO (XO (XO (XO (XO (XO (XO (XO (XO (XO (XO (XO (XO (XO (XO (XI (XI
    (XI (XI (XI (XI (XI (XI (XI (XI (XI
    XH))))))))))))))))))))))))))))))))))))))))))))))))))))))))))))))

(** val mag : z -> z **)

let mag b =
  Z.modulo b p63

(** val is_neg : z -> bool **)

let is_neg b =
  Z.leb p63 b

(** val with_sign : bool -> z -> z **)

let with_sign neg u =
  if neg then Z.add p63 u else u

(** val bexp : z -> z **)

let bexp u =
  Z.div u p52

(** val bman : z -> z **)

let bman u =
  Z.modulo u p52

(** val sig0 : z -> z **)

let sig0 u =
  if Z.eqb (bexp u) Z0 then bman u else Z.add p52 (bman u)

(** val sh : z -> z **)

let sh u =
  if Z.eqb (bexp u) Z0 then Z0 else Z.sub (bexp u) (Zpos XH)

(** val ratio : z -> z * z **)

let ratio u =
  let s = sh u in
  if Z.leb (Zpos (XO (XI (XO (XO (XI (XI (XO (XO (XO (XO XH))))))))))) s
  then ((Z.mul (sig0 u)
          (Z.pow (Zpos (XO XH))
            (Z.sub s (Zpos (XO (XI (XO (XO (XI (XI (XO (XO (XO (XO
              XH)))))))))))))), (Zpos XH))
  else ((sig0 u),
         (Z.pow (Zpos (XO XH))
           (Z.sub (Zpos (XO (XI (XO (XO (XI (XI (XO (XO (XO (XO XH)))))))))))
             s)))

(** val log2floor : z -> z -> z **)

let log2floor a b =
  let l = Z.sub (Z.log2 a) (Z.log2 b) in
  if if Z.leb Z0 l
     then Z.ltb a (Z.mul b (Z.pow (Zpos (XO XH)) l))
     else Z.ltb (Z.mul a (Z.pow (Zpos (XO XH)) (Z.opp l))) b
  then Z.sub l (Zpos XH)
  else l

(** val round_nneg : z -> z -> z **)

let round_nneg a b =
  if Z.leb a Z0
  then Z0
  else let e =
         Z.max (Z.sub (log2floor a b) (Zpos (XO (XO (XI (XO (XI XH)))))))
           (Zneg (XO (XI (XO (XO (XI (XI (XO (XO (XO (XO XH)))))))))))
       in
       let n0 = Z.mul a (Z.pow (Zpos (XO XH)) (Z.max Z0 (Z.opp e))) in
       let d = Z.mul b (Z.pow (Zpos (XO XH)) (Z.max Z0 e)) in
       let m = Z.div n0 d in
       let r = Z.modulo n0 d in
       let m' =
         if Z.ltb (Z.mul (Zpos (XO XH)) r) d
         then m
         else if Z.ltb d (Z.mul (Zpos (XO XH)) r)
              then Z.add m (Zpos XH)
              else if Z.even m then m else Z.add m (Zpos XH)
       in
       let u =
         Z.add
           (Z.mul
             (Z.add e (Zpos (XO (XI (XO (XO (XI (XI (XO (XO (XO (XO
               XH)))))))))))) p52) m'
       in
       if Z.leb iNF u then iNF else u

(** val round_signed : bool -> z -> z -> z **)

let round_signed neg a b =
  with_sign neg (round_nneg a b)

(** val scale10 : z -> z -> z -> z * z **)

let scale10 a b p =
  if Z.leb Z0 p
  then ((Z.mul a (Z.pow (Zpos (XO (XI (XO XH)))) p)), b)
  else (a, (Z.mul b (Z.pow (Zpos (XO (XI (XO XH)))) (Z.opp p))))

(** val nd_fuel : nat -> z -> z **)

let rec nd_fuel f n0 =
  match f with
  | O -> Zpos XH
  | S f' ->
    if Z.ltb n0 (Zpos (XO (XI (XO XH))))
    then Zpos XH
    else Z.add (Zpos XH) (nd_fuel f' (Z.div n0 (Zpos (XO (XI (XO XH))))))

(** val nd : z -> z **)

let nd n0 =
  nd_fuel (Z.to_nat (Z.log2 n0)) n0

(** val dec_exp : z -> z -> z **)

let dec_exp a b =
  if Z.leb b a
  then nd (Z.div a b)
  else let t = nd (Z.div b a) in
       Z.sub (nd (Z.div (Z.mul a (Z.pow (Zpos (XO (XI (XO XH)))) t)) b)) t

(** val digs_fuel : nat -> z -> z -> z list -> z list **)

let rec digs_fuel f r n0 acc =
  match f with
  | O -> n0 :: acc
  | S f' ->
    if Z.ltb n0 r
    then n0 :: acc
    else digs_fuel f' r (Z.div n0 r) ((Z.modulo n0 r) :: acc)

(** val digs : z -> z -> z list **)

let digs r n0 =
  digs_fuel (Z.to_nat (Z.log2 n0)) r n0 []

(** val digit_char : z -> z **)

let digit_char d =
  if Z.ltb d (Zpos (XO (XI (XO XH))))
  then Z.add (Zpos (XO (XO (XO (XO (XI XH)))))) d
  else Z.add (Zpos (XI (XI (XI (XO (XI (XO XH))))))) d

(** val dstr : z -> z -> ustr **)

let dstr r n0 =
  map digit_char (digs r n0)

(** val dec_str : z -> ustr **)

let dec_str n0 =
  dstr (Zpos (XO (XI (XO XH)))) n0

(** val gap_num : z -> z **)

let gap_num u =
  let s = sh u in
  if Z.leb (Zpos (XO (XI (XO (XO (XI (XI (XO (XO (XO (XO XH))))))))))) s
  then Z.pow (Zpos (XO XH))
         (Z.sub s (Zpos (XO (XI (XO (XO (XI (XI (XO (XO (XO (XO XH))))))))))))
  else Zpos XH

(** val at_binade : z -> bool **)

let at_binade u =
  (&&) (Z.eqb (bman u) Z0) (Z.leb (Zpos (XO XH)) (bexp u))

(** val in_iv : bool -> z -> z -> z -> z -> bool **)

let in_iv closed lo4 hi4 qb4 v =
  let c = Z.mul v qb4 in
  if closed
  then (&&) (Z.leb lo4 c) (Z.leb c hi4)
  else (&&) (Z.ltb lo4 c) (Z.ltb c hi4)

(** val shortest_search :
    nat -> bool -> z -> z -> z -> z -> z -> z -> z -> z -> ((z * z) * z)
    option **)

let rec shortest_search fuel closed lo4 hi4 qb4 qb w r n0 k =
  match fuel with
  | O -> None
  | S f ->
    let t =
      Z.pow (Zpos (XO (XI (XO XH)))) (Z.sub (Zpos (XI (XO (XO (XO XH))))) k)
    in
    let lo = Z.div w t in
    let r0 = Z.add (Z.mul (Z.modulo w t) qb) r in
    let den = Z.mul qb t in
    let oklo = in_iv closed lo4 hi4 qb4 (Z.mul lo t) in
    let okhi =
      (&&) (negb (Z.eqb r0 Z0))
        (in_iv closed lo4 hi4 qb4 (Z.mul (Z.add lo (Zpos XH)) t))
    in
    if (||) oklo okhi
    then let s =
           if (&&) oklo okhi
           then if Z.ltb (Z.mul (Zpos (XO XH)) r0) den
                then lo
                else if Z.ltb den (Z.mul (Zpos (XO XH)) r0)
                     then Z.add lo (Zpos XH)
                     else if Z.even lo then lo else Z.add lo (Zpos XH)
           else if oklo then lo else Z.add lo (Zpos XH)
         in
         Some
         (if Z.eqb s (Z.pow (Zpos (XO (XI (XO XH)))) k)
          then (((Z.pow (Zpos (XO (XI (XO XH)))) (Z.sub k (Zpos XH))), k),
                 (Z.add n0 (Zpos XH)))
          else ((s, k), n0))
    else shortest_search f closed lo4 hi4 qb4 qb w r n0 (Z.add k (Zpos XH))

(** val shortest : z -> ((z * z) * z) option **)

let shortest u =
  let (a, b) = ratio u in
  let n0 = dec_exp a b in
  let p = Z.sub (Zpos (XI (XO (XO (XO XH))))) n0 in
  let p0 = Z.pow (Zpos (XO (XI (XO XH)))) (Z.abs p) in
  let g = gap_num u in
  let gl = if at_binade u then g else Z.mul (Zpos (XO XH)) g in
  let lo4 =
    if Z.leb Z0 p
    then Z.mul (Z.sub (Z.mul (Zpos (XO (XO XH))) a) gl) p0
    else Z.sub (Z.mul (Zpos (XO (XO XH))) a) gl
  in
  let hi4 =
    if Z.leb Z0 p
    then Z.mul (Z.add (Z.mul (Zpos (XO (XO XH))) a) (Z.mul (Zpos (XO XH)) g))
           p0
    else Z.add (Z.mul (Zpos (XO (XO XH))) a) (Z.mul (Zpos (XO XH)) g)
  in
  let qa = if Z.leb Z0 p then Z.mul a p0 else a in
  let qb = if Z.leb Z0 p then b else Z.mul b p0 in
  shortest_search (S (S (S (S (S (S (S (S (S (S (S (S (S (S (S (S (S
    O))))))))))))))))) (Z.even u) lo4 hi4 (Z.mul (Zpos (XO (XO XH))) qb) qb
    (Z.div qa qb) (Z.modulo qa qb) n0 (Zpos XH)

(** val exp_suffix : z -> ustr **)

let exp_suffix e =
  app ((Zpos (XI (XO (XI (XO (XO (XI XH))))))) :: [])
    (app
      (if Z.leb Z0 e
       then (Zpos (XI (XI (XO (XI (XO XH)))))) :: []
       else (Zpos (XI (XO (XI (XI (XO XH)))))) :: []) (dec_str (Z.abs e)))

(** val take : z -> ustr -> ustr **)

let take n0 s =
  firstn (Z.to_nat n0) s

(** val drop : z -> ustr -> ustr **)

let drop n0 s =
  skipn (Z.to_nat n0) s

(** val format_shortest : z -> z -> z -> ustr **)

let format_shortest s k n0 =
  let ds = dec_str s in
  if (&&) (Z.leb k n0) (Z.leb n0 (Zpos (XI (XO (XI (XO XH))))))
  then app ds (zrepeat (Zpos (XO (XO (XO (XO (XI XH)))))) (Z.sub n0 k))
  else if (&&) (Z.ltb Z0 n0) (Z.leb n0 (Zpos (XI (XO (XI (XO XH))))))
       then app (take n0 ds)
              (app ((Zpos (XO (XI (XI (XI (XO XH)))))) :: []) (drop n0 ds))
       else if (&&) (Z.ltb (Zneg (XO (XI XH))) n0) (Z.leb n0 Z0)
            then app ((Zpos (XO (XO (XO (XO (XI XH)))))) :: ((Zpos (XO (XI
                   (XI (XI (XO XH)))))) :: []))
                   (app
                     (zrepeat (Zpos (XO (XO (XO (XO (XI XH)))))) (Z.opp n0))
                     ds)
            else if Z.eqb k (Zpos XH)
                 then app ds (exp_suffix (Z.sub n0 (Zpos XH)))
                 else app (take (Zpos XH) ds)
                        (app ((Zpos (XO (XI (XI (XI (XO XH)))))) :: [])
                          (app (drop (Zpos XH) ds)
                            (exp_suffix (Z.sub n0 (Zpos XH)))))

(** val to_string_spec : z -> ustr **)

let to_string_spec bits =
  let u = mag bits in
  if Z.ltb iNF u
  then lit (String ((Ascii (false, true, true, true, false, false, true,
         false)), (String ((Ascii (true, false, false, false, false, true,
         true, false)), (String ((Ascii (false, true, true, true, false,
         false, true, false)), EmptyString))))))
  else if Z.eqb u Z0
       then lit (String ((Ascii (false, false, false, false, true, true,
              false, false)), EmptyString))
       else if Z.eqb u iNF
            then if is_neg bits
                 then lit (String ((Ascii (true, false, true, true, false,
                        true, false, false)), (String ((Ascii (true, false,
                        false, true, false, false, true, false)), (String
                        ((Ascii (false, true, true, true, false, true, true,
                        false)), (String ((Ascii (false, true, true, false,
                        false, true, true, false)), (String ((Ascii (true,
                        false, false, true, false, true, true, false)),
                        (String ((Ascii (false, true, true, true, false,
                        true, true, false)), (String ((Ascii (true, false,
                        false, true, false, true, true, false)), (String
                        ((Ascii (false, false, true, false, true, true, true,
                        false)), (String ((Ascii (true, false, false, true,
                        true, true, true, false)),
                        EmptyString))))))))))))))))))
                 else lit (String ((Ascii (true, false, false, true, false,
                        false, true, false)), (String ((Ascii (false, true,
                        true, true, false, true, true, false)), (String
                        ((Ascii (false, true, true, false, false, true, true,
                        false)), (String ((Ascii (true, false, false, true,
                        false, true, true, false)), (String ((Ascii (false,
                        true, true, true, false, true, true, false)), (String
                        ((Ascii (true, false, false, true, false, true, true,
                        false)), (String ((Ascii (false, false, true, false,
                        true, true, true, false)), (String ((Ascii (true,
                        false, false, true, true, true, true, false)),
                        EmptyString))))))))))))))))
            else (match shortest u with
                  | Some p ->
                    let (p0, n0) = p in
                    let (s, k) = p0 in
                    app
                      (if is_neg bits
                       then (Zpos (XI (XO (XI (XI (XO XH)))))) :: []
                       else []) (format_shortest s k n0)
                  | None ->
                    lit (String ((Ascii (true, true, true, true, true, true,
                      false, false)), EmptyString)))

(** val is_ws : z -> bool **)

let is_ws c =
  (||)
    ((||)
      ((||)
        ((||)
          ((||)
            ((||)
              ((||)
                ((||)
                  ((||)
                    ((||)
                      ((||)
                        ((||)
                          ((||)
                            ((||) (Z.eqb c (Zpos (XI (XO (XO XH)))))
                              (Z.eqb c (Zpos (XO (XI (XO XH))))))
                            (Z.eqb c (Zpos (XI (XI (XO XH))))))
                          (Z.eqb c (Zpos (XO (XO (XI XH))))))
                        (Z.eqb c (Zpos (XI (XO (XI XH))))))
                      (Z.eqb c (Zpos (XO (XO (XO (XO (XO XH))))))))
                    (Z.eqb c (Zpos (XO (XO (XO (XO (XO (XI (XO XH))))))))))
                  (Z.eqb c (Zpos (XO (XO (XO (XO (XO (XO (XO (XI (XO (XI (XI
                    (XO XH)))))))))))))))
                ((&&)
                  (Z.leb (Zpos (XO (XO (XO (XO (XO (XO (XO (XO (XO (XO (XO
                    (XO (XO XH)))))))))))))) c)
                  (Z.leb c (Zpos (XO (XI (XO (XI (XO (XO (XO (XO (XO (XO (XO
                    (XO (XO XH)))))))))))))))))
              (Z.eqb c (Zpos (XO (XO (XO (XI (XO (XI (XO (XO (XO (XO (XO (XO
                (XO XH))))))))))))))))
            (Z.eqb c (Zpos (XI (XO (XO (XI (XO (XI (XO (XO (XO (XO (XO (XO
              (XO XH))))))))))))))))
          (Z.eqb c (Zpos (XI (XI (XI (XI (XO (XI (XO (XO (XO (XO (XO (XO (XO
            XH))))))))))))))))
        (Z.eqb c (Zpos (XI (XI (XI (XI (XI (XO (XI (XO (XO (XO (XO (XO (XO
          XH))))))))))))))))
      (Z.eqb c (Zpos (XO (XO (XO (XO (XO (XO (XO (XO (XO (XO (XO (XO (XI
        XH))))))))))))))))
    (Z.eqb c (Zpos (XI (XI (XI (XI (XI (XI (XI (XI (XO (XI (XI (XI (XI (XI
      (XI XH)))))))))))))))))

(** val trim_start : ustr -> ustr **)

let rec trim_start s = match s with
| [] -> []
| c :: r -> if is_ws c then trim_start r else s

(** val trim_end : ustr -> ustr **)

let trim_end s =
  rev (trim_start (rev s))

(** val trim : ustr -> ustr **)

let trim s =
  trim_end (trim_start s)

(** val is_digit : z -> bool **)

let is_digit c =
  (&&) (Z.leb (Zpos (XO (XO (XO (XO (XI XH)))))) c)
    (Z.leb c (Zpos (XI (XO (XO (XI (XI XH)))))))

(** val span_digits : ustr -> z list * ustr **)

let rec span_digits s = match s with
| [] -> ([], [])
| c :: r ->
  if is_digit c
  then let (ds, r') = span_digits r in
       (((Z.sub c (Zpos (XO (XO (XO (XO (XI XH))))))) :: ds), r')
  else ([], s)

(** val num_of : z -> z list -> z **)

let num_of r ds =
  fold_left (fun acc d -> Z.add (Z.mul acc r) d) ds Z0

(** val scan_exp : ustr -> z * ustr **)

let scan_exp s = match s with
| [] -> (Z0, s)
| c :: r ->
  if (||) (Z.eqb c (Zpos (XI (XO (XI (XO (XO (XI XH))))))))
       (Z.eqb c (Zpos (XI (XO (XI (XO (XO (XO XH))))))))
  then (match r with
        | [] ->
          let sg = Zpos XH in
          let (ds, r2) = span_digits r in
          (match ds with
           | [] -> (Z0, s)
           | _ :: _ -> ((Z.mul sg (num_of (Zpos (XO (XI (XO XH)))) ds)), r2))
        | c1 :: r' ->
          if Z.eqb c1 (Zpos (XI (XI (XO (XI (XO XH))))))
          then let sg = Zpos XH in
               let (ds, r2) = span_digits r' in
               (match ds with
                | [] -> (Z0, s)
                | _ :: _ ->
                  ((Z.mul sg (num_of (Zpos (XO (XI (XO XH)))) ds)), r2))
          else if Z.eqb c1 (Zpos (XI (XO (XI (XI (XO XH))))))
               then let sg = Zneg XH in
                    let (ds, r2) = span_digits r' in
                    (match ds with
                     | [] -> (Z0, s)
                     | _ :: _ ->
                       ((Z.mul sg (num_of (Zpos (XO (XI (XO XH)))) ds)), r2))
               else let sg = Zpos XH in
                    let (ds, r2) = span_digits r in
                    (match ds with
                     | [] -> (Z0, s)
                     | _ :: _ ->
                       ((Z.mul sg (num_of (Zpos (XO (XI (XO XH)))) ds)), r2)))
  else (Z0, s)

(** val scan_decimal : ustr -> ((z * z) * ustr) option **)

let scan_decimal s =
  let (ip, r1) = span_digits s in
  let (fp, r2) =
    match r1 with
    | [] -> ([], r1)
    | c :: r' ->
      if Z.eqb c (Zpos (XO (XI (XI (XI (XO XH))))))
      then span_digits r'
      else ([], r1)
  in
  (match ip with
   | [] ->
     (match fp with
      | [] -> None
      | _ :: _ ->
        let (e, r3) = scan_exp r2 in
        Some (((num_of (Zpos (XO (XI (XO XH)))) (app ip fp)),
        (Z.sub e (Z.of_nat (length fp)))), r3))
   | _ :: _ ->
     let (e, r3) = scan_exp r2 in
     Some (((num_of (Zpos (XO (XI (XO XH)))) (app ip fp)),
     (Z.sub e (Z.of_nat (length fp)))), r3))

(** val dec_value : bool -> z -> z -> z **)

let dec_value neg m e =
  if Z.eqb m Z0
  then with_sign neg Z0
  else if Z.ltb (Zpos (XO (XI (XI (XO (XI (XI (XO (XO XH)))))))))
            (Z.sub (Z.add e (nd m)) (Zpos XH))
       then with_sign neg iNF
       else if Z.ltb (Z.add e (nd m)) (Zneg (XO (XI (XO (XI (XO (XO (XI (XO
                 XH)))))))))
            then with_sign neg Z0
            else let (a, b) = scale10 m (Zpos XH) e in round_signed neg a b

(** val radix_digit : z -> z **)

let radix_digit c =
  if (&&) (Z.leb (Zpos (XO (XO (XO (XO (XI XH)))))) c)
       (Z.leb c (Zpos (XI (XO (XO (XI (XI XH)))))))
  then Z.sub c (Zpos (XO (XO (XO (XO (XI XH))))))
  else if (&&) (Z.leb (Zpos (XI (XO (XO (XO (XO (XI XH))))))) c)
            (Z.leb c (Zpos (XO (XI (XO (XI (XI (XI XH))))))))
       then Z.sub c (Zpos (XI (XI (XI (XO (XI (XO XH)))))))
       else if (&&) (Z.leb (Zpos (XI (XO (XO (XO (XO (XO XH))))))) c)
                 (Z.leb c (Zpos (XO (XI (XO (XI (XI (XO XH))))))))
            then Z.sub c (Zpos (XI (XI (XI (XO (XI XH))))))
            else Zpos (XI (XI (XO (XO (XO (XI XH))))))

(** val all_radix_digits : z -> ustr -> z list option **)

let rec all_radix_digits r = function
| [] -> Some []
| c :: s' ->
  let d = radix_digit c in
  if Z.ltb d r
  then option_map (fun x -> d :: x) (all_radix_digits r s')
  else None

(** val nondecimal_prefix : ustr -> (z * ustr) option **)

let nondecimal_prefix = function
| [] -> None
| z0 :: l ->
  (match z0 with
   | Zpos p ->
     (match p with
      | XO p0 ->
        (match p0 with
         | XO p1 ->
           (match p1 with
            | XO p2 ->
              (match p2 with
               | XO p3 ->
                 (match p3 with
                  | XI p4 ->
                    (match p4 with
                     | XH ->
                       (match l with
                        | [] -> None
                        | c :: r ->
                          if (||)
                               (Z.eqb c (Zpos (XO (XO (XO (XI (XI (XI
                                 XH))))))))
                               (Z.eqb c (Zpos (XO (XO (XO (XI (XI (XO
                                 XH))))))))
                          then Some ((Zpos (XO (XO (XO (XO XH))))), r)
                          else if (||)
                                    (Z.eqb c (Zpos (XI (XI (XI (XI (XO (XI
                                      XH))))))))
                                    (Z.eqb c (Zpos (XI (XI (XI (XI (XO (XO
                                      XH))))))))
                               then Some ((Zpos (XO (XO (XO XH)))), r)
                               else if (||)
                                         (Z.eqb c (Zpos (XO (XI (XO (XO (XO
                                           (XI XH))))))))
                                         (Z.eqb c (Zpos (XO (XI (XO (XO (XO
                                           (XO XH))))))))
                                    then Some ((Zpos (XO XH)), r)
                                    else None)
                     | _ -> None)
                  | _ -> None)
               | _ -> None)
            | _ -> None)
         | _ -> None)
      | _ -> None)
   | _ -> None)

(** val split_sign : ustr -> bool * ustr **)

let split_sign s = match s with
| [] -> (false, s)
| c :: r ->
  if Z.eqb c (Zpos (XI (XO (XI (XI (XO XH))))))
  then (true, r)
  else if Z.eqb c (Zpos (XI (XI (XO (XI (XO XH))))))
       then (false, r)
       else (false, s)

(** val string_to_number_spec : ustr -> z **)

let string_to_number_spec s =
  let t = trim s in
  (match t with
   | [] -> Z0
   | _ :: _ ->
     (match nondecimal_prefix t with
      | Some p ->
        let (r, body) = p in
        (match body with
         | [] -> nAN
         | z0 :: l ->
           (match all_radix_digits r (z0 :: l) with
            | Some ds -> round_nneg (num_of r ds) (Zpos XH)
            | None -> nAN))
      | None ->
        let (neg, v) = split_sign t in
        if ustr_eqb v
             (lit (String ((Ascii (true, false, false, true, false, false,
               true, false)), (String ((Ascii (false, true, true, true,
               false, true, true, false)), (String ((Ascii (false, true,
               true, false, false, true, true, false)), (String ((Ascii
               (true, false, false, true, false, true, true, false)), (String
               ((Ascii (false, true, true, true, false, true, true, false)),
               (String ((Ascii (true, false, false, true, false, true, true,
               false)), (String ((Ascii (false, false, true, false, true,
               true, true, false)), (String ((Ascii (true, false, false,
               true, true, true, true, false)), EmptyString)))))))))))))))))
        then with_sign neg iNF
        else (match scan_decimal v with
              | Some p ->
                let (p0, u) = p in
                let (m, e) = p0 in
                (match u with
                 | [] -> dec_value neg m e
                 | _ :: _ -> nAN)
              | None -> nAN)))

(** val parse_float_spec : ustr -> z **)

let parse_float_spec s =
  let (neg, v) = split_sign (trim_start s) in
  (match strip_prefix
           (lit (String ((Ascii (true, false, false, true, false, false,
             true, false)), (String ((Ascii (false, true, true, true, false,
             true, true, false)), (String ((Ascii (false, true, true, false,
             false, true, true, false)), (String ((Ascii (true, false, false,
             true, false, true, true, false)), (String ((Ascii (false, true,
             true, true, false, true, true, false)), (String ((Ascii (true,
             false, false, true, false, true, true, false)), (String ((Ascii
             (false, false, true, false, true, true, true, false)), (String
             ((Ascii (true, false, false, true, true, true, true, false)),
             EmptyString))))))))))))))))) v with
   | Some _ -> with_sign neg iNF
   | None ->
     (match scan_decimal v with
      | Some p -> let (p0, _) = p in let (m, e) = p0 in dec_value neg m e
      | None -> nAN))

(** val span_radix : z -> ustr -> z list **)

let rec span_radix r = function
| [] -> []
| c :: s' ->
  let d = radix_digit c in if Z.ltb d r then d :: (span_radix r s') else []

(** val parse_int_spec : ustr -> z -> z **)

let parse_int_spec s radix =
  let (neg, v) = split_sign (trim_start s) in
  if (&&) (negb (Z.eqb radix Z0))
       ((||) (Z.ltb radix (Zpos (XO XH)))
         (Z.ltb (Zpos (XO (XO (XI (XO (XO XH)))))) radix))
  then nAN
  else let r0 = if Z.eqb radix Z0 then Zpos (XO (XI (XO XH))) else radix in
       let strip =
         (||) (Z.eqb radix Z0) (Z.eqb radix (Zpos (XO (XO (XO (XO XH))))))
       in
       (match if strip then nondecimal_prefix v else None with
        | Some p ->
          let (z0, rest) = p in
          (match z0 with
           | Zpos p0 ->
             (match p0 with
              | XO p1 ->
                (match p1 with
                 | XO p2 ->
                   (match p2 with
                    | XO p3 ->
                      (match p3 with
                       | XO p4 ->
                         (match p4 with
                          | XH ->
                            let r = Zpos (XO (XO (XO (XO XH)))) in
                            (match span_radix r rest with
                             | [] -> nAN
                             | z1 :: l ->
                               let m = num_of r (z1 :: l) in
                               if Z.eqb m Z0
                               then with_sign neg Z0
                               else round_signed neg m (Zpos XH))
                          | _ ->
                            (match span_radix r0 v with
                             | [] -> nAN
                             | z1 :: l ->
                               let m = num_of r0 (z1 :: l) in
                               if Z.eqb m Z0
                               then with_sign neg Z0
                               else round_signed neg m (Zpos XH)))
                       | _ ->
                         (match span_radix r0 v with
                          | [] -> nAN
                          | z1 :: l ->
                            let m = num_of r0 (z1 :: l) in
                            if Z.eqb m Z0
                            then with_sign neg Z0
                            else round_signed neg m (Zpos XH)))
                    | _ ->
                      (match span_radix r0 v with
                       | [] -> nAN
                       | z1 :: l ->
                         let m = num_of r0 (z1 :: l) in
                         if Z.eqb m Z0
                         then with_sign neg Z0
                         else round_signed neg m (Zpos XH)))
                 | _ ->
                   (match span_radix r0 v with
                    | [] -> nAN
                    | z1 :: l ->
                      let m = num_of r0 (z1 :: l) in
                      if Z.eqb m Z0
                      then with_sign neg Z0
                      else round_signed neg m (Zpos XH)))
              | _ ->
                (match span_radix r0 v with
                 | [] -> nAN
                 | z1 :: l ->
                   let m = num_of r0 (z1 :: l) in
                   if Z.eqb m Z0
                   then with_sign neg Z0
                   else round_signed neg m (Zpos XH)))
           | _ ->
             (match span_radix r0 v with
              | [] -> nAN
              | z1 :: l ->
                let m = num_of r0 (z1 :: l) in
                if Z.eqb m Z0
                then with_sign neg Z0
                else round_signed neg m (Zpos XH)))
        | None ->
          (match span_radix r0 v with
           | [] -> nAN
           | z0 :: l ->
             let m = num_of r0 (z0 :: l) in
             if Z.eqb m Z0
             then with_sign neg Z0
             else round_signed neg m (Zpos XH)))

type res =
| Str of ustr
| RangeError

(** val round_half_up : z -> z -> z -> z **)

let round_half_up a b p =
  let (n0, d) = scale10 a b p in
  let q = Z.div n0 d in
  if Z.leb d (Z.mul (Zpos (XO XH)) (Z.modulo n0 d))
  then Z.add q (Zpos XH)
  else q

(** val to_fixed_spec : z -> z -> res **)

let to_fixed_spec bits f =
  if (||) (Z.ltb f Z0) (Z.ltb (Zpos (XO (XO (XI (XO (XO (XI XH))))))) f)
  then RangeError
  else let u = mag bits in
       if Z.leb iNF u
       then Str (to_string_spec bits)
       else let (a, b) = ratio u in
            if Z.leb
                 (Z.mul b
                   (Z.pow (Zpos (XO (XI (XO XH)))) (Zpos (XI (XO (XI (XO
                     XH))))))) a
            then Str (to_string_spec bits)
            else let n0 = round_half_up a b f in
                 let m = dec_str n0 in
                 let k = Z.of_nat (length m) in
                 let m0 =
                   if Z.eqb f Z0
                   then m
                   else let m0 =
                          if Z.leb k f
                          then app
                                 (zrepeat (Zpos (XO (XO (XO (XO (XI XH))))))
                                   (Z.sub (Z.add f (Zpos XH)) k)) m
                          else m
                        in
                        let k0 = Z.of_nat (length m0) in
                        app (take (Z.sub k0 f) m0)
                          (app ((Zpos (XO (XI (XI (XI (XO XH)))))) :: [])
                            (drop (Z.sub k0 f) m0))
                 in
                 Str
                 (app
                   (if (&&) (is_neg bits) (negb (Z.eqb u Z0))
                    then (Zpos (XI (XO (XI (XI (XO XH)))))) :: []
                    else []) m0)

(** val exp_digits : z -> z -> z -> z * z **)

let exp_digits a b f =
  let e = Z.sub (dec_exp a b) (Zpos XH) in
  let n0 = round_half_up a b (Z.sub f e) in
  if Z.eqb n0 (Z.pow (Zpos (XO (XI (XO XH)))) (Z.add f (Zpos XH)))
  then ((Z.pow (Zpos (XO (XI (XO XH)))) f), (Z.add e (Zpos XH)))
  else (n0, e)

(** val mantissa_point : ustr -> ustr **)

let mantissa_point ds = match ds with
| [] -> ds
| c :: r ->
  (match r with
   | [] -> ds
   | _ :: _ -> c :: ((Zpos (XO (XI (XI (XI (XO XH)))))) :: r))

(** val exp_part : z -> ustr **)

let exp_part e =
  app ((Zpos (XI (XO (XI (XO (XO (XI XH))))))) :: [])
    (app
      (if Z.leb Z0 e
       then (Zpos (XI (XI (XO (XI (XO XH)))))) :: []
       else (Zpos (XI (XO (XI (XI (XO XH)))))) :: []) (dec_str (Z.abs e)))

(** val to_exponential_spec : z -> z option -> res **)

let to_exponential_spec bits fd =
  let u = mag bits in
  if Z.leb iNF u
  then Str (to_string_spec bits)
  else let bad =
         match fd with
         | Some f ->
           (||) (Z.ltb f Z0) (Z.ltb (Zpos (XO (XO (XI (XO (XO (XI XH))))))) f)
         | None -> false
       in
       if bad
       then RangeError
       else let sgn =
              if (&&) (is_neg bits) (negb (Z.eqb u Z0))
              then (Zpos (XI (XO (XI (XI (XO XH)))))) :: []
              else []
            in
            if Z.eqb u Z0
            then Str
                   (app sgn
                     (app
                       (mantissa_point
                         (zrepeat (Zpos (XO (XO (XO (XO (XI XH))))))
                           (match fd with
                            | Some f -> Z.add f (Zpos XH)
                            | None -> Zpos XH))) (exp_part Z0)))
            else let (n0, e) =
                   match fd with
                   | Some f -> let (a, b) = ratio u in exp_digits a b f
                   | None ->
                     (match shortest u with
                      | Some p ->
                        let (p0, n0) = p in
                        let (s, _) = p0 in (s, (Z.sub n0 (Zpos XH)))
                      | None -> (Z0, Z0))
                 in
                 Str
                 (app sgn (app (mantissa_point (dec_str n0)) (exp_part e)))

(** val to_precision_spec : z -> z option -> res **)

let to_precision_spec bits = function
| Some p ->
  let u = mag bits in
  if Z.leb iNF u
  then Str (to_string_spec bits)
  else if (||) (Z.ltb p (Zpos XH))
            (Z.ltb (Zpos (XO (XO (XI (XO (XO (XI XH))))))) p)
       then RangeError
       else let sgn =
              if (&&) (is_neg bits) (negb (Z.eqb u Z0))
              then (Zpos (XI (XO (XI (XI (XO XH)))))) :: []
              else []
            in
            let (p0, done0) =
              if Z.eqb u Z0
              then (((zrepeat (Zpos (XO (XO (XO (XO (XI XH)))))) p), Z0),
                     false)
              else let (a, b) = ratio u in
                   let (n0, e) = exp_digits a b (Z.sub p (Zpos XH)) in
                   let m = dec_str n0 in
                   if (||) (Z.ltb e (Zneg (XO (XI XH)))) (Z.leb p e)
                   then (((app (mantissa_point m)
                            (app ((Zpos (XI (XO (XI (XO (XO (XI
                              XH))))))) :: [])
                              (app
                                (if Z.ltb Z0 e
                                 then (Zpos (XI (XI (XO (XI (XO XH)))))) :: []
                                 else (Zpos (XI (XO (XI (XI (XO XH)))))) :: [])
                                (dec_str (Z.abs e))))), e), true)
                   else ((m, e), false)
            in
            let (m, e) = p0 in
            if done0
            then Str (app sgn m)
            else if Z.eqb e (Z.sub p (Zpos XH))
                 then Str (app sgn m)
                 else if Z.leb Z0 e
                      then Str
                             (app sgn
                               (app (take (Z.add e (Zpos XH)) m)
                                 (app ((Zpos (XO (XI (XI (XI (XO
                                   XH)))))) :: [])
                                   (drop (Z.add e (Zpos XH)) m))))
                      else Str
                             (app sgn
                               (app ((Zpos (XO (XO (XO (XO (XI
                                 XH)))))) :: ((Zpos (XO (XI (XI (XI (XO
                                 XH)))))) :: []))
                                 (app
                                   (zrepeat (Zpos (XO (XO (XO (XO (XI
                                     XH)))))) (Z.opp (Z.add e (Zpos XH)))) m)))
| None -> Str (to_string_spec bits)

(** val int_value : z -> z option **)

let int_value u =
  let (a, b) = ratio u in
  if Z.eqb (Z.modulo a b) Z0 then Some (Z.div a b) else None

(** val radix_string_spec : z -> z -> res option **)

let radix_string_spec bits r =
  if (||) (Z.ltb r (Zpos (XO XH)))
       (Z.ltb (Zpos (XO (XO (XI (XO (XO XH)))))) r)
  then Some RangeError
  else if Z.eqb r (Zpos (XO (XI (XO XH))))
       then Some (Str (to_string_spec bits))
       else let u = mag bits in
            if Z.leb iNF u
            then Some (Str (to_string_spec bits))
            else (match int_value u with
                  | Some v ->
                    Some (Str
                      (app
                        (if (&&) (is_neg bits) (negb (Z.eqb u Z0))
                         then (Zpos (XI (XO (XI (XI (XO XH)))))) :: []
                         else []) (dstr r v)))
                  | None -> None)

type lit_res =
| LNum of z
| LSyntaxError

(** val strip_sep_aux : bool -> ustr -> ustr option **)

let rec strip_sep_aux prev_digit = function
| [] -> if prev_digit then Some [] else None
| c :: r ->
  if Z.eqb c (Zpos (XI (XI (XI (XI (XI (XO XH)))))))
  then if prev_digit
       then (match r with
             | [] -> None
             | c' :: _ ->
               if Z.eqb c' (Zpos (XI (XI (XI (XI (XI (XO XH)))))))
               then None
               else strip_sep_aux false r)
       else None
  else option_map (fun x -> c :: x) (strip_sep_aux true r)

(** val strip_sep : ustr -> ustr option **)

let strip_sep s = match s with
| [] -> Some []
| _ :: _ -> strip_sep_aux false s

(** val has_sep : ustr -> bool **)

let has_sep s =
  existsb (fun c -> Z.eqb c (Zpos (XI (XI (XI (XI (XI (XO XH)))))))) s

(** val all_digits : ustr -> bool **)

let all_digits s =
  forallb is_digit s

(** val all_octal : ustr -> bool **)

let all_octal s =
  forallb (fun c ->
    (&&) (Z.leb (Zpos (XO (XO (XO (XO (XI XH)))))) c)
      (Z.leb c (Zpos (XI (XI (XI (XO (XI XH)))))))) s

(** val break_at : (z -> bool) -> ustr -> ustr * ustr **)

let rec break_at p s = match s with
| [] -> ([], [])
| c :: r ->
  if p c then ([], s) else let (a, b) = break_at p r in ((c :: a), b)

(** val sep_run_ok : bool -> ustr -> bool **)

let sep_run_ok allow_empty s = match s with
| [] -> allow_empty
| _ :: _ -> (match strip_sep s with
             | Some t -> all_digits t
             | None -> false)

(** val decimal_literal : ustr -> lit_res **)

let decimal_literal s =
  let (ip, r1) =
    break_at (fun c ->
      (||)
        ((||) (Z.eqb c (Zpos (XO (XI (XI (XI (XO XH)))))))
          (Z.eqb c (Zpos (XI (XO (XI (XO (XO (XI XH)))))))))
        (Z.eqb c (Zpos (XI (XO (XI (XO (XO (XO XH))))))))) s
  in
  (match r1 with
   | [] ->
     let p = ([], r1) in
     let (fp, r2) = p in
     let ep_ok =
       match r2 with
       | [] -> true
       | _ :: r' ->
         let body =
           match r' with
           | [] -> []
           | c :: r'' ->
             if (||) (Z.eqb c (Zpos (XI (XI (XO (XI (XO XH)))))))
                  (Z.eqb c (Zpos (XI (XO (XI (XI (XO XH)))))))
             then r''
             else r'
         in
         sep_run_ok false body
     in
     let ip_ok =
       (&&) (sep_run_ok true ip)
         (match ip with
          | [] -> true
          | z0 :: l ->
            (match z0 with
             | Zpos p0 ->
               (match p0 with
                | XO p1 ->
                  (match p1 with
                   | XO p2 ->
                     (match p2 with
                      | XO p3 ->
                        (match p3 with
                         | XO p4 ->
                           (match p4 with
                            | XI p5 ->
                              (match p5 with
                               | XH ->
                                 (match l with
                                  | [] -> true
                                  | _ :: _ -> false)
                               | _ -> true)
                            | _ -> true)
                         | _ -> true)
                      | _ -> true)
                   | _ -> true)
                | _ -> true)
             | _ -> true))
     in
     let fp_ok = sep_run_ok true fp in
     if (&&) ((&&) ((&&) ip_ok fp_ok) ep_ok)
          (negb
            (match ip with
             | [] -> (match fp with
                      | [] -> true
                      | _ :: _ -> false)
             | _ :: _ -> false))
     then let clean =
            filter (fun c ->
              negb (Z.eqb c (Zpos (XI (XI (XI (XI (XI (XO XH))))))))) s
          in
          (match scan_decimal clean with
           | Some p0 ->
             let (p1, u) = p0 in
             let (m, e) = p1 in
             (match u with
              | [] -> LNum (dec_value false m e)
              | _ :: _ -> LSyntaxError)
           | None -> LSyntaxError)
     else LSyntaxError
   | c :: r' ->
     if Z.eqb c (Zpos (XO (XI (XI (XI (XO XH))))))
     then let p =
            break_at (fun c0 ->
              (||) (Z.eqb c0 (Zpos (XI (XO (XI (XO (XO (XI XH))))))))
                (Z.eqb c0 (Zpos (XI (XO (XI (XO (XO (XO XH))))))))) r'
          in
          let (fp, r2) = p in
          let ep_ok =
            match r2 with
            | [] -> true
            | _ :: r'0 ->
              let body =
                match r'0 with
                | [] -> []
                | c0 :: r'' ->
                  if (||) (Z.eqb c0 (Zpos (XI (XI (XO (XI (XO XH)))))))
                       (Z.eqb c0 (Zpos (XI (XO (XI (XI (XO XH)))))))
                  then r''
                  else r'0
              in
              sep_run_ok false body
          in
          let ip_ok =
            (&&) (sep_run_ok true ip)
              (match ip with
               | [] -> true
               | z0 :: l ->
                 (match z0 with
                  | Zpos p0 ->
                    (match p0 with
                     | XO p1 ->
                       (match p1 with
                        | XO p2 ->
                          (match p2 with
                           | XO p3 ->
                             (match p3 with
                              | XO p4 ->
                                (match p4 with
                                 | XI p5 ->
                                   (match p5 with
                                    | XH ->
                                      (match l with
                                       | [] -> true
                                       | _ :: _ -> false)
                                    | _ -> true)
                                 | _ -> true)
                              | _ -> true)
                           | _ -> true)
                        | _ -> true)
                     | _ -> true)
                  | _ -> true))
          in
          let fp_ok = sep_run_ok true fp in
          if (&&) ((&&) ((&&) ip_ok fp_ok) ep_ok)
               (negb
                 (match ip with
                  | [] -> (match fp with
                           | [] -> true
                           | _ :: _ -> false)
                  | _ :: _ -> false))
          then let clean =
                 filter (fun c0 ->
                   negb (Z.eqb c0 (Zpos (XI (XI (XI (XI (XI (XO XH))))))))) s
               in
               (match scan_decimal clean with
                | Some p0 ->
                  let (p1, u) = p0 in
                  let (m, e) = p1 in
                  (match u with
                   | [] -> LNum (dec_value false m e)
                   | _ :: _ -> LSyntaxError)
                | None -> LSyntaxError)
          else LSyntaxError
     else let p = ([], r1) in
          let (fp, r2) = p in
          let ep_ok =
            match r2 with
            | [] -> true
            | _ :: r'0 ->
              let body =
                match r'0 with
                | [] -> []
                | c0 :: r'' ->
                  if (||) (Z.eqb c0 (Zpos (XI (XI (XO (XI (XO XH)))))))
                       (Z.eqb c0 (Zpos (XI (XO (XI (XI (XO XH)))))))
                  then r''
                  else r'0
              in
              sep_run_ok false body
          in
          let ip_ok =
            (&&) (sep_run_ok true ip)
              (match ip with
               | [] -> true
               | z0 :: l ->
                 (match z0 with
                  | Zpos p0 ->
                    (match p0 with
                     | XO p1 ->
                       (match p1 with
                        | XO p2 ->
                          (match p2 with
                           | XO p3 ->
                             (match p3 with
                              | XO p4 ->
                                (match p4 with
                                 | XI p5 ->
                                   (match p5 with
                                    | XH ->
                                      (match l with
                                       | [] -> true
                                       | _ :: _ -> false)
                                    | _ -> true)
                                 | _ -> true)
                              | _ -> true)
                           | _ -> true)
                        | _ -> true)
                     | _ -> true)
                  | _ -> true))
          in
          let fp_ok = sep_run_ok true fp in
          if (&&) ((&&) ((&&) ip_ok fp_ok) ep_ok)
               (negb
                 (match ip with
                  | [] -> (match fp with
                           | [] -> true
                           | _ :: _ -> false)
                  | _ :: _ -> false))
          then let clean =
                 filter (fun c0 ->
                   negb (Z.eqb c0 (Zpos (XI (XI (XI (XI (XI (XO XH))))))))) s
               in
               (match scan_decimal clean with
                | Some p0 ->
                  let (p1, u) = p0 in
                  let (m, e) = p1 in
                  (match u with
                   | [] -> LNum (dec_value false m e)
                   | _ :: _ -> LSyntaxError)
                | None -> LSyntaxError)
          else LSyntaxError)

(** val numeric_literal_spec : ustr -> bool -> lit_res **)

let numeric_literal_spec s strict =
  match nondecimal_prefix s with
  | Some p ->
    let (r, body) = p in
    (match strip_sep body with
     | Some u ->
       (match u with
        | [] -> LSyntaxError
        | _ :: t ->
          (match all_radix_digits r t with
           | Some ds -> LNum (round_nneg (num_of r ds) (Zpos XH))
           | None -> LSyntaxError))
     | None -> LSyntaxError)
  | None ->
    (match s with
     | [] -> decimal_literal s
     | z0 :: l ->
       (match z0 with
        | Zpos p ->
          (match p with
           | XO p0 ->
             (match p0 with
              | XO p1 ->
                (match p1 with
                 | XO p2 ->
                   (match p2 with
                    | XO p3 ->
                      (match p3 with
                       | XI p4 ->
                         (match p4 with
                          | XH ->
                            (match l with
                             | [] -> decimal_literal s
                             | c :: _ ->
                               if is_digit c
                               then if (||) strict (has_sep s)
                                    then LSyntaxError
                                    else let (head, rest) =
                                           break_at (fun c0 ->
                                             negb (is_digit c0)) s
                                         in
                                         if all_octal head
                                         then (match rest with
                                               | [] ->
                                                 (match all_radix_digits
                                                          (Zpos (XO (XO (XO
                                                          XH)))) head with
                                                  | Some ds ->
                                                    LNum
                                                      (round_nneg
                                                        (num_of (Zpos (XO (XO
                                                          (XO XH)))) ds)
                                                        (Zpos XH))
                                                  | None -> LSyntaxError)
                                               | _ :: _ -> LSyntaxError)
                                         else (match scan_decimal s with
                                               | Some p5 ->
                                                 let (p6, u) = p5 in
                                                 let (m, e) = p6 in
                                                 (match u with
                                                  | [] ->
                                                    LNum (dec_value false m e)
                                                  | _ :: _ -> LSyntaxError)
                                               | None -> LSyntaxError)
                               else decimal_literal s)
                          | _ -> decimal_literal s)
                       | _ -> decimal_literal s)
                    | _ -> decimal_literal s)
                 | _ -> decimal_literal s)
              | _ -> decimal_literal s)
           | _ -> decimal_literal s)
        | _ -> decimal_literal s))

(** val json_number_spec : ustr -> lit_res **)

let json_number_spec s = match s with
| [] ->
  let neg = false in
  let (ip, r1) = span_digits s in
  let ip_ok =
    match ip with
    | [] -> false
    | d :: l -> (match l with
                 | [] -> true
                 | _ :: _ -> negb (Z.eqb d Z0))
  in
  (match r1 with
   | [] ->
     let fp_ok = true in
     let ep_ok =
       match r1 with
       | [] -> true
       | _ :: _ ->
         let (_, u) = scan_exp r1 in
         (match u with
          | [] -> true
          | _ :: _ -> false)
     in
     if (&&) ((&&) ip_ok fp_ok) ep_ok
     then (match scan_decimal s with
           | Some p ->
             let (p0, u) = p in
             let (m, e) = p0 in
             (match u with
              | [] -> LNum (dec_value neg m e)
              | _ :: _ -> LSyntaxError)
           | None -> LSyntaxError)
     else LSyntaxError
   | c :: r' ->
     if Z.eqb c (Zpos (XO (XI (XI (XI (XO XH))))))
     then let (f, r'') = span_digits r' in
          let fp_ok = match f with
                      | [] -> false
                      | _ :: _ -> true in
          let ep_ok =
            match r'' with
            | [] -> true
            | _ :: _ ->
              let (_, u) = scan_exp r'' in
              (match u with
               | [] -> true
               | _ :: _ -> false)
          in
          if (&&) ((&&) ip_ok fp_ok) ep_ok
          then (match scan_decimal s with
                | Some p ->
                  let (p0, u) = p in
                  let (m, e) = p0 in
                  (match u with
                   | [] -> LNum (dec_value neg m e)
                   | _ :: _ -> LSyntaxError)
                | None -> LSyntaxError)
          else LSyntaxError
     else let fp_ok = true in
          let ep_ok =
            match r1 with
            | [] -> true
            | _ :: _ ->
              let (_, u) = scan_exp r1 in
              (match u with
               | [] -> true
               | _ :: _ -> false)
          in
          if (&&) ((&&) ip_ok fp_ok) ep_ok
          then (match scan_decimal s with
                | Some p ->
                  let (p0, u) = p in
                  let (m, e) = p0 in
                  (match u with
                   | [] -> LNum (dec_value neg m e)
                   | _ :: _ -> LSyntaxError)
                | None -> LSyntaxError)
          else LSyntaxError)
| c :: r ->
  if Z.eqb c (Zpos (XI (XO (XI (XI (XO XH))))))
  then let neg = true in
       let (ip, r1) = span_digits r in
       let ip_ok =
         match ip with
         | [] -> false
         | d :: l -> (match l with
                      | [] -> true
                      | _ :: _ -> negb (Z.eqb d Z0))
       in
       (match r1 with
        | [] ->
          let fp_ok = true in
          let ep_ok =
            match r1 with
            | [] -> true
            | _ :: _ ->
              let (_, u) = scan_exp r1 in
              (match u with
               | [] -> true
               | _ :: _ -> false)
          in
          if (&&) ((&&) ip_ok fp_ok) ep_ok
          then (match scan_decimal r with
                | Some p ->
                  let (p0, u) = p in
                  let (m, e) = p0 in
                  (match u with
                   | [] -> LNum (dec_value neg m e)
                   | _ :: _ -> LSyntaxError)
                | None -> LSyntaxError)
          else LSyntaxError
        | c0 :: r' ->
          if Z.eqb c0 (Zpos (XO (XI (XI (XI (XO XH))))))
          then let (f, r'') = span_digits r' in
               let fp_ok = match f with
                           | [] -> false
                           | _ :: _ -> true in
               let ep_ok =
                 match r'' with
                 | [] -> true
                 | _ :: _ ->
                   let (_, u) = scan_exp r'' in
                   (match u with
                    | [] -> true
                    | _ :: _ -> false)
               in
               if (&&) ((&&) ip_ok fp_ok) ep_ok
               then (match scan_decimal r with
                     | Some p ->
                       let (p0, u) = p in
                       let (m, e) = p0 in
                       (match u with
                        | [] -> LNum (dec_value neg m e)
                        | _ :: _ -> LSyntaxError)
                     | None -> LSyntaxError)
               else LSyntaxError
          else let fp_ok = true in
               let ep_ok =
                 match r1 with
                 | [] -> true
                 | _ :: _ ->
                   let (_, u) = scan_exp r1 in
                   (match u with
                    | [] -> true
                    | _ :: _ -> false)
               in
               if (&&) ((&&) ip_ok fp_ok) ep_ok
               then (match scan_decimal r with
                     | Some p ->
                       let (p0, u) = p in
                       let (m, e) = p0 in
                       (match u with
                        | [] -> LNum (dec_value neg m e)
                        | _ :: _ -> LSyntaxError)
                     | None -> LSyntaxError)
               else LSyntaxError)
  else let neg = false in
       let (ip, r1) = span_digits s in
       let ip_ok =
         match ip with
         | [] -> false
         | d :: l -> (match l with
                      | [] -> true
                      | _ :: _ -> negb (Z.eqb d Z0))
       in
       (match r1 with
        | [] ->
          let fp_ok = true in
          let ep_ok =
            match r1 with
            | [] -> true
            | _ :: _ ->
              let (_, u) = scan_exp r1 in
              (match u with
               | [] -> true
               | _ :: _ -> false)
          in
          if (&&) ((&&) ip_ok fp_ok) ep_ok
          then (match scan_decimal s with
                | Some p ->
                  let (p0, u) = p in
                  let (m, e) = p0 in
                  (match u with
                   | [] -> LNum (dec_value neg m e)
                   | _ :: _ -> LSyntaxError)
                | None -> LSyntaxError)
          else LSyntaxError
        | c0 :: r' ->
          if Z.eqb c0 (Zpos (XO (XI (XI (XI (XO XH))))))
          then let (f, r'') = span_digits r' in
               let fp_ok = match f with
                           | [] -> false
                           | _ :: _ -> true in
               let ep_ok =
                 match r'' with
                 | [] -> true
                 | _ :: _ ->
                   let (_, u) = scan_exp r'' in
                   (match u with
                    | [] -> true
                    | _ :: _ -> false)
               in
               if (&&) ((&&) ip_ok fp_ok) ep_ok
               then (match scan_decimal s with
                     | Some p ->
                       let (p0, u) = p in
                       let (m, e) = p0 in
                       (match u with
                        | [] -> LNum (dec_value neg m e)
                        | _ :: _ -> LSyntaxError)
                     | None -> LSyntaxError)
               else LSyntaxError
          else let fp_ok = true in
               let ep_ok =
                 match r1 with
                 | [] -> true
                 | _ :: _ ->
                   let (_, u) = scan_exp r1 in
                   (match u with
                    | [] -> true
                    | _ :: _ -> false)
               in
               if (&&) ((&&) ip_ok fp_ok) ep_ok
               then (match scan_decimal s with
                     | Some p ->
                       let (p0, u) = p in
                       let (m, e) = p0 in
                       (match u with
                        | [] -> LNum (dec_value neg m e)
                        | _ :: _ -> LSyntaxError)
                     | None -> LSyntaxError)
               else LSyntaxError)

(** val f_of_int : z -> z **)

let f_of_int v =
  round_nneg v (Zpos XH)

(** val f_mul_small : z -> z -> z **)

let f_mul_small u r =
  if Z.leb iNF u
  then iNF
  else let (a, b) = ratio u in round_nneg (Z.mul a r) b

(** val f_add_small : z -> z -> z **)

let f_add_small u d =
  if Z.leb iNF u
  then iNF
  else let (a, b) = ratio u in round_nneg (Z.add a (Z.mul d b)) b

(** val f_mul_add_small : z -> z -> z -> z **)

let f_mul_add_small u r d =
  if Z.leb iNF u
  then iNF
  else let (a, b) = ratio u in round_nneg (Z.add (Z.mul a r) (Z.mul d b)) b

(** val f_div_small : z -> z -> z **)

let f_div_small u r =
  if Z.leb iNF u
  then iNF
  else let (a, b) = ratio u in round_nneg a (Z.mul b r)

(** val from_js_str_radix_model : z -> z list -> z **)

let from_js_str_radix_model r ds =
  if (&&) (Z.leb r (Zpos (XO (XO (XO (XO XH))))))
       (Z.leb (Z.of_nat (length ds)) (Zpos (XO (XO (XO (XO XH))))))
  then f_of_int (num_of r ds)
  else fold_left (fun acc d -> f_add_small (f_mul_small acc r) d) ds Z0

(** val parse_int_model : ustr -> z -> z **)

let parse_int_model s radix =
  let (neg, v) = split_sign (trim_start s) in
  if (&&) (negb (Z.eqb radix Z0))
       ((||) (Z.ltb radix (Zpos (XO XH)))
         (Z.ltb (Zpos (XO (XO (XI (XO (XO XH)))))) radix))
  then nAN
  else let r0 = if Z.eqb radix Z0 then Zpos (XO (XI (XO XH))) else radix in
       let strip =
         (||) (Z.eqb radix Z0) (Z.eqb radix (Zpos (XO (XO (XO (XO XH))))))
       in
       (match if strip then nondecimal_prefix v else None with
        | Some p ->
          let (z0, rest) = p in
          (match z0 with
           | Zpos p0 ->
             (match p0 with
              | XO p1 ->
                (match p1 with
                 | XO p2 ->
                   (match p2 with
                    | XO p3 ->
                      (match p3 with
                       | XO p4 ->
                         (match p4 with
                          | XH ->
                            let r = Zpos (XO (XO (XO (XO XH)))) in
                            (match span_radix r rest with
                             | [] -> nAN
                             | z1 :: l ->
                               let m = from_js_str_radix_model r (z1 :: l) in
                               if Z.eqb m Z0
                               then with_sign neg Z0
                               else with_sign neg m)
                          | _ ->
                            (match span_radix r0 v with
                             | [] -> nAN
                             | z1 :: l ->
                               let m = from_js_str_radix_model r0 (z1 :: l) in
                               if Z.eqb m Z0
                               then with_sign neg Z0
                               else with_sign neg m))
                       | _ ->
                         (match span_radix r0 v with
                          | [] -> nAN
                          | z1 :: l ->
                            let m = from_js_str_radix_model r0 (z1 :: l) in
                            if Z.eqb m Z0
                            then with_sign neg Z0
                            else with_sign neg m))
                    | _ ->
                      (match span_radix r0 v with
                       | [] -> nAN
                       | z1 :: l ->
                         let m = from_js_str_radix_model r0 (z1 :: l) in
                         if Z.eqb m Z0
                         then with_sign neg Z0
                         else with_sign neg m))
                 | _ ->
                   (match span_radix r0 v with
                    | [] -> nAN
                    | z1 :: l ->
                      let m = from_js_str_radix_model r0 (z1 :: l) in
                      if Z.eqb m Z0 then with_sign neg Z0 else with_sign neg m))
              | _ ->
                (match span_radix r0 v with
                 | [] -> nAN
                 | z1 :: l ->
                   let m = from_js_str_radix_model r0 (z1 :: l) in
                   if Z.eqb m Z0 then with_sign neg Z0 else with_sign neg m))
           | _ ->
             (match span_radix r0 v with
              | [] -> nAN
              | z1 :: l ->
                let m = from_js_str_radix_model r0 (z1 :: l) in
                if Z.eqb m Z0 then with_sign neg Z0 else with_sign neg m))
        | None ->
          (match span_radix r0 v with
           | [] -> nAN
           | z0 :: l ->
             let m = from_js_str_radix_model r0 (z0 :: l) in
             if Z.eqb m Z0 then with_sign neg Z0 else with_sign neg m))

(** val u32_from_str_radix : z -> ustr -> z option **)

let u32_from_str_radix r body =
  let digits =
    match body with
    | [] -> body
    | c :: rest ->
      if Z.eqb c (Zpos (XI (XI (XO (XI (XO XH)))))) then rest else body
  in
  (match digits with
   | [] -> None
   | z0 :: l ->
     (match all_radix_digits r (z0 :: l) with
      | Some ds ->
        let v = num_of r ds in
        if Z.ltb v (Zpos (XO (XO (XO (XO (XO (XO (XO (XO (XO (XO (XO (XO (XO
             (XO (XO (XO (XO (XO (XO (XO (XO (XO (XO (XO (XO (XO (XO (XO (XO
             (XO (XO (XO XH)))))))))))))))))))))))))))))))))
        then Some v
        else None
      | None -> None))

(** val mul_add_loop : z -> ustr -> z -> z **)

let rec mul_add_loop r s acc =
  match s with
  | [] -> acc
  | c :: s' ->
    let d = radix_digit c in
    if Z.ltb d r then mul_add_loop r s' (f_mul_add_small acc r d) else nAN

(** val nondecimal_model : z -> ustr -> z **)

let nondecimal_model r body = match body with
| [] -> nAN
| _ :: _ ->
  (match u32_from_str_radix r body with
   | Some v -> f_of_int v
   | None -> mul_add_loop r body Z0)

(** val lower : z -> z **)

let lower c =
  if (&&) (Z.leb (Zpos (XI (XO (XO (XO (XO (XO XH))))))) c)
       (Z.leb c (Zpos (XO (XI (XO (XI (XI (XO XH))))))))
  then Z.add c (Zpos (XO (XO (XO (XO (XO XH))))))
  else c

(** val ci_eqb : ustr -> ustr -> bool **)

let ci_eqb a b =
  ustr_eqb (map lower a) b

(** val fast_float_parse_model : ustr -> z **)

let fast_float_parse_model t =
  let (neg, v) = split_sign t in
  if ci_eqb v
       (lit (String ((Ascii (false, true, true, true, false, true, true,
         false)), (String ((Ascii (true, false, false, false, false, true,
         true, false)), (String ((Ascii (false, true, true, true, false,
         true, true, false)), EmptyString)))))))
  then nAN
  else if (||)
            (ci_eqb v
              (lit (String ((Ascii (true, false, false, true, false, true,
                true, false)), (String ((Ascii (false, true, true, true,
                false, true, true, false)), (String ((Ascii (false, true,
                true, false, false, true, true, false)), EmptyString))))))))
            (ci_eqb v
              (lit (String ((Ascii (true, false, false, true, false, true,
                true, false)), (String ((Ascii (false, true, true, true,
                false, true, true, false)), (String ((Ascii (false, true,
                true, false, false, true, true, false)), (String ((Ascii
                (true, false, false, true, false, true, true, false)),
                (String ((Ascii (false, true, true, true, false, true, true,
                false)), (String ((Ascii (true, false, false, true, false,
                true, true, false)), (String ((Ascii (false, false, true,
                false, true, true, true, false)), (String ((Ascii (true,
                false, false, true, true, true, true, false)),
                EmptyString))))))))))))))))))
       then with_sign neg iNF
       else (match scan_decimal v with
             | Some p ->
               let (p0, u) = p in
               let (m, e) = p0 in
               (match u with
                | [] -> dec_value neg m e
                | _ :: _ -> nAN)
             | None -> nAN)

(** val string_to_number_model : ustr -> z **)

let string_to_number_model s =
  let t = trim s in
  (match t with
   | [] -> Z0
   | c0 :: _ ->
     if ustr_eqb t
          (lit (String ((Ascii (true, false, true, true, false, true, false,
            false)), (String ((Ascii (true, false, false, true, false, false,
            true, false)), (String ((Ascii (false, true, true, true, false,
            true, true, false)), (String ((Ascii (false, true, true, false,
            false, true, true, false)), (String ((Ascii (true, false, false,
            true, false, true, true, false)), (String ((Ascii (false, true,
            true, true, false, true, true, false)), (String ((Ascii (true,
            false, false, true, false, true, true, false)), (String ((Ascii
            (false, false, true, false, true, true, true, false)), (String
            ((Ascii (true, false, false, true, true, true, true, false)),
            EmptyString)))))))))))))))))))
     then with_sign true iNF
     else if (||)
               (ustr_eqb t
                 (lit (String ((Ascii (true, false, false, true, false,
                   false, true, false)), (String ((Ascii (false, true, true,
                   true, false, true, true, false)), (String ((Ascii (false,
                   true, true, false, false, true, true, false)), (String
                   ((Ascii (true, false, false, true, false, true, true,
                   false)), (String ((Ascii (false, true, true, true, false,
                   true, true, false)), (String ((Ascii (true, false, false,
                   true, false, true, true, false)), (String ((Ascii (false,
                   false, true, false, true, true, true, false)), (String
                   ((Ascii (true, false, false, true, true, true, true,
                   false)), EmptyString))))))))))))))))))
               (ustr_eqb t
                 (lit (String ((Ascii (true, true, false, true, false, true,
                   false, false)), (String ((Ascii (true, false, false, true,
                   false, false, true, false)), (String ((Ascii (false, true,
                   true, true, false, true, true, false)), (String ((Ascii
                   (false, true, true, false, false, true, true, false)),
                   (String ((Ascii (true, false, false, true, false, true,
                   true, false)), (String ((Ascii (false, true, true, true,
                   false, true, true, false)), (String ((Ascii (true, false,
                   false, true, false, true, true, false)), (String ((Ascii
                   (false, false, true, false, true, true, true, false)),
                   (String ((Ascii (true, false, false, true, true, true,
                   true, false)), EmptyString))))))))))))))))))))
          then iNF
          else (match nondecimal_prefix t with
                | Some p -> let (r, body) = p in nondecimal_model r body
                | None ->
                  if (||) (Z.eqb c0 (Zpos (XI (XO (XO (XI (XO (XI XH))))))))
                       (Z.eqb c0 (Zpos (XI (XO (XO (XI (XO (XO XH))))))))
                  then nAN
                  else fast_float_parse_model t))

(** val exp_positive : z -> bool **)

let exp_positive u =
  Z.leb (Zpos (XO (XO (XI (XO (XI (XI (XO (XO (XO (XO XH))))))))))) (bexp u)

(** val radix_zeros : nat -> z -> z -> z -> z * z **)

let rec radix_zeros fuel r u zeros =
  match fuel with
  | O -> (u, zeros)
  | S f ->
    let q = f_div_small u r in
    if exp_positive q
    then radix_zeros f r q (Z.add zeros (Zpos XH))
    else (u, zeros)

(** val radix_digits : nat -> z -> z -> ustr -> ustr **)

let rec radix_digits fuel r u acc =
  match fuel with
  | O -> acc
  | S f ->
    let (a, b) = ratio u in
    let v = Z.div a b in
    let rem = Z.modulo v r in
    let acc' = (digit_char rem) :: acc in
    let next = f_div_small (round_nneg (Z.sub v rem) (Zpos XH)) r in
    if Z.leb next Z0 then acc' else radix_digits f r next acc'

(** val radix_int_model : z -> z -> ustr option **)

let radix_int_model bits r =
  let u = mag bits in
  (match int_value u with
   | Some _ ->
     if Z.eqb u Z0
     then Some ((Zpos (XO (XO (XO (XO (XI XH)))))) :: [])
     else let (u1, zeros) =
            radix_zeros (S (S (S (S (S (S (S (S (S (S (S (S (S (S (S (S (S (S
              (S (S (S (S (S (S (S (S (S (S (S (S (S (S (S (S (S (S (S (S (S
              (S (S (S (S (S (S (S (S (S (S (S (S (S (S (S (S (S (S (S (S (S
              (S (S (S (S (S (S (S (S (S (S (S (S (S (S (S (S (S (S (S (S (S
              (S (S (S (S (S (S (S (S (S (S (S (S (S (S (S (S (S (S (S (S (S
              (S (S (S (S (S (S (S (S (S (S (S (S (S (S (S (S (S (S (S (S (S
              (S (S (S (S (S (S (S (S (S (S (S (S (S (S (S (S (S (S (S (S (S
              (S (S (S (S (S (S (S (S (S (S (S (S (S (S (S (S (S (S (S (S (S
              (S (S (S (S (S (S (S (S (S (S (S (S (S (S (S (S (S (S (S (S (S
              (S (S (S (S (S (S (S (S (S (S (S (S (S (S (S (S (S (S (S (S (S
              (S (S (S (S (S (S (S (S (S (S (S (S (S (S (S (S (S (S (S (S (S
              (S (S (S (S (S (S (S (S (S (S (S (S (S (S (S (S (S (S (S (S (S
              (S (S (S (S (S (S (S (S (S (S (S (S (S (S (S (S (S (S (S (S (S
              (S (S (S (S (S (S (S (S (S (S (S (S (S (S (S (S (S (S (S (S (S
              (S (S (S (S (S (S (S (S (S (S (S (S (S (S (S (S (S (S (S (S (S
              (S (S (S (S (S (S (S (S (S (S (S (S (S (S (S (S (S (S (S (S (S
              (S (S (S (S (S (S (S (S (S (S (S (S (S (S (S (S (S (S (S (S (S
              (S (S (S (S (S (S (S (S (S (S (S (S (S (S (S (S (S (S (S (S (S
              (S (S (S (S (S (S (S (S (S (S (S (S (S (S (S (S (S (S (S (S (S
              (S (S (S (S (S (S (S (S (S (S (S (S (S (S (S (S (S (S (S (S (S
              (S (S (S (S (S (S (S (S (S (S (S (S (S (S (S (S (S (S (S (S (S
              (S (S (S (S (S (S (S (S (S (S (S (S (S (S (S (S (S (S (S (S (S
              (S (S (S (S (S (S (S (S (S (S (S (S (S (S (S (S (S (S (S (S (S
              (S (S (S (S (S (S (S (S (S (S (S (S (S (S (S (S (S (S (S (S (S
              (S (S (S (S (S (S (S (S (S (S (S (S (S (S (S (S (S (S (S (S (S
              (S (S (S (S (S (S (S (S (S (S (S (S (S (S (S (S (S (S (S (S (S
              (S (S (S (S (S (S (S (S (S (S (S (S (S (S (S (S (S (S (S (S (S
              (S (S (S (S (S (S (S (S (S (S (S (S (S (S (S (S (S (S (S (S (S
              (S (S (S (S (S (S (S (S (S (S (S (S (S (S (S (S (S (S (S (S (S
              (S (S (S (S (S (S (S (S (S (S (S (S (S (S (S (S (S (S (S (S (S
              (S (S (S (S (S (S (S (S (S (S (S (S (S (S (S (S (S (S (S (S (S
              (S (S (S (S (S (S (S (S (S (S (S (S (S (S (S (S (S (S (S (S (S
              (S (S (S (S (S (S (S (S (S (S (S (S (S (S (S (S (S (S (S (S (S
              (S (S (S (S (S (S (S (S (S (S (S (S (S (S (S (S (S (S (S (S (S
              (S (S (S (S (S (S (S (S (S (S (S (S (S (S (S (S (S (S (S (S (S
              (S (S (S (S (S (S (S (S (S (S (S (S (S (S (S (S (S (S (S (S (S
              (S (S (S (S (S (S (S (S (S (S (S (S (S (S (S (S (S (S (S (S (S
              (S (S (S (S (S (S (S (S (S (S (S (S (S (S (S (S (S (S (S (S (S
              (S (S (S (S (S (S (S (S (S (S (S (S (S (S (S (S (S (S (S (S (S
              (S (S (S (S (S (S (S (S (S (S (S (S (S (S (S (S (S (S (S (S (S
              (S (S (S (S (S (S (S (S (S (S (S (S (S (S (S (S (S (S (S (S (S
              (S (S (S (S (S (S (S (S (S (S (S (S (S (S (S (S (S (S (S (S (S
              (S (S (S (S (S (S (S (S (S (S (S (S (S (S (S (S (S (S (S (S (S
              (S (S (S (S (S (S (S (S (S (S (S (S (S (S (S (S (S (S (S (S (S
              (S (S (S (S (S (S (S (S (S (S (S (S (S (S (S (S (S (S (S (S (S
              (S (S (S (S (S (S (S (S (S (S (S (S (S (S (S (S (S (S (S (S (S
              (S (S (S (S (S (S (S (S (S (S (S (S (S (S (S (S (S (S (S (S (S
              (S (S (S (S (S (S (S (S (S (S (S (S (S (S (S (S (S (S (S (S (S
              (S (S (S (S (S (S (S (S (S (S (S (S (S (S (S (S (S (S (S (S (S
              (S (S (S (S (S (S (S (S (S (S (S (S (S (S (S (S (S (S (S (S (S
              (S (S (S (S (S (S (S (S (S (S (S (S (S (S (S (S (S (S (S (S (S
              (S (S (S (S (S (S (S (S (S (S (S (S (S (S (S (S (S (S (S (S (S
              (S (S (S (S (S (S (S (S (S (S (S
              O))))))))))))))))))))))))))))))))))))))))))))))))))))))))))))))))))))))))))))))))))))))))))))))))))))))))))))))))))))))))))))))))))))))))))))))))))))))))))))))))))))))))))))))))))))))))))))))))))))))))))))))))))))))))))))))))))))))))))))))))))))))))))))))))))))))))))))))))))))))))))))))))))))))))))))))))))))))))))))))))))))))))))))))))))))))))))))))))))))))))))))))))))))))))))))))))))))))))))))))))))))))))))))))))))))))))))))))))))))))))))))))))))))))))))))))))))))))))))))))))))))))))))))))))))))))))))))))))))))))))))))))))))))))))))))))))))))))))))))))))))))))))))))))))))))))))))))))))))))))))))))))))))))))))))))))))))))))))))))))))))))))))))))))))))))))))))))))))))))))))))))))))))))))))))))))))))))))))))))))))))))))))))))))))))))))))))))))))))))))))))))))))))))))))))))))))))))))))))))))))))))))))))))))))))))))))))))))))))))))))))))))))))))))))))))))))))))))))))))))))))))))))))))))))))))))))))))))))))))))))))))))))))))))))))))))))))))))))))))))))))))))))))))))))))))))))))))))))))))))))))))))))))))))))))))))))))))))))))))))))))))))))))))))))))))))))))))))))))))))))))))))))))))))))))))
              r u Z0
          in
          Some
          (app
            (if is_neg bits
             then (Zpos (XI (XO (XI (XI (XO XH)))))) :: []
             else [])
            (app
              (radix_digits (S (S (S (S (S (S (S (S (S (S (S (S (S (S (S (S
                (S (S (S (S (S (S (S (S (S (S (S (S (S (S (S (S (S (S (S (S
                (S (S (S (S (S (S (S (S (S (S (S (S (S (S (S (S (S (S (S (S
                (S (S (S (S (S (S (S (S (S (S (S (S (S (S (S (S (S (S (S (S
                (S (S (S (S (S (S (S (S (S (S (S (S (S (S (S (S (S (S (S (S
                (S (S (S (S (S (S (S (S (S (S (S (S (S (S (S (S (S (S (S (S
                (S (S (S (S (S (S (S (S (S (S (S (S (S (S (S (S (S (S (S (S
                (S (S (S (S (S (S (S (S (S (S (S (S (S (S (S (S (S (S (S (S
                (S (S (S (S (S (S (S (S (S (S (S (S (S (S (S (S (S (S (S (S
                (S (S (S (S (S (S (S (S (S (S (S (S (S (S (S (S (S (S (S (S
                (S (S (S (S (S (S (S (S (S (S (S (S (S (S (S (S (S (S (S (S
                (S (S (S (S (S (S (S (S (S (S (S (S (S (S (S (S (S (S (S (S
                (S (S (S (S (S (S (S (S (S (S (S (S (S (S (S (S (S (S (S (S
                (S (S (S (S (S (S (S (S (S (S (S (S (S (S (S (S (S (S (S (S
                (S (S (S (S (S (S (S (S (S (S (S (S (S (S (S (S (S (S (S (S
                (S (S (S (S (S (S (S (S (S (S (S (S (S (S (S (S (S (S (S (S
                (S (S (S (S (S (S (S (S (S (S (S (S (S (S (S (S (S (S (S (S
                (S (S (S (S (S (S (S (S (S (S (S (S (S (S (S (S (S (S (S (S
                (S (S (S (S (S (S (S (S (S (S (S (S (S (S (S (S (S (S (S (S
                (S (S (S (S (S (S (S (S (S (S (S (S (S (S (S (S (S (S (S (S
                (S (S (S (S (S (S (S (S (S (S (S (S (S (S (S (S (S (S (S (S
                (S (S (S (S (S (S (S (S (S (S (S (S (S (S (S (S (S (S (S (S
                (S (S (S (S (S (S (S (S (S (S (S (S (S (S (S (S (S (S (S (S
                (S (S (S (S (S (S (S (S (S (S (S (S (S (S (S (S (S (S (S (S
                (S (S (S (S (S (S (S (S (S (S (S (S (S (S (S (S (S (S (S (S
                (S (S (S (S (S (S (S (S (S (S (S (S (S (S (S (S (S (S (S (S
                (S (S (S (S (S (S (S (S (S (S (S (S (S (S (S (S (S (S (S (S
                (S (S (S (S (S (S (S (S (S (S (S (S (S (S (S (S (S (S (S (S
                (S (S (S (S (S (S (S (S (S (S (S (S (S (S (S (S (S (S (S (S
                (S (S (S (S (S (S (S (S (S (S (S (S (S (S (S (S (S (S (S (S
                (S (S (S (S (S (S (S (S (S (S (S (S (S (S (S (S (S (S (S (S
                (S (S (S (S (S (S (S (S (S (S (S (S (S (S (S (S (S (S (S (S
                (S (S (S (S (S (S (S (S (S (S (S (S (S (S (S (S (S (S (S (S
                (S (S (S (S (S (S (S (S (S (S (S (S (S (S (S (S (S (S (S (S
                (S (S (S (S (S (S (S (S (S (S (S (S (S (S (S (S (S (S (S (S
                (S (S (S (S (S (S (S (S (S (S (S (S (S (S (S (S (S (S (S (S
                (S (S (S (S (S (S (S (S (S (S (S (S (S (S (S (S (S (S (S (S
                (S (S (S (S (S (S (S (S (S (S (S (S (S (S (S (S (S (S (S (S
                (S (S (S (S (S (S (S (S (S (S (S (S (S (S (S (S (S (S (S (S
                (S (S (S (S (S (S (S (S (S (S (S (S (S (S (S (S (S (S (S (S
                (S (S (S (S (S (S (S (S (S (S (S (S (S (S (S (S (S (S (S (S
                (S (S (S (S (S (S (S (S (S (S (S (S (S (S (S (S (S (S (S (S
                (S (S (S (S (S (S (S (S (S (S (S (S (S (S (S (S (S (S (S (S
                (S (S (S (S (S (S (S (S (S (S (S (S (S (S (S (S (S (S (S (S
                (S (S (S (S (S (S (S (S (S (S (S (S (S (S (S (S (S (S (S (S
                (S (S (S (S (S (S (S (S (S (S (S (S (S (S (S (S (S (S (S (S
                (S (S (S (S (S (S (S (S (S (S (S (S (S (S (S (S (S (S (S (S
                (S (S (S (S (S (S (S (S (S (S (S (S (S (S (S (S (S (S (S (S
                (S (S (S (S (S (S (S (S (S (S (S (S (S (S (S (S (S (S (S (S
                (S (S (S (S (S (S (S (S (S (S (S (S (S (S (S (S (S (S (S (S
                (S (S (S (S (S (S (S (S (S (S (S (S (S (S (S (S (S (S (S (S
                (S (S (S (S (S (S (S (S (S (S (S (S (S (S (S (S (S (S (S (S
                (S (S (S (S (S (S (S (S (S (S (S (S (S (S (S (S (S (S (S (S
                (S (S (S (S (S (S (S (S (S (S (S (S (S (S (S (S (S (S (S (S
                (S (S (S (S (S (S (S (S (S (S (S (S (S (S (S (S (S (S (S (S
                (S (S (S (S
                O))))))))))))))))))))))))))))))))))))))))))))))))))))))))))))))))))))))))))))))))))))))))))))))))))))))))))))))))))))))))))))))))))))))))))))))))))))))))))))))))))))))))))))))))))))))))))))))))))))))))))))))))))))))))))))))))))))))))))))))))))))))))))))))))))))))))))))))))))))))))))))))))))))))))))))))))))))))))))))))))))))))))))))))))))))))))))))))))))))))))))))))))))))))))))))))))))))))))))))))))))))))))))))))))))))))))))))))))))))))))))))))))))))))))))))))))))))))))))))))))))))))))))))))))))))))))))))))))))))))))))))))))))))))))))))))))))))))))))))))))))))))))))))))))))))))))))))))))))))))))))))))))))))))))))))))))))))))))))))))))))))))))))))))))))))))))))))))))))))))))))))))))))))))))))))))))))))))))))))))))))))))))))))))))))))))))))))))))))))))))))))))))))))))))))))))))))))))))))))))))))))))))))))))))))))))))))))))))))))))))))))))))))))))))))))))))))))))))))))))))))))))))))))))))))))))))))))))))))))))))))))))))))))))))))))))))))))))))))))))))))))))))))))))))))))))))))))))))))))))))))))))))))))))))))))))))))))))))))))))))))))))))))))))))))))))))))))))))))))))))))))))))))))))))))))
                r u1 []) (zrepeat (Zpos (XO (XO (XO (XO (XI XH)))))) zeros)))
   | None -> None)

(** val round_half_even : z -> z -> z -> z **)

let round_half_even a b p =
  let (n0, d) = scale10 a b p in
  let q = Z.div n0 d in
  let r2 = Z.mul (Zpos (XO XH)) (Z.modulo n0 d) in
  if Z.ltb d r2
  then Z.add q (Zpos XH)
  else if Z.ltb r2 d then q else if Z.even q then q else Z.add q (Zpos XH)

(** val exp_digits_even : z -> z -> z -> z * z **)

let exp_digits_even a b f =
  let e = Z.sub (dec_exp a b) (Zpos XH) in
  let n0 = round_half_even a b (Z.sub f e) in
  if Z.eqb n0 (Z.pow (Zpos (XO (XI (XO XH)))) (Z.add f (Zpos XH)))
  then ((Z.pow (Zpos (XO (XI (XO XH)))) f), (Z.add e (Zpos XH)))
  else (n0, e)

(** val to_exponential_model : z -> z option -> res **)

let to_exponential_model bits fd =
  let u = mag bits in
  if Z.leb iNF u
  then Str (to_string_spec bits)
  else let bad =
         match fd with
         | Some f ->
           (||) (Z.ltb f Z0) (Z.ltb (Zpos (XO (XO (XI (XO (XO (XI XH))))))) f)
         | None -> false
       in
       if bad
       then RangeError
       else let sgn =
              if (&&) (is_neg bits) (negb (Z.eqb u Z0))
              then (Zpos (XI (XO (XI (XI (XO XH)))))) :: []
              else []
            in
            if Z.eqb u Z0
            then Str
                   (app sgn
                     (app
                       (mantissa_point
                         (zrepeat (Zpos (XO (XO (XO (XO (XI XH))))))
                           (match fd with
                            | Some f -> Z.add f (Zpos XH)
                            | None -> Zpos XH))) (exp_part Z0)))
            else let (n0, e) =
                   match fd with
                   | Some f -> let (a, b) = ratio u in exp_digits_even a b f
                   | None ->
                     (match shortest u with
                      | Some p ->
                        let (p0, n0) = p in
                        let (s, _) = p0 in (s, (Z.sub n0 (Zpos XH)))
                      | None -> (Z0, Z0))
                 in
                 Str
                 (app sgn (app (mantissa_point (dec_str n0)) (exp_part e)))

(** val fixed100 : z -> z -> ustr **)

let fixed100 a b =
  let n0 = round_half_even a b (Zpos (XO (XO (XI (XO (XO (XI XH))))))) in
  let ds = dec_str n0 in
  let k = Z.of_nat (length ds) in
  let ds0 =
    if Z.leb k (Zpos (XO (XO (XI (XO (XO (XI XH)))))))
    then app
           (zrepeat (Zpos (XO (XO (XO (XO (XI XH))))))
             (Z.sub (Zpos (XI (XO (XI (XO (XO (XI XH))))))) k)) ds
    else ds
  in
  let k0 = Z.of_nat (length ds0) in
  app (take (Z.sub k0 (Zpos (XO (XO (XI (XO (XO (XI XH)))))))) ds0)
    (app ((Zpos (XO (XI (XI (XI (XO XH)))))) :: [])
      (drop (Z.sub k0 (Zpos (XO (XO (XI (XO (XO (XI XH)))))))) ds0))

(** val flt_str_to_exp_loop : ustr -> z -> bool -> bool -> z -> z **)

let rec flt_str_to_exp_loop s i non_zero dot len =
  match s with
  | [] -> Z.sub len (Zpos XH)
  | c :: r ->
    if Z.eqb c (Zpos (XO (XI (XI (XI (XO XH))))))
    then if non_zero
         then Z.sub i (Zpos XH)
         else flt_str_to_exp_loop r (Z.add i (Zpos XH)) non_zero true len
    else if negb (Z.eqb c (Zpos (XO (XO (XO (XO (XI XH)))))))
         then if dot
              then Z.sub (Zpos XH) i
              else flt_str_to_exp_loop r (Z.add i (Zpos XH)) true dot len
         else flt_str_to_exp_loop r (Z.add i (Zpos XH)) non_zero dot len

(** val flt_str_to_exp : ustr -> z **)

let flt_str_to_exp s =
  flt_str_to_exp_loop s Z0 false false (Z.of_nat (length s))

(** val carry_loop : ustr -> bool -> ustr * bool **)

let rec carry_loop rev_digits propagated =
  match rev_digits with
  | [] -> ([], propagated)
  | c :: r ->
    let d =
      if propagated
      then c
      else if (&&) (Z.leb (Zpos (XO (XO (XO (XO (XI XH)))))) c)
                (Z.leb c (Zpos (XO (XO (XO (XI (XI XH)))))))
           then Z.add c (Zpos XH)
           else Zpos (XO (XO (XO (XO (XI XH)))))
    in
    let p' =
      (||) propagated (negb (Z.eqb d (Zpos (XO (XO (XO (XO (XI XH))))))))
    in
    let (rest, pf) = carry_loop r p' in ((d :: rest), pf)

(** val round_to_precision : ustr -> z -> ustr * bool **)

let round_to_precision digits precision =
  let len = Z.of_nat (length digits) in
  if Z.ltb precision len
  then let to_round = drop precision digits in
       let kept = take precision digits in
       let last =
         nth (Z.to_nat (Z.sub precision (Zpos XH))) kept (Zpos (XO (XO (XO
           (XO (XI XH))))))
       in
       let body = take (Z.sub precision (Zpos XH)) kept in
       let digit =
         match to_round with
         | [] -> last
         | first :: _ ->
           if Z.ltb (Zpos (XO (XO (XI (XO (XI XH)))))) first
           then Z.add last (Zpos XH)
           else last
       in
       if Z.eqb digit (Zpos (XO (XI (XO (XI (XI XH))))))
       then let (repl_tail, propagated) = carry_loop (rev body) false in
            if propagated
            then ((rev ((Zpos (XO (XO (XO (XO (XI XH)))))) :: repl_tail)),
                   false)
            else (((Zpos (XI (XO (XO (XO (XI XH)))))) :: (rev repl_tail)),
                   true)
       else ((app body (digit :: [])), false)
  else ((app digits
          (zrepeat (Zpos (XO (XO (XO (XO (XI XH)))))) (Z.sub precision len))),
         false)

(** val find_dot : ustr -> nat option **)

let rec find_dot = function
| [] -> None
| c :: r ->
  if Z.eqb c (Zpos (XO (XI (XI (XI (XO XH))))))
  then Some O
  else option_map (fun x -> S x) (find_dot r)

(** val remove_at : nat -> ustr -> ustr **)

let remove_at n0 s =
  app (firstn n0 s) (skipn (S n0) s)

(** val insert_at : z -> z -> ustr -> ustr **)

let insert_at n0 c s =
  app (take n0 s) (app (c :: []) (drop n0 s))

(** val int_str : z -> ustr **)

let int_str e =
  app (if Z.ltb e Z0 then (Zpos (XI (XO (XI (XI (XO XH)))))) :: [] else [])
    (dec_str (Z.abs e))

(** val to_precision_model : z -> z option -> res **)

let to_precision_model bits = function
| Some p ->
  let u = mag bits in
  if Z.leb iNF u
  then Str (to_string_spec bits)
  else if (||) (Z.ltb p (Zpos XH))
            (Z.ltb (Zpos (XO (XO (XI (XO (XO (XI XH))))))) p)
       then RangeError
       else let prefix =
              if (&&) (is_neg bits) (negb (Z.eqb u Z0))
              then (Zpos (XI (XO (XI (XI (XO XH)))))) :: []
              else []
            in
            let (p0, finished) =
              if Z.eqb u Z0
              then (((zrepeat (Zpos (XO (XO (XO (XO (XI XH)))))) p), Z0),
                     false)
              else let (a, b) = ratio u in
                   let s0 = fixed100 a b in
                   let e0 = flt_str_to_exp s0 in
                   let s1 =
                     if Z.ltb e0 Z0
                     then drop (Z.sub (Zpos XH) e0) s0
                     else (match find_dot s0 with
                           | Some n0 -> remove_at n0 s0
                           | None -> s0)
                   in
                   let (s2, bump) = round_to_precision s1 p in
                   let e1 = if bump then Z.add e0 (Zpos XH) else e0 in
                   let great = Z.leb p e1 in
                   if (||) (Z.ltb e1 (Zneg (XO (XI XH)))) great
                   then let s3 =
                          if Z.ltb (Zpos XH) p
                          then insert_at (Zpos XH) (Zpos (XO (XI (XI (XI (XO
                                 XH)))))) s2
                          else s2
                        in
                        (((app s3
                            (app ((Zpos (XI (XO (XI (XO (XO (XI
                              XH))))))) :: [])
                              (app
                                (if great
                                 then (Zpos (XI (XI (XO (XI (XO XH)))))) :: []
                                 else []) (int_str e1)))), e1), true)
                   else ((s2, e1), false)
            in
            let (suffix, exponent) = p0 in
            if finished
            then Str (app prefix suffix)
            else let e_inc = Z.add exponent (Zpos XH) in
                 if Z.eqb e_inc p
                 then Str (app prefix suffix)
                 else if Z.leb Z0 exponent
                      then Str
                             (app prefix
                               (insert_at e_inc (Zpos (XO (XI (XI (XI (XO
                                 XH)))))) suffix))
                      else Str
                             (app prefix
                               (app ((Zpos (XO (XO (XO (XO (XI
                                 XH)))))) :: ((Zpos (XO (XI (XI (XI (XO
                                 XH)))))) :: []))
                                 (app
                                   (zrepeat (Zpos (XO (XO (XO (XO (XI
                                     XH)))))) (Z.opp e_inc)) suffix)))
| None -> Str (to_string_spec bits)
