#!/bin/sh
# Builds the model driver from the extracted code.  coq/C04/Extract_C04.v writes _build/c04_model.ml{,i};
# every compiled output stays under _build/ (git-ignored), nothing is written next to the sources.
set -e
cd "$(dirname "$0")"
mkdir -p _build
if [ ! -f _build/c04_model.ml ]; then echo "missing _build/c04_model.ml (build coq/C04/Extract_C04.vo first)" >&2; exit 3; fi
if [ -x _build/c04_model ] && [ _build/c04_model -nt _build/c04_model.ml ] && [ _build/c04_model -nt c04_driver.ml ]; then exit 0; fi
cp c04_driver.ml _build/c04_driver.ml
cd _build
ocamlfind ocamlopt -O2 -w -a c04_model.mli c04_model.ml c04_driver.ml -o c04_model.tmp 2>/dev/null || \
ocamlfind ocamlopt -w -a c04_model.mli c04_model.ml c04_driver.ml -o c04_model.tmp
mv c04_model.tmp c04_model
