(* Driver for the extracted C04 scope-analysis model.
   stdin lines:  run <id> <strict 0|1> <sexp>      sexp = list of statement nodes, node = (tag field ...)
   stdout:       <id>\tok\t<scope>;<scope>;...\t<honest>\t<wf>\t<ev_ok>\t<occ_ok>\t<reach_ok>\t<sem_hyp>
                 scope = uid outer|- is_function [name flag_bits]*      (flag bits as in scope.rs BindingFlags)
   The S-expression reader, the node decoder and the printer are the only hand-written OCaml in the model path. *)
open C04_model

type sx = A of int | L of sx list

let parse (s : string) : sx =
  let len = String.length s in
  let pos = ref 0 in
  let skip () = while !pos < len && s.[!pos] = ' ' do incr pos done in
  let rec item () : sx =
    skip ();
    if !pos >= len then failwith "eof"
    else if s.[!pos] = '(' then begin
      incr pos;
      let items = ref [] in
      let fin = ref false in
      while not !fin do
        skip ();
        if !pos >= len then failwith "unterminated"
        else if s.[!pos] = ')' then (incr pos; fin := true)
        else items := item () :: !items
      done;
      L (List.rev !items)
    end else begin
      let st = !pos in
      while !pos < len && s.[!pos] >= '0' && s.[!pos] <= '9' do incr pos done;
      if !pos = st then failwith "bad atom";
      A (int_of_string (String.sub s st (!pos - st)))
    end in
  item ()

let rec pos_of_int (i : int) : positive =
  if i = 1 then XH else if i land 1 = 0 then XO (pos_of_int (i lsr 1)) else XI (pos_of_int (i lsr 1))
let n_of_int (i : int) : n = if i = 0 then N0 else Npos (pos_of_int i)
let rec int_of_pos = function XH -> 1 | XO p -> 2 * int_of_pos p | XI p -> 2 * int_of_pos p + 1
let int_of_n = function N0 -> 0 | Npos p -> int_of_pos p
let rec int_of_nat = function O -> 0 | S k -> 1 + int_of_nat k
let nat_of_int (i : int) : nat = let rec go acc k = if k = 0 then acc else go (S acc) (k - 1) in go O i

let b = function A 0 -> false | A _ -> true | _ -> failwith "bool"
let nm = function A i -> n_of_int i | _ -> failwith "name"
let names = function L l -> List.map nm l | _ -> failwith "names"
let optname = function L [] -> None | L [x] -> Some (nm x) | _ -> failwith "optname"

let rec node (s : sx) : node =
  match s with
  | L (A tag :: f) -> begin
      match tag, f with
      | 0, [x] -> NId (nm x)
      | 1, [] -> NThis
      | 2, [ks] -> NOp (nodes ks)
      | 3, [fn; args] -> NCall (node fn, nodes args)
      | 4, [fname; st; ps; bd] -> NFun (optname fname, b st, nodes ps, nodes bd)
      | 5, [st; ps; bd] -> NArrow (b st, nodes ps, nodes bd)
      | 6, [st; key; ps; bd] -> NMethod (b st, nodes key, nodes ps, nodes bd)
      | 7, [cn; h; c; es] -> NClass (optname cn, nodes h, nodes c, nodes es)
      | 8, [ps; bd] -> NCMethod (nodes ps, nodes bd)
      | 9, [key; init] -> NField (nodes key, nodes init)
      | 10, [bd] -> NStaticBlock (nodes bd)
      | 11, [simple; bound; inits] -> NPat (b simple, names bound, nodes inits)
      | 12, [p; init; rest] -> NParam (node p, nodes init, b rest)
      | 13, [ds] -> NVar (nodes ds)
      | 14, [c; ds] -> NLex (b c, nodes ds)
      | 15, [p; init] -> NDeclr (node p, nodes init)
      | 16, [fname; st; ps; bd] -> NFunDecl (nm fname, b st, nodes ps, nodes bd)
      | 17, [cn; h; c; es] -> NClassDecl (nm cn, nodes h, nodes c, nodes es)
      | 18, [ks] -> NBlock (nodes ks)
      | 19, [es; ss] -> NCtl (nodes es, nodes ss)
      | 20, [i; c; u; bd] -> NFor (nodes i, nodes c, nodes u, node bd)
      | 21, [h; e; bd] -> NForIn (node h, node e, node bd)
      | 22, [d; cs] -> NSwitch (node d, nodes cs)
      | 23, [t; bd] -> NCase (nodes t, nodes bd)
      | 24, [p; blk] -> NCatch (nodes p, nodes blk)
      | 25, [o; bd] -> NWith (node o, node bd)
      | _ -> failwith (Printf.sprintf "bad node tag %d" tag)
    end
  | _ -> failwith "node"
and nodes = function L l -> List.map node l | _ -> failwith "nodes"

let flag_bits (x : binding) : int =
  (if x.b_mut then 1 else 0) lor (if x.b_lex then 2 else 0) lor (if x.b_strict then 4 else 0)
  lor (if x.b_esc then 8 else 0) lor (if x.b_acc then 16 else 0)

let print_scope buf uid (s : scope) =
  Buffer.add_string buf (string_of_int uid);
  Buffer.add_char buf ' ';
  (match s.s_outer with Some o -> Buffer.add_string buf (string_of_int (int_of_nat o)) | None -> Buffer.add_char buf '-');
  Buffer.add_string buf (if s.s_fun then " 1" else " 0");
  List.iter (fun x -> Buffer.add_string buf (Printf.sprintf " [%d %d]" (int_of_n x.b_name) (flag_bits x))) s.s_binds

let bs x = if x then "1" else "0"

(* operand expressions of Deep2_C04: (0) literal  (1) this  (2 x) local x  (3 x e) assignment to x  (4 a b) binary
   (5 o) o.p  (6 o k) o[k]  (7 a b) two sub-expressions in sequence  (8 c a b) conditional *)
let rec ex_of (s : sx) : ex =
  match s with
  | L [A 0] -> Lit Z0
  | L [A 1] -> This
  | L [A 2; A x] -> Loc (nat_of_int x)
  | L [A 3; A x; e] -> Asg (nat_of_int x, ex_of e)
  | L [A 4; a; b'] -> Bin (ex_of a, ex_of b')
  | L [A 5; o] -> Mem (ex_of o)
  | L [A 6; o; k] -> Idx (ex_of o, ex_of k)
  | L [A 7; a; b'] -> Seq (ex_of a, ex_of b')
  | L [A 8; c; a; b'] -> Cond (ex_of c, ex_of a, ex_of b')
  | _ -> failwith "ex"

let decision (line : string) : string =
  match String.split_on_char ' ' line with
  | "dec-op" :: id :: rest ->
      (match ex_of (parse (String.concat " " rest)) with
       | Bin (a, b') -> id ^ "\t" ^ bs (snapshot_new a b')
       | _ -> id ^ "\tbad")
  | ["dec-upd"; id; loc; dst] ->
      let code = postfix_code_new (nat_of_int (int_of_string loc)) (nat_of_int (int_of_string dst)) in
      id ^ "\t" ^ String.concat ";" (List.map (function
        | IMove (d, s) -> Printf.sprintf "Move %d %d" (int_of_nat d) (int_of_nat s)
        | IInc (d, s) -> Printf.sprintf "Inc %d %d" (int_of_nat d) (int_of_nat s)) code)
  | ["dec-hoist"; id; lhs_eff; is_do; under_with] ->
      id ^ "\t" ^ bs (hoist_ok_new (lhs_eff <> "0") (is_do <> "0") (under_with <> "0"))
  | _ -> "?\tbad"

let () =
  try
    while true do
      let line = input_line stdin in
      if String.length line > 4 && String.sub line 0 4 = "dec-" then print_endline (decision line) else
      if String.length line > 4 && String.sub line 0 4 = "run " then begin
        let rest = String.sub line 4 (String.length line - 4) in
        let sp1 = String.index rest ' ' in
        let id = String.sub rest 0 sp1 in
        let rest2 = String.sub rest (sp1 + 1) (String.length rest - sp1 - 1) in
        let sp2 = String.index rest2 ' ' in
        let strict = String.sub rest2 0 sp2 <> "0" in
        let sx = String.sub rest2 (sp2 + 1) (String.length rest2 - sp2 - 1) in
        let out =
          try
            let stmts = nodes (parse sx) in
            let r = run_report strict stmts in
            let sem = sem_hyp strict stmts in
            let buf = Buffer.create 1024 in
            List.iteri (fun i s -> if i > 0 then Buffer.add_char buf ';'; print_scope buf i s) r.r_table;
            Printf.sprintf "ok\t%s\t%s\t%s\t%s\t%s\t%s\t%s" (Buffer.contents buf) (bs r.r_honest) (bs r.r_wf) (bs r.r_ev_ok) (bs r.r_occ_ok) (bs r.r_reach_ok) (bs sem)
          with
          | Stack_overflow -> "stackoverflow"
          | Failure m -> "badinput:" ^ m
        in
        print_string id; print_char '\t'; print_endline out
      end
    done
  with End_of_file -> ()
