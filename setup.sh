#!/bin/bash
# MANIFEST.setup_cmd: build the framework from files on disk only (offline).
# Everything here is also (re)done incrementally by the checks themselves; this only warms the caches.
set -u
cd "$(dirname "$0")"
export CARGO_NET_OFFLINE=true PYTHONDONTWRITEBYTECODE=1
python3 tools/setup.py "$@"
