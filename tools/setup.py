"""Warm all caches: regenerate translator outputs, build every Coq theory, the OCaml drivers and the harness."""
import os
import sys
HERE = os.path.dirname(os.path.dirname(os.path.abspath(__file__)))
sys.path.insert(0, os.path.join(HERE, "lib"))
sys.path.insert(0, os.path.join(HERE, "tools"))
import vlib


def main():
    rc = 0
    # translators
    try:
        import gen_all
        for p in gen_all.generate_all(vlib.REPO):
            print("setup: translator problem (reported by the owning check): %s" % p)
    except Exception as e:
        print("setup: translator problem (reported by the checks): %s" % e)
    # Coq: everything
    os.makedirs(os.path.join(vlib.OCAML, "gen"), exist_ok=True)
    vlib.coq_project()
    files = vlib.coq_files()
    ok, log = vlib.coq_make([f + "o" for f in files], timeout=7200)
    print("setup: coq build", "ok" if ok else "FAILED")
    if not ok:
        print(log[-3000:])
        rc = 1
    # OCaml drivers
    if os.path.exists(os.path.join(vlib.OCAML, "build.sh")):
        r, out, err = vlib.sh(["bash", "build.sh"], cwd=vlib.OCAML, timeout=3600)
        print("setup: ocaml build", "ok" if r == 0 else "FAILED")
        if r != 0:
            print((out + err)[-3000:])
            rc = 1
    # harness: all bins, debug; plus the variants the checks use
    bins = sorted(f[:-3] for f in os.listdir(os.path.join(vlib.HARNESS, "src", "bin")) if f.endswith(".rs"))
    ok, _, log = vlib.harness_build(bins, timeout=7200)
    print("setup: harness build", "ok" if ok else "FAILED")
    if not ok:
        print(log[-3000:])
        rc = 1
    ok, _, log = vlib.harness_build(["val"], features=["jsvalue-enum"], target_dir=os.path.join(vlib.HARNESS, "target-enum"), timeout=7200)
    print("setup: harness (jsvalue-enum) build", "ok" if ok else "FAILED")
    if not ok:
        print(log[-3000:])
        rc = 1
    return 0   # problems are printed above and reported by the owning check; setup itself only warms caches


if __name__ == "__main__":
    sys.exit(main())
