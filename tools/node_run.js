// V8 reference runner: same line protocol and output format as harness/src/bin/js.rs.
// Used only inside the false-alarm filter (DESIGN.md 1.2): it can withhold an alarm, never raise one.
const vm = require('vm');
const readline = require('readline');
function units(s) {
  let o = '"';
  for (let i = 0; i < s.length; i++) {
    const c = s.charCodeAt(i);
    if (c === 0x22) o += '\\"';
    else if (c === 0x5c) o += '\\\\';
    else if (c >= 0x20 && c <= 0x7e) o += s[i];
    else o += '\\u' + c.toString(16).padStart(4, '0');
  }
  return o + '"';
}
function unescapeLine(s) {
  let out = '';
  for (let i = 0; i < s.length; i++) {
    if (s[i] === '\\' && i + 1 < s.length) {
      const n = s[i + 1];
      if (n === 'n') { out += '\n'; i++; }
      else if (n === 'r') { out += '\r'; i++; }
      else if (n === 't') { out += '\t'; i++; }
      else if (n === '"') { out += '"'; i++; }
      else if (n === '\\') { out += '\\'; i++; }
      else if (n === 'u' && i + 5 < s.length + 0) { out += String.fromCharCode(parseInt(s.substr(i + 2, 4), 16)); i += 5; }
      else out += s[i];
    } else out += s[i];
  }
  return out;
}
function typeText(ctx, v) {
  const ty = typeof v;
  if (v === null) return 'object:"null"';
  if (ty === 'object' || ty === 'function') return ty + ':[' + ty + ']';
  if (ty === 'symbol') return 'symbol:' + units(v.toString());
  return ty + ':' + units(String(v));
}
const ERR = ['TypeError', 'RangeError', 'ReferenceError', 'SyntaxError', 'EvalError', 'URIError', 'AggregateError', 'Error'];
function errorClass(ctx, e) {
  if ((typeof e === 'object' && e !== null) || typeof e === 'function') {
    // classify inside the context (its own Error constructors); the proto-chain walk mirrors JSRef/Driver.v error_class_of
    let cls;
    try {
      cls = vm.runInContext('(function(e, names){ if (Object.prototype.toString.call(e) !== "[object Error]") return null;' +
        ' for (const n of names) { const C = globalThis[n]; if (typeof C === "function" && e instanceof C) return n; } return "Error"; })', ctx)(e, ERR);
    } catch (x) { cls = null; }
    if (cls === null && e instanceof Error) {
      for (const n of ERR) { if (e instanceof global[n]) return 'T:' + n; }
    }
    if (cls) return 'T:' + cls;
    return 'T:throw:object';
  }
  return 'T:throw:' + typeText(ctx, e);
}
async function runCase(id, text, entry) {
  const trace = [];
  const sandbox = {};
  const ctx = vm.createContext(sandbox);
  vm.runInContext('globalThis.print = undefined;', ctx);
  ctx.print = vm.runInContext('(function(sink){ return function print(...a){ sink(a.map(x => String(x)).join(" ")); }; })', ctx)((s) => { trace.push(units(s)); });
  let comp;
  try {
    let script;
    try { script = new vm.Script(text); } catch (e) { comp = (e && e.name === 'SyntaxError') ? 'E:SyntaxError' : errorClass(ctx, e); }
    if (script) {
      let v = script.runInContext(ctx, { timeout: 5000 });
      if (entry === 'call') { const m = vm.runInContext('typeof main === "function" ? main : undefined', ctx); v = m ? m() : undefined; }
      comp = 'V:' + typeText(ctx, v);
    }
  } catch (e) {
    comp = (e && e.code === 'ERR_SCRIPT_EXECUTION_TIMEOUT') ? 'timeout' : errorClass(ctx, e);
  }
  await new Promise((r) => setImmediate(r));
  await new Promise((r) => setImmediate(r));
  process.stdout.write(id + '\tok\t[' + trace.join(',') + ']\t' + comp + '\n');
}
(async () => {
  const rl = readline.createInterface({ input: process.stdin, crlfDelay: Infinity });
  let entry = 'eval';
  for await (const line of rl) {
    if (line.startsWith('cfg ')) { const m = /entry=(\w+)/.exec(line); if (m) entry = m[1]; continue; }
    if (!line.startsWith('run ')) continue;
    const rest = line.slice(4);
    const sp = rest.indexOf(' ');
    const id = sp < 0 ? rest : rest.slice(0, sp);
    const text = sp < 0 ? '' : unescapeLine(rest.slice(sp + 1));
    try { await runCase(id, text, entry); } catch (e) { process.stdout.write(id + '\tpanic\t[]\tP:' + String(e) + '\n'); }
  }
})();
