"""rs2v: a translator from a small pure subset of Rust to Gallina (N/Z/bool with explicit wrap).

Subset: `const NAME: T = expr;`  and  `[pub(..)] [const] fn name(args) -> T { lets; [guard-ifs;] expr }`
over u8/u16/u32/u64/usize (as N, with `mod 2^w` written out where an operation can wrap), i32/i64
(as Z), bool, and f64 *as its bit pattern* (N) with the methods is_nan / to_bits / from_bits.
Operators:  & | ^ << >> + - * == != < <= > >= && || !  if/else  `as`  parentheses.
Anything else raises Unsupported: the caller reports that as a broken proof obligation; it is never
skipped silently.

The output is deterministic text so that an unchanged source regenerates a byte-identical .v file
(and the cached .vo stays valid).
"""
import re


class Unsupported(Exception):
    pass


TOK = re.compile(r"""
    (?P<ws>\s+|//[^\n]*)
  | (?P<num>0[xX][0-9a-fA-F_]+|0[bB][01_]+|[0-9][0-9_]*(?:\.[0-9]+)?)(?P<suf>u8|u16|u32|u64|usize|i8|i16|i32|i64|isize|f64|f32)?
  | (?P<id>[A-Za-z_][A-Za-z0-9_]*)
  | (?P<op><<|>>|==|!=|<=|>=|&&|\|\||::|->|=>|[-+*/%&|^!<>=(){}\[\],;:.#])
""", re.X)

WIDTH = {"u8": 8, "u16": 16, "u32": 32, "u64": 64, "usize": 64, "i8": 8, "i16": 16, "i32": 32, "i64": 64, "isize": 64}
UNSIGNED = {"u8", "u16", "u32", "u64", "usize"}
SIGNED = {"i8", "i16", "i32", "i64", "isize"}


def tokenize(src):
    pos, out = 0, []
    while pos < len(src):
        m = TOK.match(src, pos)
        if not m:
            raise Unsupported("cannot tokenize at %r" % src[pos:pos + 30])
        pos = m.end()
        if m.group("ws"):
            continue
        if m.group("num") is not None:
            out.append(("num", m.group("num"), m.group("suf")))
        elif m.group("id"):
            out.append(("id", m.group("id"), None))
        else:
            out.append(("op", m.group("op"), None))
    return out


# enum constructors known to the translator: Rust path -> (Gallina constructor, parameter types, type)
CTORS = {}


class P:
    """Typed recursive-descent translator.  env: name -> (gallina name, type)."""

    def __init__(self, toks, env, consts, fns, prefix="", ctors=None):
        self.t, self.i, self.env, self.consts, self.fns, self.prefix = toks, 0, dict(env), consts, fns, prefix
        self.ctors = ctors if ctors is not None else CTORS

    def peek(self, k=0):
        return self.t[self.i + k] if self.i + k < len(self.t) else ("eof", "", None)

    def eat(self, val=None):
        tk = self.peek()
        if val is not None and tk[1] != val:
            raise Unsupported("expected %r, found %r" % (val, tk[1]))
        self.i += 1
        return tk

    def at(self, val):
        return self.peek()[1] == val and self.peek()[0] in ("op", "id")

    # precedence climbing, Rust levels (low -> high): || && cmp | ^ & shift +- */ as unary
    def expr(self):
        return self.p_or()

    def p_or(self):
        a = self.p_and()
        while self.at("||"):
            self.eat()
            b = self.p_and()
            a = self.boolop("orb", a, b)
        return a

    def p_and(self):
        a = self.p_cmp()
        while self.at("&&"):
            self.eat()
            b = self.p_cmp()
            a = self.boolop("andb", a, b)
        return a

    def boolop(self, f, a, b):
        if a[1] != "bool" or b[1] != "bool":
            raise Unsupported("boolean operator on non-bool")
        return ("(%s %s %s)" % (f, a[0], b[0]), "bool")

    def p_cmp(self):
        a = self.p_bor()
        if self.peek()[0] == "op" and self.peek()[1] in ("==", "!=", "<", "<=", ">", ">="):
            op = self.eat()[1]
            b = self.p_bor()
            a, b = self.unify(a, b)
            ty = a[1]
            if ty == "bool":
                if op == "==":
                    return ("(Bool.eqb %s %s)" % (a[0], b[0]), "bool")
                if op == "!=":
                    return ("(negb (Bool.eqb %s %s))" % (a[0], b[0]), "bool")
                raise Unsupported("ordering on bool")
            if ty == "f64":
                raise Unsupported("float comparison")
            m = "N" if ty in UNSIGNED else "Z"
            tbl = {"==": "(%s.eqb %s %s)", "!=": "(negb (%s.eqb %s %s))", "<": "(%s.ltb %s %s)",
                   "<=": "(%s.leb %s %s)"}
            if op in tbl:
                return (tbl[op] % (m, a[0], b[0]), "bool")
            if op == ">":
                return ("(%s.ltb %s %s)" % (m, b[0], a[0]), "bool")
            return ("(%s.leb %s %s)" % (m, b[0], a[0]), "bool")
        return a

    def unify(self, a, b):
        if a[1] == b[1]:
            return a, b
        if a[1] == "option:?" and b[1].startswith("option:"):
            return (a[0], b[1]), b
        if b[1] == "option:?" and a[1].startswith("option:"):
            return a, (b[0], a[1])
        if a[1] == "int?":
            return self.lit_as(a, b[1]), b
        if b[1] == "int?":
            return a, self.lit_as(b, a[1])
        raise Unsupported("type mismatch %s vs %s" % (a[1], b[1]))

    def lit_as(self, lit, ty):
        if ty in UNSIGNED:
            return ("%s%%N" % lit[0], ty)
        if ty in SIGNED:
            return ("%s%%Z" % lit[0], ty)
        raise Unsupported("literal as %s" % ty)

    def binlevel(self, sub, ops):
        a = sub()
        while self.peek()[0] == "op" and self.peek()[1] in ops:
            op = self.eat()[1]
            b = sub()
            a, b = self.unify(a, b) if op not in ("<<", ">>") else (a, b)
            a = self.arith(op, a, b)
        return a

    def p_bor(self):
        return self.binlevel(self.p_xor, ("|",))

    def p_xor(self):
        return self.binlevel(self.p_band, ("^",))

    def p_band(self):
        return self.binlevel(self.p_shift, ("&",))

    def p_shift(self):
        return self.binlevel(self.p_add, ("<<", ">>"))

    def p_add(self):
        return self.binlevel(self.p_mul, ("+", "-"))

    def p_mul(self):
        return self.binlevel(self.p_as, ("*",))

    def arith(self, op, a, b):
        ty = a[1]
        if ty == "int?" and b[1] == "int?":
            ty = "int?"
        if ty == "bool":
            tbl = {"|": "orb", "&": "andb", "^": "xorb"}
            if op in tbl and b[1] == "bool":
                return ("(%s %s %s)" % (tbl[op], a[0], b[0]), "bool")
            raise Unsupported("arithmetic on bool")
        if ty in UNSIGNED or ty == "int?":
            w = WIDTH.get(ty, 64)
            bs = b[0] if b[1] != "int?" else "%s%%N" % b[0]
            as_ = a[0] if a[1] != "int?" else "%s%%N" % a[0]
            if op == "&":
                return ("(N.land %s %s)" % (as_, bs), ty if ty != "int?" else "u64")
            if op == "|":
                return ("(N.lor %s %s)" % (as_, bs), ty if ty != "int?" else "u64")
            if op == "^":
                return ("(N.lxor %s %s)" % (as_, bs), ty if ty != "int?" else "u64")
            if op == "<<":
                # Rust: shifting by >= width panics in debug / is masked in release; the subset only
                # allows literal shift amounts below the width
                if b[1] != "int?" or int(b[0]) >= w:
                    raise Unsupported("shift by non-literal or >= width")
                return ("(N.modulo (N.shiftl %s %s) (2 ^ %d))" % (as_, bs, w), ty if ty != "int?" else "u64")
            if op == ">>":
                if b[1] != "int?" or int(b[0]) >= w:
                    raise Unsupported("shift by non-literal or >= width")
                return ("(N.shiftr %s %s)" % (as_, bs), ty if ty != "int?" else "u64")
            if op == "+":
                return ("(N.modulo (%s + %s) (2 ^ %d))" % (as_, bs, w), ty if ty != "int?" else "u64")
            if op == "*":
                return ("(N.modulo (%s * %s) (2 ^ %d))" % (as_, bs, w), ty if ty != "int?" else "u64")
            if op == "-":
                return ("(N.modulo (%s + 2 ^ %d - %s) (2 ^ %d))" % (as_, w, bs, w), ty if ty != "int?" else "u64")
        raise Unsupported("operator %s on %s" % (op, ty))

    def p_as(self):
        a = self.p_unary()
        while self.at("as"):
            self.eat()
            ty = self.eat()[1]
            a = self.cast(a, ty)
        return a

    def cast(self, a, ty):
        src = a[1]
        if src == "int?":
            return self.lit_as(a, ty)
        if src == ty:
            return a
        if src == "bool" and ty in UNSIGNED:
            return ("(u64_of_bool %s)" % a[0], ty)
        if src in UNSIGNED and ty in UNSIGNED:
            if WIDTH[ty] >= WIDTH[src]:
                return (a[0], ty)
            return ("(N.modulo %s (2 ^ %d))" % (a[0], WIDTH[ty]), ty)
        if src == "i32" and ty in ("u64", "usize"):
            return ("(u64_of_i32 %s)" % a[0], ty)
        if src in ("u64", "usize") and ty == "i32":
            return ("(i32_of_u64 %s)" % a[0], ty)
        raise Unsupported("cast %s as %s" % (src, ty))

    def p_unary(self):
        if self.at("!"):
            self.eat()
            a = self.p_unary()
            if a[1] == "bool":
                return ("(negb %s)" % a[0], "bool")
            raise Unsupported("bitwise not")
        if self.at("-"):
            # only the literal -0f64 is supported
            self.eat()
            tk = self.eat()
            if tk[0] == "num" and tk[2] == "f64" and float(tk[1].replace("_", "")) == 0.0:
                return self.postfix(("9223372036854775808%N", "f64"))
            raise Unsupported("unary minus")
        return self.postfix(self.primary())

    def postfix(self, a):
        while self.at("."):
            self.eat()
            name = self.eat()[1]
            self.eat("(")
            self.eat(")")
            if a[1] == "f64" and name == "to_bits":
                a = (a[0], "u64")
            elif a[1] == "f64" and name == "is_nan":
                a = ("(f64_is_nan %s)" % a[0], "bool")
            elif a[1] == "addr" and name in ("addr", "get"):
                a = (a[0], "addr")
            else:
                raise Unsupported("method .%s() on %s" % (name, a[1]))
        if a[1] == "addr" and self.at("as"):
            self.eat()
            ty = self.eat()[1]
            if ty not in ("u64", "usize"):
                raise Unsupported("address cast")
            a = (a[0], ty)
        return a

    def primary(self):
        tk = self.peek()
        if tk[0] == "num":
            self.eat()
            txt = tk[1].replace("_", "")
            if "." in txt:
                raise Unsupported("float literal")
            v = int(txt, 0)
            if tk[2]:
                return self.lit_as((str(v), "int?"), tk[2])
            return (str(v), "int?")
        if tk[1] == "(":
            self.eat()
            a = self.expr()
            self.eat(")")
            return a
        if tk[1] == "if":
            return self.p_if()
        if tk[1] == "match":
            return self.p_match()
        if tk[1] == "unsafe" and self.peek(1)[1] == "{":
            self.eat()
            self.eat("{")
            a = self.expr()
            self.eat("}")
            return a
        if tk[1] == "{":
            self.eat()
            a = self.expr()
            self.eat("}")
            return a
        if tk[0] == "id":
            self.eat()
            name = tk[1]
            # paths
            while self.at("::"):
                self.eat()
                name = name + "::" + self.eat()[1]
            if name in ("f64::NAN",):
                # Rust std: f64::NAN is the quiet NaN 0x7FF8_0000_0000_0000 (core::f64::consts docs)
                return ("9221120237041090560%N", "f64")
            if name == "f64::from_bits":
                self.eat("(")
                a = self.expr()
                self.eat(")")
                if a[1] not in ("u64",):
                    raise Unsupported("from_bits of %s" % a[1])
                return (a[0], "f64")
            if name in ("true", "false"):
                return (name, "bool")
            if name == "None":
                return ("None", "option:?")
            if name == "Some":
                self.eat("(")
                a = self.expr()
                self.eat(")")
                if a[1] == "int?":
                    raise Unsupported("Some(untyped literal)")
                return ("(Some %s)" % a[0], "option:" + a[1])
            if name in self.ctors:
                g, ptys, rty = self.ctors[name]
                args = []
                if ptys:
                    self.eat("(")
                    while not self.at(")"):
                        args.append(self.expr())
                        if self.at(","):
                            self.eat()
                    self.eat(")")
                if len(args) != len(ptys):
                    raise Unsupported("constructor arity %s" % name)
                cooked = []
                for a, pt in zip(args, ptys):
                    if a[1] == "int?":
                        a = self.lit_as(a, pt)
                    if a[1] != pt and not ({a[1], pt} <= {"u64", "usize"}):
                        raise Unsupported("constructor %s: argument %s for %s" % (name, a[1], pt))
                    cooked.append(a[0])
                return ("(%s %s)" % (g, " ".join(cooked)) if cooked else g, rty)
            short = name.split("::")[-1]
            if self.at("("):
                if short not in self.fns:
                    raise Unsupported("call of unknown function %s" % name)
                self.eat("(")
                args = []
                while not self.at(")"):
                    args.append(self.expr())
                    if self.at(","):
                        self.eat()
                self.eat(")")
                ptys, rty = self.fns[short]
                if len(ptys) != len(args):
                    raise Unsupported("arity of %s" % name)
                cooked = []
                for a, pt in zip(args, ptys):
                    if a[1] == "int?":
                        a = self.lit_as(a, pt)
                    if a[1] != pt:
                        raise Unsupported("argument type %s for %s" % (a[1], pt))
                    cooked.append(a[0])
                return ("(%s%s %s)" % (self.prefix, short, " ".join(cooked)), rty)
            if name in self.env:
                return self.env[name]
            if short in self.consts:
                return ("%s%s" % (self.prefix, short), self.consts[short])
            raise Unsupported("unknown identifier %s" % name)
        raise Unsupported("unexpected token %r" % (tk[1],))

    def p_if(self):
        self.eat("if")
        c = self.expr()
        if c[1] != "bool":
            raise Unsupported("if condition not bool")
        self.eat("{")
        a = self.block_expr()
        self.eat("}")
        self.eat("else")
        if self.at("if"):
            b = self.p_if()
        else:
            self.eat("{")
            b = self.block_expr()
            self.eat("}")
        a, b = self.unify(a, b)
        return ("(if %s then %s else %s)" % (c[0], a[0], b[0]), a[1])

    def block_expr(self):
        return self.expr()

    def p_match(self):
        """match e { PAT => expr, ..., _ => expr }  with constant / literal patterns."""
        self.eat("match")
        scrut = self.expr()
        if scrut[1] == "int?" or scrut[1] == "bool" or scrut[1] == "f64":
            raise Unsupported("match scrutinee type")
        self.eat("{")
        arms, default = [], None
        while not self.at("}"):
            if self.at("_"):
                self.eat()
                pat = None
            else:
                save_env = self.env
                pat = self.p_bor()
                if pat[1] == "int?":
                    pat = self.lit_as(pat, scrut[1])
                if pat[1] != scrut[1]:
                    raise Unsupported("pattern type %s vs %s" % (pat[1], scrut[1]))
            self.eat("=>")
            body = self.expr()
            if self.at(","):
                self.eat()
            if pat is None:
                default = body
                if not self.at("}"):
                    raise Unsupported("arms after wildcard")
            else:
                arms.append((pat, body))
        self.eat("}")
        if default is None:
            raise Unsupported("match without wildcard arm")
        res = default
        m = "N" if scrut[1] in UNSIGNED else "Z"
        for pat, body in reversed(arms):
            body, res = self.unify(body, res)
            res = ("(if %s.eqb scrut_ %s then %s else %s)" % (m, pat[0], body[0], res[0]), body[1])
        return ("(let scrut_ := %s in %s)" % (scrut[0], res[0]), res[1])


def strip_attrs_and_docs(src):
    src = re.sub(r"///[^\n]*", "", src)
    src = re.sub(r"//[^\n]*", "", src)
    src = re.sub(r"#\[[^\]]*\]", "", src)
    return src


def find_block(src, start):
    """src[start] == '{'; return index just after the matching '}'."""
    depth = 0
    for i in range(start, len(src)):
        if src[i] == "{":
            depth += 1
        elif src[i] == "}":
            depth -= 1
            if depth == 0:
                return i + 1
    raise Unsupported("unbalanced braces")


def extract_mod(src, modname):
    m = re.search(r"\bmod\s+%s\s*\{" % re.escape(modname), src)
    if not m:
        raise Unsupported("module %s not found" % modname)
    end = find_block(src, m.end() - 1)
    return src[m.end():end - 1]


GTYPE = {"bool": "bool", "f64": "N", "addr": "N"}


def gty(t):
    if t in UNSIGNED:
        return "N"
    if t in SIGNED:
        return "Z"
    if t.startswith("option:"):
        return "(option %s)" % gty(t[7:])
    return GTYPE.get(t, t)


RET_TYPES = {}   # extra Rust return-type names -> translator types (e.g. Self -> u64)


def norm_type(t):
    t = t.strip()
    m = re.match(r"Option<\s*(\w+)\s*>$", t)
    if m:
        return "option:" + norm_type(m.group(1))
    return RET_TYPES.get(t, t)


def translate_items(body, prefix="", header="", consts=None, fns=None):
    """Translate all const / fn items of a module body.  Returns (gallina text, info dict)."""
    body = strip_attrs_and_docs(body)
    out = [header] if header else []
    consts = {} if consts is None else consts
    fns = {} if fns is None else fns
    info = {"consts": [], "fns": []}
    pos = 0
    item_re = re.compile(r"\s*(?:pub\s*(?:\([^)]*\))?\s*)?(?:(const)\s+([A-Z_][A-Z0-9_]*)\s*:\s*(\w+)\s*=|(?:const\s+)?fn\s+(\w+)\s*(<[^>]*>)?\s*\(|(use)\s[^;]*;)", re.S)
    while True:
        m = item_re.match(body, pos)
        if not m:
            rest = body[pos:].strip()
            if rest:
                raise Unsupported("item outside the subset: %r" % rest[:60])
            break
        if m.group(6):
            pos = m.end()
            continue
        if m.group(1):
            name, ty = m.group(2), m.group(3)
            end = body.index(";", m.end())
            toks = tokenize(body[m.end():end])
            p = P(toks, {}, consts, fns, prefix)
            e = p.expr()
            if p.i != len(toks):
                raise Unsupported("trailing tokens in const %s" % name)
            if e[1] == "int?":
                e = p.lit_as(e, ty)
            if e[1] != ty and not (ty == "u64" and e[1] == "u64"):
                raise Unsupported("const %s: type %s vs %s" % (name, e[1], ty))
            out.append("Definition %s%s : %s := %s." % (prefix, name, gty(ty), e[0]))
            consts[name] = ty
            info["consts"].append(name)
            pos = end + 1
        else:
            name = m.group(4)
            close = body.index(")", m.end())
            params = []
            for part in body[m.end():close].split(","):
                part = part.strip()
                if not part:
                    continue
                pn, pt = [x.strip() for x in part.split(":", 1)]
                if pt.startswith("NonNull<"):
                    pt = "addr"
                pt = norm_type(pt)
                params.append((pn, pt))
            mret = re.match(r"\s*->\s*(Option<\s*\w+\s*>|\w+)\s*\{", body[close + 1:])
            if not mret:
                raise Unsupported("fn %s: no return type" % name)
            rty = norm_type(mret.group(1))
            bstart = close + 1 + mret.end() - 1
            bend = find_block(body, bstart)
            fbody = body[bstart + 1:bend - 1]
            text, partial = translate_fn_body(name, params, rty, fbody, consts, fns, prefix)
            args = " ".join("(%s : %s)" % (pn, gty(pt)) for pn, pt in params)
            rg = gty(rty)
            if partial:
                rg = "option " + rg
            out.append("Definition %s%s %s : %s :=\n  %s." % (prefix, name, args, rg, text))
            fns[name] = ([pt for _, pt in params], rty if not partial else "option:" + rty)
            info["fns"].append({"name": name, "params": params, "ret": rty, "partial": partial})
            pos = bend
    return "\n".join(out) + "\n", info


def translate_fn_body(name, params, rty, fbody, consts, fns, prefix):
    """Body = nested diverging fn items (skipped, must contain panic!), let statements,
    `if c { diverging(); }` guards, final expression.  Returns (gallina, is_partial)."""
    env = {pn: (pn, pt) for pn, pt in params}
    diverging = set()
    # nested fns
    while True:
        m = re.search(r"\bfn\s+(\w+)\s*\(\s*\)\s*\{", fbody)
        if not m:
            break
        end = find_block(fbody, m.end() - 1)
        inner = fbody[m.end():end - 1]
        if "panic!" not in inner:
            raise Unsupported("nested fn %s is not a panic" % m.group(1))
        diverging.add(m.group(1))
        fbody = fbody[:m.start()] + fbody[end:]
    lets = []
    partial = False
    guards = []
    rest = fbody.strip()
    while True:
        m = re.match(r"let\s+(\w+)\s*(?::\s*(\w+))?\s*=\s*", rest)
        if m:
            end = rest.index(";")
            toks = tokenize(rest[m.end():end])
            p = P(toks, env, consts, fns, prefix)
            e = p.expr()
            if p.i != len(toks):
                raise Unsupported("trailing tokens in let")
            if m.group(2) and e[1] == "int?":
                e = p.lit_as(e, m.group(2))
            if m.group(2) and e[1] != m.group(2):
                raise Unsupported("let type mismatch")
            # shadowing: fresh Gallina name
            gname = m.group(1)
            k = 0
            while any(gname == v[0] for v in env.values()):
                k += 1
                gname = "%s_%d" % (m.group(1), k)
            lets.append(("let", gname, e[0]))
            env[m.group(1)] = (gname, e[1])
            rest = rest[end + 1:].strip()
            continue
        m = re.match(r"if\s+", rest)
        if m:
            # guard if:  if cond { diverging(); }   (no else)
            b = rest.index("{")
            bend = find_block(rest, b)
            inner = rest[b + 1:bend - 1].strip()
            after = rest[bend:].strip()
            mcall = re.match(r"(\w+)\s*\(\s*\)\s*;?$", inner)
            if mcall and mcall.group(1) in diverging and not after.startswith("else"):
                toks = tokenize(rest[m.end():b])
                p = P(toks, env, consts, fns, prefix)
                c = p.expr()
                if c[1] != "bool" or p.i != len(toks):
                    raise Unsupported("guard condition")
                lets.append(("guard", c[0], None))
                partial = True
                rest = after
                continue
        break
    toks = tokenize(rest)
    p = P(toks, env, consts, fns, prefix)
    e = p.expr()
    if p.i != len(toks):
        raise Unsupported("fn %s: trailing tokens %r" % (name, toks[p.i:p.i + 4]))
    if e[1] == "int?":
        e = p.lit_as(e, rty)
    if e[1] != rty and not (rty == "usize" and e[1] == "u64") and not (rty == "u64" and e[1] == "usize"):
        raise Unsupported("fn %s returns %s, declared %s" % (name, e[1], rty))
    text = ("Some %s" % e[0]) if partial else e[0]
    for kind, a, b in reversed(lets):
        if kind == "let":
            text = "let %s := %s in\n  %s" % (a, b, text)
        else:
            text = "if %s then None else\n  %s" % (a, text)
    return text, partial
