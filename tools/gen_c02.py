"""Regenerate coq/Gen/FastPaths.v (C02) from the i32 fast paths of
   core/engine/src/value/operations.rs                 (`*_fast` helpers used by the opcode handlers, and the
                                                        (Integer32, Integer32) arms of JsValue::{add,...,neg},
                                                        the route the constant folder and the public API take)
   core/engine/src/vm/opcode/unary_ops/{increment,decrement}.rs   (guarded `number + 1` / `number - 1`)
   core/engine/src/vm/opcode/binary_ops/macro_defined.rs, control_flow/jump.rs   (which helper an opcode calls)

rs2v.py's expression subset has no signed arithmetic, method chains or closures, so this module has its own
typed recursive-descent translator for exactly the shapes these arms use (it reuses rs2v's tokenizer and block
finder and raises rs2v.Unsupported for anything else -- a refusal is a broken proof obligation, never skipped).
Every Rust operator that can panic becomes a call of the corresponding partial primitive of
coq/C02/Model_C02.v (`i32_add p`, `i32_rem`, ...), threaded through the `res` monad in evaluation order;
`checked_*`/`wrapping_*`/casts become the total primitives.  The output is deterministic text.
"""
import os
import re
import sys

sys.path.insert(0, os.path.dirname(os.path.abspath(__file__)))
import rs2v
from rs2v import Unsupported

OPS_RS = "core/engine/src/value/operations.rs"
INC_RS = "core/engine/src/vm/opcode/unary_ops/increment.rs"
DEC_RS = "core/engine/src/vm/opcode/unary_ops/decrement.rs"
BIN_RS = "core/engine/src/vm/opcode/binary_ops/macro_defined.rs"
JUMP_RS = "core/engine/src/vm/opcode/control_flow/jump.rs"

BINOPS = ["add", "sub", "mul", "div", "rem", "pow", "bitand", "bitor", "bitxor", "shl", "shr", "ushr"]
CMPOPS = ["lt", "le", "gt", "ge"]
EQOPS = ["equals", "not_equals"]
CTOR = {"add": "Add", "sub": "Sub", "mul": "Mul", "div": "Div", "rem": "Rem", "pow": "Pow", "bitand": "BitAnd",
        "bitor": "BitOr", "bitxor": "BitXor", "shl": "Shl", "shr": "Shr", "ushr": "UShr", "lt": "Lt", "le": "Le",
        "gt": "Gt", "ge": "Ge", "equals": "Eq", "not_equals": "Ne"}
# opcode -> (JsValue method of the slow path, fast helper) as written in implement_bin_ops!(...)
EXPECT_OPCODES = {"Add": ("add", "add_fast"), "Sub": ("sub", "sub_fast"), "Mul": ("mul", "mul_fast"), "Div": ("div", "div_fast"),
                  "Pow": ("pow", "pow_fast"), "Mod": ("rem", "rem_fast"), "BitAnd": ("bitand", "bitand_fast"),
                  "BitOr": ("bitor", "bitor_fast"), "BitXor": ("bitxor", "bitxor_fast"), "ShiftLeft": ("shl", "shl_fast"),
                  "ShiftRight": ("shr", "shr_fast"), "UnsignedShiftRight": ("ushr", "ushr_fast"), "Eq": ("equals", "equals_fast"),
                  "NotEq": ("not_equals", "not_equals_fast"), "GreaterThan": ("gt", "gt_fast"), "GreaterThanOrEq": ("ge", "ge_fast"),
                  "LessThan": ("lt", "lt_fast"), "LessThanOrEq": ("le", "le_fast")}
EXPECT_JUMPS = {"JumpIfNotLessThan": "lt", "JumpIfNotLessThanOrEqual": "le", "JumpIfNotGreaterThan": "gt",
                "JumpIfNotGreaterThanOrEqual": "ge"}

GTY = {"i32": "Z", "u32": "Z", "usize": "Z", "f64": "fexp", "bool": "bool", "jsval": "jsval"}


def gty(t):
    if t.startswith("opt:"):
        return "(option %s)" % gty(t[4:])
    if t.startswith("pair:"):
        a, b = split_pair(t)
        return "(%s * %s)" % (gty(a), gty(b))
    return GTY[t]


def split_pair(t):
    body = t[5:]
    depth = 0
    for i, c in enumerate(body):
        if c == "[":
            depth += 1
        elif c == "]":
            depth -= 1
        elif c == "," and depth == 0:
            return body[:i], body[i + 1:]
    raise Unsupported("bad pair type " + t)


class E:
    """A translated expression: Gallina text, translator type, and whether it is pure (type T) or in the
    `res` monad (type `res T`)."""

    def __init__(self, code, ty, pure=True):
        self.code, self.ty, self.pure = code, ty, pure

    def lifted(self):
        return self.code if not self.pure else "(Ok %s)" % self.code


class Closure:
    def __init__(self, params, toks, env):
        self.params, self.toks, self.env = params, toks, env


class FnValue:
    """A path used as a function value (`Self::new` as the second argument of map_or_else)."""

    def __init__(self, name):
        self.name = name


class T:
    INTS = ("i32", "u32", "usize")
    RANGES = {"i32": (-2 ** 31, 2 ** 31 - 1), "u32": (0, 2 ** 32 - 1), "usize": (0, 2 ** 64 - 1)}

    def __init__(self, toks, env):
        self.t, self.i, self.env = toks, 0, dict(env)
        self.fresh = [0]

    def sub(self, toks, env):
        s = self.__class__(toks, env)
        s.fresh = self.fresh
        return s

    def gensym(self, base="t"):
        self.fresh[0] += 1
        return "%s%d_" % (base, self.fresh[0])

    def peek(self, k=0):
        return self.t[self.i + k] if self.i + k < len(self.t) else ("eof", "", None)

    def eat(self, val=None):
        tk = self.peek()
        if val is not None and tk[1] != val:
            raise Unsupported("expected %r, found %r" % (val, tk[1]))
        self.i += 1
        return tk

    def at(self, val):
        return self.peek()[1] == val and self.peek()[0] in ("op", "id")

    def done(self):
        return self.i >= len(self.t)

    # ---- monadic plumbing -------------------------------------------------------------------
    def seq(self, args, f):
        """Evaluate `args` left to right; f(codes) -> E built from pure operand codes."""
        if all(a.pure for a in args):
            return f([a.code for a in args])
        names, binds = [], []
        for a in args:
            if a.pure:
                names.append(a.code)
            else:
                n = self.gensym()
                names.append(n)
                binds.append((a.code, n))
        inner = f(names)
        code = inner.lifted()
        for c, n in reversed(binds):
            code = "(bind %s (fun %s => %s))" % (c, n, code)
        return E(code, inner.ty, False)

    # ---- blocks and statements --------------------------------------------------------------
    def block(self):
        """stmt* [expr]; returns E.  `if c { ...return... }` without else continues with the rest."""
        if self.at("if"):
            save = self.i
            self.eat("if")
            c = self.expr_nostruct()
            self.eat("{")
            inner_toks = self.until_close("{", "}")
            if self.at("else"):
                self.i = save
                e = self.expr()
                return self.finish_stmt(e)
            inner = self.sub(inner_toks, self.env)
            a = inner.block()
            if not inner.done():
                raise Unsupported("trailing tokens in if-block")
            if not getattr(a, "returns", False):
                raise Unsupported("`if` statement without else whose block does not return")
            rest = self.block()
            a, rest = self.unify(a, rest)
            r = self.ite(c, a, rest)
            r.returns = getattr(rest, "returns", False)
            return r
        if self.at("return"):
            self.eat("return")
            e = self.expr()
            if self.at(";"):
                self.eat(";")
            if not self.done():
                raise Unsupported("code after return")
            e.returns = True
            return e
        if self.at("let"):
            raise Unsupported("let statement in a fast-path arm")
        e = self.expr()
        return self.finish_stmt(e)

    def finish_stmt(self, e):
        if self.at(";"):
            raise Unsupported("expression statement")
        if not self.done():
            raise Unsupported("trailing tokens %r" % (self.t[self.i:self.i + 4],))
        return e

    def until_close(self, op, cl):
        """self.i is just after an opening bracket; returns the tokens up to the matching close and skips it."""
        depth, start = 1, self.i
        while True:
            tk = self.peek()
            if tk[0] == "eof":
                raise Unsupported("unbalanced %s" % op)
            if tk[0] == "op" and tk[1] == op:
                depth += 1
            elif tk[0] == "op" and tk[1] == cl:
                depth -= 1
                if depth == 0:
                    toks = self.t[start:self.i]
                    self.i += 1
                    return toks
            self.i += 1

    def ite(self, c, a, b):
        if c.ty != "bool":
            raise Unsupported("condition is not bool")
        if a.pure and b.pure and c.pure:
            return E("(if %s then %s else %s)" % (c.code, a.code, b.code), a.ty, True)
        n = self.gensym("c")
        if c.pure:
            return E("(if %s then %s else %s)" % (c.code, a.lifted(), b.lifted()), a.ty, False)
        return E("(bind %s (fun %s => if %s then %s else %s))" % (c.code, n, n, a.lifted(), b.lifted()), a.ty, False)

    def unify(self, a, b):
        if a.ty == b.ty:
            return a, b
        if a.ty == "int?" and b.ty in self.INTS:
            return self.lit_as(a, b.ty), b
        if b.ty == "int?" and a.ty in self.INTS:
            return a, self.lit_as(b, a.ty)
        if a.ty == "float?" and b.ty == "f64":
            return self.flit(a), b
        if b.ty == "float?" and a.ty == "f64":
            return a, self.flit(b)
        if a.ty == "opt:?" and b.ty.startswith("opt:"):
            return E(a.code, b.ty, a.pure), b
        if b.ty == "opt:?" and a.ty.startswith("opt:"):
            return a, E(b.code, a.ty, b.pure)
        raise Unsupported("type mismatch %s vs %s" % (a.ty, b.ty))

    def lit_as(self, e, ty):
        v = int(e.code)
        if ty not in self.RANGES:
            raise Unsupported("literal as %s" % ty)
        lo, hi = self.RANGES[ty]
        if not lo <= v <= hi:
            raise Unsupported("literal out of %s range" % ty)
        return E("(%d)" % v if v < 0 else "%d" % v, ty, True)

    def flit(self, e):
        v = e.code
        if v in ("0.0", "0"):
            return E("FPosZero", "f64", True)
        if v in ("-0.0", "-0"):
            return E("FNegZero", "f64", True)
        raise Unsupported("float literal %s" % v)

    # ---- expressions: || && cmp | ^ & shift +- */% as unary postfix -------------------------------
    def expr(self):
        return self.p_or()

    def expr_nostruct(self):
        return self.p_or()

    def p_or(self):
        a = self.p_and()
        while self.at("||"):
            self.eat()
            b = self.p_and()
            a = self.shortcircuit(a, b, True)
        return a

    def p_and(self):
        a = self.p_cmp()
        while self.at("&&"):
            self.eat()
            b = self.p_cmp()
            a = self.shortcircuit(a, b, False)
        return a

    def shortcircuit(self, a, b, is_or):
        if a.ty != "bool" or b.ty != "bool":
            raise Unsupported("boolean operator on %s, %s" % (a.ty, b.ty))
        if b.pure:
            return self.seq([a], lambda c: E("(%s %s %s)" % ("orb" if is_or else "andb", c[0], b.code), "bool", True))
        # the right operand can panic: keep Rust's short-circuit evaluation
        def k(c):
            if is_or:
                return E("(if %s then Ok true else %s)" % (c[0], b.code), "bool", False)
            return E("(if %s then %s else Ok false)" % (c[0], b.code), "bool", False)
        if a.pure:
            return k([a.code])
        n = self.gensym()
        inner = k([n])
        return E("(bind %s (fun %s => %s))" % (a.code, n, inner.code), "bool", False)

    def p_cmp(self):
        a = self.p_bor()
        if self.peek()[0] == "op" and self.peek()[1] in ("==", "!=", "<", "<=", ">", ">="):
            op = self.eat()[1]
            b = self.p_bor()
            a, b = self.unify(a, b)
            if a.ty == "int?":
                a, b = self.lit_as(a, "i32"), self.lit_as(b, "i32")
            if a.ty == "bool" and op in ("==", "!="):
                f = "(Bool.eqb %s %s)" if op == "==" else "(negb (Bool.eqb %s %s))"
                return self.seq([a, b], lambda c: E(f % (c[0], c[1]), "bool", True))
            if a.ty not in self.INTS:
                raise Unsupported("comparison on %s" % a.ty)
            tbl = {"==": "(Z.eqb %s %s)", "!=": "(negb (Z.eqb %s %s))", "<": "(Z.ltb %s %s)", "<=": "(Z.leb %s %s)",
                   ">": "(Z.gtb %s %s)", ">=": "(Z.geb %s %s)"}
            return self.seq([a, b], lambda c: E(tbl[op] % (c[0], c[1]), "bool", True))
        return a

    def binlevel(self, sub, ops):
        a = sub()
        while self.peek()[0] == "op" and self.peek()[1] in ops:
            # `|` / `||` at expression-start positions are closures and never reach here
            op = self.eat()[1]
            b = sub()
            a = self.arith(op, a, b)
        return a

    def p_bor(self):
        return self.binlevel(self.p_xor, ("|",))

    def p_xor(self):
        return self.binlevel(self.p_band, ("^",))

    def p_band(self):
        return self.binlevel(self.p_shift, ("&",))

    def p_shift(self):
        return self.binlevel(self.p_add, ("<<", ">>"))

    def p_add(self):
        return self.binlevel(self.p_mul, ("+", "-"))

    def p_mul(self):
        return self.binlevel(self.p_as, ("*", "/", "%"))

    def arith(self, op, a, b):
        a, b = self.unify(a, b)
        ty = a.ty
        if ty == "int?":
            raise Unsupported("arithmetic on two untyped literals")
        if ty == "i32":
            if op in ("+", "-", "*"):
                f = {"+": "i32_add", "-": "i32_sub", "*": "i32_mul"}[op]
                return self.seq([a, b], lambda c: E("(%s p %s %s)" % (f, c[0], c[1]), "i32", False))
            if op in ("/", "%"):
                f = {"/": "i32_div", "%": "i32_rem"}[op]
                return self.seq([a, b], lambda c: E("(%s %s %s)" % (f, c[0], c[1]), "i32", False))
            if op in ("&", "|", "^"):
                f = {"&": "Z.land", "|": "Z.lor", "^": "Z.lxor"}[op]
                return self.seq([a, b], lambda c: E("(%s %s %s)" % (f, c[0], c[1]), "i32", True))
            raise Unsupported("operator %s on i32 (a raw shift panics for counts >= 32 in debug builds)" % op)
        if ty == "f64":
            f = {"+": "FAdd", "-": "FSub", "*": "FMul", "/": "FDiv"}.get(op)
            if f is None:
                raise Unsupported("operator %s on f64" % op)
            return self.seq([a, b], lambda c: E("(%s %s %s)" % (f, c[0], c[1]), "f64", True))
        if ty == "bool" and op in ("&", "|", "^"):
            f = {"&": "andb", "|": "orb", "^": "xorb"}[op]
            return self.seq([a, b], lambda c: E("(%s %s %s)" % (f, c[0], c[1]), "bool", True))
        raise Unsupported("operator %s on %s" % (op, ty))

    def p_as(self):
        a = self.p_unary()
        while self.at("as"):
            self.eat()
            ty = self.eat()[1]
            a = self.cast(a, ty)
        return a

    def cast(self, a, ty):
        if a.ty == "int?":
            return self.lit_as(a, ty)
        if a.ty == ty:
            return a
        tbl = {("i32", "u32"): "i32_as_u32", ("u32", "i32"): "u32_as_i32", ("i32", "usize"): "i32_as_usize"}
        f = tbl.get((a.ty, ty))
        if f is None:
            raise Unsupported("cast %s as %s" % (a.ty, ty))
        return self.seq([a], lambda c: E("(%s %s)" % (f, c[0]), ty, True))

    def p_unary(self):
        if self.at("-"):
            self.eat()
            a = self.p_unary()
            return self.neg(a)
        if self.at("*"):
            self.eat()
            return self.p_unary()      # deref of a closure parameter (&i32 -> i32)
        if self.at("!"):
            self.eat()
            a = self.p_unary()
            if a.ty != "bool":
                raise Unsupported("bitwise not")
            return self.seq([a], lambda c: E("(negb %s)" % c[0], "bool", True))
        return self.postfix(self.primary())

    def neg(self, a):
        if True:
            if a.ty == "float?":
                return E("-" + a.code, "float?", True)
            if a.ty == "int?":
                return E(str(-int(a.code)), "int?", True)
            if a.ty == "i32":
                return self.seq([a], lambda c: E("(i32_neg p %s)" % c[0], "i32", False))
            if a.ty == "f64":
                return self.seq([a], lambda c: E("(FNeg %s)" % c[0], "f64", True))
            raise Unsupported("unary minus on %s" % a.ty)
        if self.at("*"):
            self.eat()
            return self.p_unary()      # deref of a closure parameter (&i32 -> i32)
        if self.at("!"):
            self.eat()
            a = self.p_unary()
            if a.ty != "bool":
                raise Unsupported("bitwise not")
            return self.seq([a], lambda c: E("(negb %s)" % c[0], "bool", True))
        return self.postfix(self.primary())

    def args(self):
        """Call arguments: expressions, closures and function paths.  self.i is just after '('."""
        out = []
        while not self.at(")"):
            if self.at("||") or self.at("|"):
                params = []
                if self.at("||"):
                    self.eat()
                else:
                    self.eat("|")
                    while not self.at("|"):
                        tk = self.eat()
                        if tk[0] != "id":
                            raise Unsupported("closure parameter pattern")
                        params.append(tk[1])
                        if self.at(","):
                            self.eat()
                    self.eat("|")
                # body extends to the ',' or ')' that closes this argument
                depth, start = 0, self.i
                while True:
                    tk = self.peek()
                    if tk[0] == "eof":
                        raise Unsupported("unterminated closure")
                    if tk[0] == "op" and tk[1] in "([{":
                        depth += 1
                    elif tk[0] == "op" and tk[1] in ")]}":
                        if depth == 0:
                            break
                        depth -= 1
                    elif tk[0] == "op" and tk[1] == "," and depth == 0:
                        break
                    self.i += 1
                out.append(Closure(params, self.t[start:self.i], dict(self.env)))
            else:
                save = self.i
                # a bare path used as a function value?
                if self.peek()[0] == "id":
                    j, name = self.i + 1, self.peek()[1]
                    while j + 1 < len(self.t) and self.t[j][1] == "::":
                        name += "::" + self.t[j + 1][1]
                        j += 2
                    nxt = self.t[j] if j < len(self.t) else ("eof", "", None)
                    if name in ("Self::new", "JsValue::new", "Self::from", "JsValue::from") and nxt[1] in (",", ")"):
                        self.i = j
                        out.append(FnValue(name))
                        if self.at(","):
                            self.eat()
                        continue
                self.i = save
                out.append(self.expr())
            if self.at(","):
                self.eat()
        self.eat(")")
        return out

    def apply(self, f, argtys):
        """Translate closure / function value `f` applied to parameters of the given types.
        Returns (gallina lambda text, E of the body)."""
        if isinstance(f, FnValue):
            if len(argtys) != 1:
                raise Unsupported("arity of %s" % f.name)
            n = self.gensym("v")
            body = self.js_new(E(n, argtys[0], True))
            return "(fun %s => %s)", n, body
        if isinstance(f, Closure):
            if len(f.params) != len(argtys):
                raise Unsupported("closure arity")
            env = dict(f.env)
            names = []
            for pn, ty in zip(f.params, argtys):
                g = self.gensym(pn)
                env[pn] = E(g, ty, True)
                names.append(g)
            s = self.sub(f.toks, env)
            body = s.expr()
            if not s.done():
                raise Unsupported("trailing tokens in closure body")
            return "(fun %s => %s)", (" ".join(names) if names else "_"), body
        raise Unsupported("expected a closure or function argument")

    def js_new(self, e):
        if e.ty == "int?":
            e = self.lit_as(e, "i32")
        if e.ty == "float?":
            e = self.flit(e)
        tbl = {"i32": "(JInt %s)", "u32": "(js_new_u32 %s)", "f64": "(JF64 %s)", "bool": "(JBool %s)", "jsval": "%s"}
        if e.ty not in tbl:
            raise Unsupported("JsValue::new of %s" % e.ty)
        return self.seq([e], lambda c: E(tbl[e.ty] % c[0], "jsval", True))

    def postfix(self, a):
        while self.at("."):
            self.eat()
            name = self.eat()[1]
            if name == "0" or not self.at("("):
                raise Unsupported("field access .%s" % name)
            self.eat("(")
            args = self.args()
            a = self.method(a, name, args)
        return a

    def need(self, args, n, name):
        if len(args) != n or any(not isinstance(x, E) for x in args):
            raise Unsupported("arguments of .%s" % name)

    def method(self, a, name, args):
        ty = a.ty
        if ty == "int?":
            raise Unsupported("method on untyped literal")
        if ty == "i32":
            if name in ("checked_add", "checked_sub", "checked_mul", "checked_div", "checked_rem"):
                self.need(args, 1, name)
                _, b = self.unify(a, args[0])
                return self.seq([a, b], lambda c: E("(i32_%s %s %s)" % (name, c[0], c[1]), "opt:i32", True))
            if name in ("checked_neg", "checked_abs"):
                self.need(args, 0, name)
                return self.seq([a], lambda c: E("(i32_%s %s)" % (name, c[0]), "opt:i32", True))
            if name in ("wrapping_neg", "wrapping_abs"):
                self.need(args, 0, name)
                return self.seq([a], lambda c: E("(i32_%s %s)" % (name, c[0]), "i32", True))
            if name in ("wrapping_add", "wrapping_sub", "wrapping_mul"):
                self.need(args, 1, name)
                _, b = self.unify(a, args[0])
                return self.seq([a, b], lambda c: E("(i32_%s %s %s)" % (name, c[0], c[1]), "i32", True))
            if name == "wrapping_rem":
                self.need(args, 1, name)
                _, b = self.unify(a, args[0])
                return self.seq([a, b], lambda c: E("(i32_wrapping_rem %s %s)" % (c[0], c[1]), "i32", False))
            if name == "checked_pow":
                self.need(args, 1, name)
                b = args[0]
                if b.ty == "int?":
                    b = self.lit_as(b, "u32")
                if b.ty != "u32":
                    raise Unsupported("checked_pow exponent of type %s" % b.ty)
                return self.seq([a, b], lambda c: E("(i32_checked_pow %s %s)" % (c[0], c[1]), "opt:i32", True))
            if name in ("wrapping_shl", "wrapping_shr"):
                self.need(args, 1, name)
                b = args[0]
                if b.ty == "int?":
                    b = self.lit_as(b, "u32")
                if b.ty != "u32":
                    raise Unsupported("%s count of type %s" % (name, b.ty))
                return self.seq([a, b], lambda c: E("(i32_%s %s %s)" % (name, c[0], c[1]), "i32", True))
        if ty == "u32" and name in ("wrapping_shl", "wrapping_shr"):
            self.need(args, 1, name)
            b = args[0]
            if b.ty == "int?":
                b = self.lit_as(b, "u32")
            if b.ty != "u32":
                raise Unsupported("%s count of type %s" % (name, b.ty))
            return self.seq([a, b], lambda c: E("(u32_%s %s %s)" % (name, c[0], c[1]), "u32", True))
        if ty == "f64" and name == "powi":
            self.need(args, 1, name)
            b = args[0]
            if b.ty == "int?":
                b = self.lit_as(b, "i32")
            if b.ty != "i32":
                raise Unsupported("powi exponent of type %s" % b.ty)
            return self.seq([a, b], lambda c: E("(FPowi %s %s)" % (c[0], c[1]), "f64", True))
        if ty == "bool" and name == "into":
            self.need(args, 0, name)
            return self.seq([a], lambda c: E("(JBool %s)" % c[0], "jsval", True))
        if ty.startswith("tryres:") and name == "ok":
            self.need(args, 0, name)
            return E(a.code, "opt:" + ty[7:], a.pure)
        if ty.startswith("opt:"):
            ety = ty[4:]
            if name == "map_or_else":
                if len(args) != 2:
                    raise Unsupported("map_or_else arity")
                _, _, d = self.apply(args[0], [])
                _, fn, f = self.apply(args[1], [ety])
                d, f = self.unify(d, f)
                if d.pure and f.pure:
                    return self.seq([a], lambda c: E("(opt_map_or_else %s (fun _ => %s) (fun %s => %s))" % (c[0], d.code, fn, f.code), f.ty, True))
                return self.seq([a], lambda c: E("(opt_map_or_else_m %s (fun _ => %s) (fun %s => %s))" % (c[0], d.lifted(), fn, f.lifted()), f.ty, False))
            if name in ("filter", "and_then", "map"):
                if len(args) != 1:
                    raise Unsupported("%s arity" % name)
                _, fn, f = self.apply(args[0], [ety])
                if name == "filter":
                    if f.ty != "bool":
                        raise Unsupported("filter predicate of type %s" % f.ty)
                    rty = ty
                elif name == "and_then":
                    if not f.ty.startswith("opt:"):
                        raise Unsupported("and_then closure of type %s" % f.ty)
                    rty = f.ty
                else:
                    rty = "opt:" + f.ty
                if f.pure:
                    return self.seq([a], lambda c: E("(opt_%s %s (fun %s => %s))" % (name, c[0], fn, f.code), rty, True))
                return self.seq([a], lambda c: E("(opt_%s_m %s (fun %s => %s))" % (name, c[0], fn, f.code), rty, False))
        raise Unsupported("method .%s on %s" % (name, ty))

    def primary(self):
        tk = self.peek()
        if tk[0] == "num":
            self.eat()
            txt = tk[1].replace("_", "")
            if "." in txt or tk[2] in ("f64", "f32"):
                return E(txt if "." in txt else txt + ".0", "float?", True)
            v = int(txt, 0)
            e = E(str(v), "int?", True)
            if tk[2]:
                return self.lit_as(e, tk[2])
            return e
        if tk[1] == "(" and tk[0] == "op":
            self.eat()
            a = self.expr()
            if self.at(","):
                self.eat()
                b = self.expr()
                if self.at(","):
                    self.eat()
                self.eat(")")
                return self.seq([a, b], lambda c: E("(%s, %s)" % (c[0], c[1]), "pair:%s,%s" % (a.ty, b.ty), True))
            self.eat(")")
            return a
        if tk[1] == "{" and tk[0] == "op":
            self.eat()
            toks = self.until_close("{", "}")
            s = self.sub(toks, self.env)
            e = s.block()
            if not s.done():
                raise Unsupported("trailing tokens in block")
            return e
        if tk[1] == "if":
            return self.p_if()
        if tk[1] == "match":
            return self.p_match()
        if tk[0] == "id":
            self.eat()
            name = tk[1]
            while self.at("::"):
                self.eat()
                name = name + "::" + self.eat()[1]
            if name in ("Self::new", "JsValue::new", "Self::from", "JsValue::from"):
                self.eat("(")
                args = self.args()
                self.need(args, 1, name)
                return self.js_new(args[0])
            if name in ("Self::nan", "JsValue::nan"):
                self.eat("(")
                self.eat(")")
                return E("(JF64 FNaN)", "jsval", True)
            if name == "f64::from":
                self.eat("(")
                args = self.args()
                self.need(args, 1, name)
                a = args[0]
                f = {"i32": "FofI32", "u32": "FofU32"}.get(a.ty)
                if f is None:
                    raise Unsupported("f64::from(%s)" % a.ty)
                return self.seq([a], lambda c: E("(%s %s)" % (f, c[0]), "f64", True))
            if name in ("i32::min", "i32::max"):
                self.eat("(")
                args = self.args()
                self.need(args, 2, name)
                a, b = self.unify(args[0], args[1])
                if a.ty != "i32":
                    raise Unsupported("%s on %s" % (name, a.ty))
                f = "Z.min" if name.endswith("min") else "Z.max"
                return self.seq([a, b], lambda c: E("(%s %s %s)" % (f, c[0], c[1]), "i32", True))
            if name == "i32::MAX":
                return E("i32_max", "i32", True)
            if name == "i32::MIN":
                return E("i32_min", "i32", True)
            if name == "u32::try_from":
                self.eat("(")
                args = self.args()
                self.need(args, 1, name)
                if args[0].ty != "i32":
                    raise Unsupported("u32::try_from(%s)" % args[0].ty)
                return self.seq([args[0]], lambda c: E("(u32_try_from_i32 %s)" % c[0], "tryres:u32", True))
            if name == "Some":
                self.eat("(")
                args = self.args()
                self.need(args, 1, name)
                a = args[0]
                if a.ty in ("int?", "float?"):
                    raise Unsupported("Some(untyped literal)")
                return self.seq([a], lambda c: E("(Some %s)" % c[0], "opt:" + a.ty, True))
            if name == "None":
                return E("None", "opt:?", True)
            if name in ("true", "false"):
                return E(name, "bool", True)
            if self.at("("):
                raise Unsupported("call of unknown function %s" % name)
            if name in self.env:
                return self.env[name]
            raise Unsupported("unknown identifier %s" % name)
        raise Unsupported("unexpected token %r" % (tk[1],))

    def p_if(self):
        self.eat("if")
        c = self.expr_nostruct()
        self.eat("{")
        s = self.sub(self.until_close("{", "}"), self.env)
        a = s.block()
        if not s.done():
            raise Unsupported("trailing tokens in if-branch")
        self.eat("else")
        if self.at("if"):
            b = self.p_if()
        else:
            self.eat("{")
            s = self.sub(self.until_close("{", "}"), self.env)
            b = s.block()
            if not s.done():
                raise Unsupported("trailing tokens in else-branch")
        a, b = self.unify(a, b)
        return self.ite(c, a, b)

    def p_match(self):
        """match e { name [if guard] => expr, ..., name|_ => expr }  (binder / wildcard / integer literal patterns)"""
        self.eat("match")
        scrut = self.expr_nostruct()
        if scrut.ty not in ("i32", "u32"):
            raise Unsupported("match scrutinee of type %s" % scrut.ty)
        self.eat("{")
        toks = self.until_close("{", "}")
        s = self.sub(toks, self.env)
        sv = self.gensym("m")
        arms = []
        while not s.done():
            tk = s.eat()
            env = dict(s.env)
            cond = None
            if tk[0] == "id" and tk[1] != "_":
                env[tk[1]] = E(sv, scrut.ty, True)
            elif tk[0] == "num":
                cond = E("(Z.eqb %s %d)" % (sv, int(tk[1].replace("_", ""), 0)), "bool", True)
            elif tk[1] == "-" and s.peek()[0] == "num":
                cond = E("(Z.eqb %s (-%d))" % (sv, int(s.eat()[1].replace("_", ""), 0)), "bool", True)
            elif tk[1] != "_":
                raise Unsupported("match pattern %r" % (tk[1],))
            if s.at("if"):
                s.eat()
                # guard extends to '=>'
                start = s.i
                while not s.at("=>"):
                    if s.peek()[0] == "eof":
                        raise Unsupported("match guard without =>")
                    s.i += 1
                g = self.sub(s.t[start:s.i], env)
                ge = g.expr()
                if not g.done() or ge.ty != "bool":
                    raise Unsupported("match guard")
                cond = ge if cond is None else self.sub([], env).shortcircuit(cond, ge, False)
            s.eat("=>")
            # arm body extends to the ',' at depth 0 (or a block)
            if s.at("{"):
                s.eat()
                btoks = s.until_close("{", "}")
                b = self.sub(btoks, env)
                body = b.block()
            else:
                depth, start = 0, s.i
                while not s.done():
                    t2 = s.peek()
                    if t2[0] == "op" and t2[1] in "([{":
                        depth += 1
                    elif t2[0] == "op" and t2[1] in ")]}":
                        depth -= 1
                    elif t2[0] == "op" and t2[1] == "," and depth == 0:
                        break
                    s.i += 1
                b = self.sub(s.t[start:s.i], env)
                body = b.expr()
            if not b.done():
                raise Unsupported("trailing tokens in match arm")
            if s.at(","):
                s.eat()
            arms.append((cond, body))
        if not arms or arms[-1][0] is not None:
            raise Unsupported("match without a final irrefutable arm")
        res = arms[-1][1]
        for cond, body in reversed(arms[:-1]):
            if cond is None:
                raise Unsupported("irrefutable arm before the last one")
            body, res = self.unify(body, res)
            res = self.ite(cond, body, res)
        if res.pure:
            return self.seq([scrut], lambda c: E("(let %s := %s in %s)" % (sv, c[0], res.code), res.ty, True))
        if scrut.pure:
            return E("(let %s := %s in %s)" % (sv, scrut.code, res.code), res.ty, False)
        return E("(bind %s (fun %s => %s))" % (scrut.code, sv, res.code), res.ty, False)


# ---------------------------------------------------------------------------------------------------------
# source extraction

def fn_body(src, name, sig_re=r"[^{;]*"):
    m = re.search(r"\bfn\s+%s\s*\(%s\{" % (re.escape(name), sig_re), src)
    if not m:
        raise Unsupported("fn %s not found" % name)
    end = rs2v.find_block(src, m.end() - 1)
    return src[m.end():end - 1]


def translate_block(text, env):
    toks = rs2v.tokenize(text)
    t = T(toks, env)
    e = t.block()
    if not t.done():
        raise Unsupported("trailing tokens")
    return e


def arm_text(body, pat_re):
    """Text of the match arm whose pattern matches pat_re (up to the ',' at depth 0, or the block)."""
    m = re.search(pat_re + r"\s*=>\s*", body)
    if not m:
        raise Unsupported("arm %s not found" % pat_re)
    i = m.end()
    if body[i] == "{":
        return m, body[i + 1:rs2v.find_block(body, i) - 1]
    depth, j = 0, i
    while j < len(body):
        c = body[j]
        if c in "([{":
            depth += 1
        elif c in ")]}":
            if depth == 0:
                break
            depth -= 1
        elif c == "," and depth == 0:
            break
        j += 1
    return m, body[i:j]


def define(name, params, e, want):
    if e.ty == "int?" or e.ty == "float?":
        raise Unsupported("%s: untyped literal result" % name)
    if e.ty != want:
        raise Unsupported("%s: result type %s, expected %s" % (name, e.ty, want))
    return "Definition %s (p : profile) %s : res %s :=\n  %s." % (
        name, " ".join("(%s : Z)" % q for q in params), gty(want), e.lifted())


HEADER = """(* GENERATED by tools/gen_c02.py from %s, %s, %s -- do not edit; regenerated on every run.
   `<op>_fast_i32`  : the (Some(x), Some(y)) = (as_integer32, as_integer32) branch of JsValue::<op>_fast
                      (called first by the opcode handlers of binary_ops/macro_defined.rs and by the fused
                      compare-and-branch opcodes of control_flow/jump.rs); `Ok None` would mean "not handled here".
   `<op>_ops_i32`   : the (JsVariant::Integer32(x), JsVariant::Integer32(y)) arm of JsValue::<op>
                      (constant folder, public API).
   `neg_ops_i32`    : the Integer32 arms of JsValue::neg.   `inc_i32` / `dec_i32` : the guarded Integer32 arm of
                      the Inc / Dec opcode handlers (`Ok None` = guard false, the to_numeric slow path runs). *)
From Coq Require Import ZArith Bool List.
From C02 Require Import Model_C02.
Local Open Scope Z_scope.
""" % (OPS_RS, INC_RS, DEC_RS)

FOOTER = """
(* dispatch over the modelled kernels *)
Inductive binop := Add | Sub | Mul | Div | Rem | Pow | BitAnd | BitOr | BitXor | Shl | Shr | UShr | Lt | Le | Gt | Ge | Eq | Ne.
Definition all_binops : list binop := [Add; Sub; Mul; Div; Rem; Pow; BitAnd; BitOr; BitXor; Shl; Shr; UShr; Lt; Le; Gt; Ge; Eq; Ne].
Definition run_fast (p : profile) (op : binop) (x y : Z) : res (option jsval) :=
  match op with
%s  end.
(* JsValue::<op> arms; Le/Gt/Ge go through abstract_relation with swapped operands / negated result exactly as
   JsValue::{le,gt,ge} do (AbstractRelation is two-valued on integers); Eq/Ne are not arithmetic there. *)
Definition run_ops (p : profile) (op : binop) (x y : Z) : res jsval :=
  match op with
%s  end.
"""


def generate(repo):
    rd = lambda rel: rs2v.strip_attrs_and_docs(open(os.path.join(repo, rel)).read())
    ops = rd(OPS_RS)
    out = [HEADER]
    info = {"fast": [], "ops": [], "unary": [], "opcodes": 0}
    envxy = lambda x, y, ty="i32": {x: E(x, ty, True), y: E(y, ty, True)}

    # --- *_fast helpers
    for name in BINOPS + CMPOPS + EQOPS:
        body = fn_body(ops, name + "_fast")
        m = re.search(r"if\s+let\s*\(\s*Some\((\w+)\)\s*,\s*Some\((\w+)\)\s*\)\s*=\s*\(\s*self\.0\.as_integer32\(\)\s*,\s*other\.0\.as_integer32\(\)\s*\)\s*\{", body)
        if m:
            x, y = m.group(1), m.group(2)
            blk = body[m.end():rs2v.find_block(body, m.end() - 1) - 1]
            e = translate_block(blk, envxy(x, y))
            if not getattr(e, "returns", False):
                raise Unsupported("%s_fast: the i32 branch does not end in `return`" % name)
        else:
            m = re.match(r"\s*let\s+(\w+)\s*=\s*self\.0\.as_integer32\(\)\?\s*;\s*let\s+(\w+)\s*=\s*other\.0\.as_integer32\(\)\?\s*;", body)
            if not m:
                raise Unsupported("%s_fast: i32 branch not recognised" % name)
            x, y = m.group(1), m.group(2)
            e = translate_block(body[m.end():], envxy(x, y))
        if e.ty == "opt:bool":    # lt_fast & co return Option<bool>
            e = E("(%s)" % ("opt_map %s JBool" % e.code if e.pure else "bind %s (fun o_ => Ok (opt_map o_ JBool))" % e.code), "opt:jsval", e.pure)
        out.append("(* JsValue::%s_fast, operands (%s, %s) *)" % (name, x, y))
        out.append(define("%s_fast_i32" % name, [x, y], e, "opt:jsval"))
        info["fast"].append(name)

    # --- JsValue::<op> Integer32 arms
    for name in BINOPS:
        body = fn_body(ops, name, r"\s*&self\s*,\s*other[^{;]*")
        m, txt = arm_text(body, r"\(\s*JsVariant::Integer32\((\w+)\)\s*,\s*JsVariant::Integer32\((\w+)\)\s*\)")
        x, y = m.group(1), m.group(2)
        e = translate_block(txt, envxy(x, y))
        out.append("(* JsValue::%s, arm (Integer32(%s), Integer32(%s)) *)" % (name, x, y))
        out.append(define("%s_ops_i32" % name, [x, y], e, "jsval"))
        info["ops"].append(name)
    body = fn_body(ops, "abstract_relation")
    m, txt = arm_text(body, r"\(\s*JsVariant::Integer32\((\w+)\)\s*,\s*JsVariant::Integer32\((\w+)\)\s*\)")
    x, y = m.group(1), m.group(2)
    e = translate_block(txt, envxy(x, y))
    out.append("(* JsValue::abstract_relation, arm (Integer32(%s), Integer32(%s)): True/False as a bool *)" % (x, y))
    out.append(define("relation_ops_i32", [x, y], e, "jsval"))
    # lt/le/gt/ge in terms of abstract_relation: check the operand order and the accepted result
    rel = {}
    for name, (pat, want) in {"lt": (r"self\.abstract_relation\(\s*other\s*,\s*true", "True"),
                               "le": (r"other\.abstract_relation\(\s*self\s*,\s*false", "False"),
                               "gt": (r"other\.abstract_relation\(\s*self\s*,\s*false", "True"),
                               "ge": (r"self\.abstract_relation\(\s*other\s*,\s*true", "False")}.items():
        b = fn_body(ops, name, r"\s*&self\s*,\s*other[^{;]*")
        if not re.search(pat, b):
            raise Unsupported("JsValue::%s does not call abstract_relation as expected" % name)
        mm = re.search(r"AbstractRelation::(\w+)\s*=>\s*Ok\(true\)", b)
        if not mm or mm.group(1) != want:
            raise Unsupported("JsValue::%s: Ok(true) arm is not AbstractRelation::%s" % (name, want))
        rel[name] = (pat.startswith("other"), want == "False")

    # --- JsValue::neg
    body = fn_body(ops, "neg", r"\s*&self[^{;]*")
    arms = re.findall(r"((?:JsVariant::\w+(?:\([^)]*\))?\s*\|?\s*)+)=>", body)
    neg_terms = []
    for pat in arms:
        mi = re.search(r"JsVariant::Integer32\(([^)]*)\)", pat)
        if not mi:
            continue
        _, txt = arm_text(body, re.escape(pat.strip()))
        binder = mi.group(1).strip()
        if re.fullmatch(r"-?\d+", binder):
            e = translate_block(txt, {})
            neg_terms.append(("(Z.eqb num %s)" % ("(%s)" % binder if binder.startswith("-") else binder), e))
        elif re.fullmatch(r"\w+", binder):
            e = translate_block(txt, {binder: E("num", "i32", True)})
            neg_terms.append((None, e))
            break
        else:
            raise Unsupported("JsValue::neg: Integer32 pattern %s" % binder)
    if not neg_terms or neg_terms[-1][0] is not None:
        raise Unsupported("JsValue::neg: no irrefutable Integer32 arm")
    code = neg_terms[-1][1].lifted()
    for cond, e in reversed(neg_terms[:-1]):
        code = "(if %s then %s else %s)" % (cond, e.lifted(), code)
    out.append("(* JsValue::neg, Integer32 arms in source order *)")
    out.append("Definition neg_ops_i32 (p : profile) (num : Z) : res jsval :=\n  %s." % code)
    info["unary"].append("neg")

    # --- Inc / Dec opcode handlers
    for label, rel_path in (("inc", INC_RS), ("dec", DEC_RS)):
        src = rd(rel_path)
        m = re.search(r"JsVariant::Integer32\((\w+)\)\s+if\s+(.*?)=>\s*\{", src, re.S)
        if not m:
            raise Unsupported("%s: guarded Integer32 arm not found" % rel_path)
        n = m.group(1)
        blk = src[m.end():rs2v.find_block(src, m.end() - 1) - 1]
        env = {n: E(n, "i32", True)}
        g = translate_block(m.group(2), env)
        if g.ty != "bool":
            raise Unsupported("%s: guard is not bool" % rel_path)
        b = translate_block(blk, env)
        if b.ty != "pair:jsval,jsval":
            raise Unsupported("%s: arm value has type %s" % (rel_path, b.ty))
        t = T([], {})
        body = "(bind %s (fun v_ => Ok (Some v_)))" % b.code if not b.pure else "(Ok (Some %s))" % b.code
        if g.pure:
            code = "(if %s then %s else Ok None)" % (g.code, body)
        else:
            code = "(bind %s (fun g_ => if g_ then %s else Ok None))" % (g.code, body)
        out.append("(* %s: JsVariant::Integer32(%s) if <guard> => (old numeric, new value); None = falls to to_numeric *)" % (rel_path.split("/")[-1], n))
        out.append("Definition %s_i32 (p : profile) (%s : Z) : res (option (jsval * jsval)) :=\n  %s." % (label, n, code))
        info["unary"].append(label)

    # --- which helper each opcode calls (structural check only)
    bins = rd(BIN_RS)
    if not re.search(r"if\s+let\s+Some\(value\)\s*=\s*JsValue::\$fast_fn\(lhs,\s*rhs\)", bins):
        raise Unsupported("implement_bin_ops!: fast-path call shape changed")
    seen = {}
    for m in re.finditer(r"implement_bin_ops!\(\s*(\w+)\s*,\s*(\w+)\s*,\s*\"[^\"]*\"\s*(?:,\s*(\w+)\s*)?\)", bins):
        seen[m.group(1)] = (m.group(2), m.group(3))
    for opc, want in EXPECT_OPCODES.items():
        if seen.get(opc) != want:
            raise Unsupported("opcode %s is wired to %r, the model assumes %r" % (opc, seen.get(opc), want))
    jumps = rd(JUMP_RS)
    for opc, h in EXPECT_JUMPS.items():
        mm = re.search(r"impl\s+%s\s*\{" % opc, jumps)
        if not mm:
            raise Unsupported("opcode %s not found" % opc)
        b = jumps[mm.end():rs2v.find_block(jumps, mm.end() - 1)]
        if not re.search(r"lhs\.%s_fast\(rhs\)" % h, b) or not re.search(r"lhs\.%s\(&rhs,\s*context\)" % h, b):
            raise Unsupported("opcode %s no longer calls %s_fast then %s" % (opc, h, h))
    info["opcodes"] = len(EXPECT_OPCODES) + len(EXPECT_JUMPS)

    fast_arms = "".join("  | %s => %s_fast_i32 p x y\n" % (CTOR[n], n) for n in BINOPS + CMPOPS + EQOPS)
    ops_arms = "".join("  | %s => %s_ops_i32 p x y\n" % (CTOR[n], n) for n in BINOPS)
    neg_b = lambda swap, neg: ("bind (relation_ops_i32 p %s) (fun r_ => Ok (match r_ with JBool b_ => JBool (%sb_) | v_ => v_ end))"
                               % ("y x" if swap else "x y", "negb " if neg else ""))
    for n in CMPOPS:
        ops_arms += "  | %s => %s\n" % (CTOR[n], neg_b(*rel[n]))
    ops_arms += "  | Eq => Ok (JBool (Z.eqb x y))\n  | Ne => Ok (JBool (negb (Z.eqb x y)))\n"
    out.append("Import ListNotations." + FOOTER % (fast_arms, ops_arms))
    return "\n".join(out) + "\n", info


if __name__ == "__main__":
    t, i = generate(sys.argv[1] if len(sys.argv) > 1 else "/repo")
    sys.stdout.write(t)
