"""Development helper for C07 (not run by the check): regenerates the section of coq/C07/Proofs_C07.v that holds the
unfolding equations of the interpreter (`run_act_*_eq`, `run_acts_*_eq`, `run_ract_*_eq`, `run_racts_*_eq`) from the text
of coq/C07/Model_C07.v.  Every equation is proved by `reflexivity`, so a stale section is a compile error, never a
silent mismatch.   usage: python3 tools/gen_c07.py [coq-dir-containing-C07]"""
import re
import sys

base = sys.argv[1] if len(sys.argv) > 1 else "/verif/coq"
m = open(base + "/C07/Model_C07.v").read()


def section(start, end):
    i = m.index(start)
    j = m.index(end, i)
    return m[i:j]


def strip_comments(t):
    return re.sub(r"\(\*.*?\*\)", "", t, flags=re.S)


def arms(txt):
    body = txt[txt.index("match"):]
    parts = re.split(r"\n  \| ", body)
    res = []
    for k, p in enumerate(parts[1:]):
        pat, rhs = p.split("=>", 1)
        rhs = rhs.rstrip()
        if k == len(parts) - 2:
            if rhs.endswith("end."):
                rhs = rhs[:-4]
            elif rhs.endswith("end"):
                rhs = rhs[:-3]
        res.append((pat.strip(), rhs.rstrip()))
    return res


def fxify(rest):
    return re.sub(r"\b(run_acts|run_racts|run_ract|run_act|err_ctl) ", r"\1 fx ", rest)


act = strip_comments(section("Fixpoint run_act (v : vm) (a : act)", "(* the behaviour of the current frame;"))
acts = strip_comments(section("with run_acts (v : vm) (l : acts)", "(* one step of Rust code"))
ract = strip_comments(section("with run_ract (v : vm) (last : rres) (r : ract)", "with run_racts (v : vm)"))
racts = strip_comments(section("with run_racts (v : vm) (last : rres) (l : racts)", "(* the embedder: a list of host entries"))
out = []
for pat, rhs in arms(act):
    c = pat.split()[0]
    if c in {"ACall", "ACallNative", "ARust", "ANew"}:
        out.append("Lemma run_act_%s_eq fx v %s :\n  run_act fx v (%s) =\n  (%s).\nProof. reflexivity. Qed.\n" % (c, " ".join(pat.split()[1:]), pat, fxify(rhs.strip())))
for pat, rhs in arms(acts):
    c = pat.split()[0]
    out.append("Lemma run_acts_%s_eq fx v %s :\n  run_acts fx v (%s) =\n  (%s).\nProof. reflexivity. Qed.\n" % (c, " ".join(pat.split()[1:]), pat, fxify(rhs.strip())))
pre = ract[ract.index(":=") + 2:ract.index("  match r with")].replace("(v, None, res, [ODone", "(v, @None rres, res, [ODone")
for pat, rhs in arms(ract[ract.index("  match r with"):]):
    c = pat.split()[0]
    out.append("Lemma run_ract_%s_eq fx v last %s :\n  run_ract fx v last (%s) =\n  (%s\n  %s).\nProof. reflexivity. Qed.\n" % (c, " ".join(pat.split()[1:]), pat, pre.strip(), fxify(rhs.strip())))
for pat, rhs in arms(racts):
    c = pat.split()[0]
    out.append("Lemma run_racts_%s_eq fx v last %s :\n  run_racts fx v last (%s) =\n  (%s).\nProof. reflexivity. Qed.\n" % (c, " ".join(pat.split()[1:]), pat, fxify(rhs.strip())))
p = base + "/C07/Proofs_C07.v"
t = open(p).read()
h1 = "(* unfolding equations of the interpreter (each by reflexivity, so they cannot drift from the model) *)\n"
i = t.index(h1) + len(h1)
j = t.index("(* ------------------------------------------------------------------------------------------ *)\n(* the cases of the main induction *)")
open(p, "w").write(t[:i] + "\n" + "\n".join(out) + "\n" + t[j:])
