"""C20 translator: inventory of process-/thread-wide state in boa (every `thread_local!`, `static`, lazily initialised
static or field) regenerated from the Rust sources on every run, joined with the hand classification below, emitted as
coq/Gen/Statics_C20.v.  An item that is not classified makes `statics_all_classified` (Props_C20.v) fail."""
import os
import re

DIRS = ["core/engine/src", "core/string/src", "core/gc/src", "core/interner/src", "core/ast/src"]

# classes
IMM = "Immutable"          # immutable after (lazy) initialisation; content fixed by the source text
CONTENT = "ContentKeyed"   # cache / registry whose observable answers are a function of the key (Deep_Caches_C20.v)
COUNTER = "FreshCounter"   # monotone counter handing out identifiers observable only through (in)equality / relative order
SCRATCH = "Scratch"        # per-thread scratch state that is empty / restored between host entries
HEAP = "GcHeap"            # the thread's garbage-collected heap and its bookkeeping (C09/C10)
FIELD = "PerContextField"  # not a static: lazily initialised field of a per-context structure
HOOK = "VerifHook"         # cfg(boa_verif) instrumentation
SHARED = "SharedByDesign"  # cross-agent state required by the specification (Atomics.wait/notify waiter lists)

CLASSIFICATION = {
    ("core/engine/src/value/mod.rs", "TWO_E_64"): (IMM, "BigInt constant 2^64"),
    ("core/engine/src/value/mod.rs", "TWO_E_63"): (IMM, "BigInt constant 2^63"),
    ("core/engine/src/verif.rs", "SWITCHES"): (HOOK, ""),
    ("core/engine/src/verif.rs", "IC_COUNTS"): (HOOK, ""),
    ("core/engine/src/verif.rs", "IC_EVENTS"): (HOOK, ""),
    ("core/engine/src/verif.rs", "DEPTHS"): (HOOK, ""),
    ("core/engine/src/symbol.rs", "SYMBOL_HASH_COUNT"): (COUNTER, "hash of a new symbol; used only by Hash/Eq of JsSymbol (lookups in insertion-ordered or never-iterated tables)"),
    ("core/engine/src/object/jsobject.rs", "SEEN"): (SCRATCH, "recursion guard of Debug/equality printing keyed by address; entries removed on the way out"),
    ("core/engine/src/module/source.rs", "ASYNC_EVAL_QUEUE_INDEX"): (COUNTER, "[[AsyncEvaluationOrder]]: only the relative order of modules of one graph is read"),
    ("core/engine/src/vm/code_block.rs", "CODEBLOCK_ID_COUNTER"): (COUNTER, "code block identity for inline-cache bookkeeping; not script visible"),
    ("core/engine/src/builtins/symbol/mod.rs", "GLOBAL_SYMBOL_REGISTRY"): (CONTENT, "Symbol.for / Symbol.keyFor: ECMA-262 GlobalSymbolRegistry is shared by all realms; process wide here (also across contexts: invisible unless symbols cross contexts)"),
    ("core/engine/src/builtins/atomics/futex.rs", "CRITICAL_SECTION"): (SHARED, "waiter lists of Atomics.wait/notify on shared memory"),
    ("core/engine/src/context/mod.rs", "CANNOT_BLOCK_COUNTER"): (SCRATCH, "host policy: number of live contexts of the thread that may not block; incremented in ContextBuilder::build, decremented in Drop, read only by build (host API), never by scripts"),
    ("core/string/src/common.rs", "RAW_STATICS_CACHE"): (CONTENT, "static string table: content -> &'static StaticString, built once from RAW_STATICS"),
    ("core/gc/src/lib.rs", "GC_DROPPING"): (HEAP, "true only inside the sweep phase"),
    ("core/gc/src/lib.rs", "BOA_GC"): (HEAP, "the thread's heap"),
    ("core/gc/src/lib.rs", "STRESS_EVERY"): (HOOK, ""),
    ("core/gc/src/lib.rs", "STRESS_COUNT"): (HOOK, ""),
    ("core/ast/src/scope.rs", "FORCE_ESCAPES"): (HOOK, ""),
    ("core/ast/src/scope.rs", "SCOPE_DUMP"): (HOOK, ""),
}
# families classified by a rule
RULES = [
    (re.compile(r"InternalObjectMethods"), IMM, "vtable of internal methods"),
    (re.compile(r"^(RAW_STATICS|.*_STATIC_STRINGS?)$"), IMM, "static string data"),
]


def strip_comments(src):
    src = re.sub(r"/\*.*?\*/", lambda m: re.sub(r"[^\n]", " ", m.group(0)), src, flags=re.S)
    return re.sub(r"//[^\n]*", "", src)


def scan(repo):
    items = []
    for d in DIRS:
        root = os.path.join(repo, d)
        for dp, dn, fn in os.walk(root):
            dn.sort()
            for f in sorted(fn):
                if not f.endswith(".rs") or f == "tests.rs" or "/tests" in dp or f.endswith("_tests.rs"):
                    continue
                path = os.path.join(dp, f)
                rel = os.path.relpath(path, repo)
                src = strip_comments(open(path, encoding="utf8", errors="replace").read())
                tl_spans = []
                for m in re.finditer(r"thread_local!\s*[\(\{]", src):
                    # balanced span
                    depth, i = 0, m.end() - 1
                    open_c = src[i]
                    close_c = ")" if open_c == "(" else "}"
                    while i < len(src):
                        if src[i] == open_c:
                            depth += 1
                        elif src[i] == close_c:
                            depth -= 1
                            if depth == 0:
                                break
                        i += 1
                    tl_spans.append((m.start(), i))
                for m in re.finditer(r"(?<!')\bstatic\s+(mut\s+)?([A-Za-z_][A-Za-z0-9_]*)\s*:\s*([^=;]+?)\s*(=|;)", src):
                    name, ty = m.group(2), " ".join(m.group(3).split())
                    if name in ("str", "self") or ty.startswith("'"):
                        continue
                    in_tl = any(a <= m.start() <= b for a, b in tl_spans)
                    kind = "thread_local" if in_tl else ("static_mut" if m.group(1) else ("lazy_static" if re.search(r"LazyLock|OnceLock|OnceCell|Lazy<", ty) else "static"))
                    items.append((rel, name, kind, ty[:60]))
                for m in re.finditer(r"^\s*(pub(\([a-z]+\))?\s+)?([a-z_][a-z0-9_]*)\s*:\s*((?:std::cell::|std::sync::|once_cell::\w+::)?(?:OnceCell|OnceLock|LazyLock|LazyCell)<[^,\n]*>)\s*,", src, flags=re.M):
                    items.append((rel, m.group(3), "lazy_field", " ".join(m.group(4).split())[:60]))
    return sorted(set(items))


def classify(item):
    rel, name, kind, ty = item
    if kind == "lazy_field":
        return FIELD, "lazily initialised field of a per-context / per-object structure"
    c = CLASSIFICATION.get((rel, name))
    if c:
        return c
    for rx, cls, why in RULES:
        if rx.search(ty) or rx.search(name):
            return cls, why
    return "Unclassified", ""


def generate(repo):
    items = scan(repo)
    rows = [(it, classify(it)) for it in items]
    lines = ["(* GENERATED by tools/gen_c20.py from the Rust sources on every run - do not edit. *)",
             "From Coq Require Import List String.", "Import ListNotations.", "Open Scope string_scope.",
             "Inductive sclass := Immutable | ContentKeyed | FreshCounter | Scratch | GcHeap | PerContextField | VerifHook | SharedByDesign | Unclassified.",
             "Definition is_classified (c : sclass) : bool := match c with Unclassified => false | _ => true end.",
             "Definition needs_key_only_argument (c : sclass) : bool := match c with ContentKeyed | FreshCounter => true | _ => false end.",
             "Definition inventory : list (string * string * string * sclass) := ["]
    body = []
    for (rel, name, kind, ty), (cls, why) in rows:
        body.append('  ("%s", "%s", "%s", %s)' % (rel, name, kind, cls))
    lines.append(";\n".join(body))
    lines.append("].")
    lines.append("Definition caches : list string := map (fun e => snd (fst (fst e))) (filter (fun e => needs_key_only_argument (snd e)) inventory).")
    text = "\n".join(lines) + "\n"
    info = {"items": len(rows), "by_class": {}, "unclassified": [list(it) for it, (c, _) in rows if c == "Unclassified"],
            "table": [{"file": it[0], "name": it[1], "kind": it[2], "type": it[3], "class": c, "why": w} for it, (c, w) in rows]}
    for it, (c, _) in rows:
        info["by_class"][c] = info["by_class"].get(c, 0) + 1
    return text, info


if __name__ == "__main__":
    import json
    import sys
    t, i = generate(sys.argv[1] if len(sys.argv) > 1 else "/repo")
    print(json.dumps({k: v for k, v in i.items() if k != "table"}, indent=1))
    for r in i["table"]:
        print("%-16s %-52s %-28s %s" % (r["class"], r["file"], r["name"], r["kind"]))
