"""C02 deepening round: regenerate coq/Gen/IndexPaths.v from every `match <ToIntegerOrInfinity result> { ... }`
index computation of builtins/string/mod.rs, builtins/array/mod.rs and builtins/typed_array/builtin.rs, and
enumerate the `js_expect(..)` / `expect(..)` sites of the engine ("cannot fail per spec" family, evidence only).

Each match whose arms are IntegerOrInfinity patterns is translated to
    <site> (p : profile) (<free variables> : Z) (s : ioi) : res (option Z)
(`Ok None` = the arm leaves the function early: `return ...`), with i64/u64/usize arithmetic mapped to the partial
primitives of coq/C02/DeepModel_C02.v (`i64_add p`, `i64_neg p`, `i64_abs p`, casts modulo 2^64, ...).  The sites
listed in PINNED have theorems in coq/C02/Deep_C02.v and MUST translate (a refusal is PROOF-BROKEN); the other sites
are translated when possible and reported (translated / refused) in the evidence so that a new site is noticed.
"""
import os
import re
import sys

sys.path.insert(0, os.path.dirname(os.path.abspath(__file__)))
import rs2v
import gen_c02
from gen_c02 import E, T, Unsupported

FILES = {"string": "core/engine/src/builtins/string/mod.rs", "array": "core/engine/src/builtins/array/mod.rs",
         "typed_array": "core/engine/src/builtins/typed_array/builtin.rs"}
JUMP_RS = gen_c02.JUMP_RS
# (file key, fn name, ordinal of the IntegerOrInfinity match inside the fn) -> Gallina name
PINNED = {("string", "at", 1): "string_at", ("array", "at", 1): "array_at",
          ("string", "slice", 1): "string_slice_from", ("string", "slice", 2): "string_slice_to",
          ("string", "substr", 1): "string_substr_start",
          ("array", "get_relative_start", 1): "array_relative_start", ("array", "get_relative_end", 1): "array_relative_end",
          ("typed_array", "at", 1): "typed_array_at", ("array", "last_index_of", 1): "array_last_index_of_from",
          ("string", "substr", 2): "string_substr_end"}


class T2(T):
    INTS = ("i32", "u32", "usize", "i64", "u64")
    RANGES = dict(T.RANGES, i64=(-2 ** 63, 2 ** 63 - 1), u64=(0, 2 ** 64 - 1))

    def arith(self, op, a, b):
        a, b = self.unify(a, b)
        if a.ty == "i64" and op in ("+", "-", "*"):
            f = {"+": "i64_add", "-": "i64_sub", "*": "i64_mul"}[op]
            return self.seq([a, b], lambda c: E("(%s p %s %s)" % (f, c[0], c[1]), "i64", False))
        if a.ty in ("u64", "usize") and op in ("+", "-", "*"):
            f = {"+": "u64_add", "-": "u64_sub", "*": "u64_mul"}[op]
            return self.seq([a, b], lambda c: E("(%s p %s %s)" % (f, c[0], c[1]), a.ty, False))
        if a.ty in ("i64", "u64", "usize"):
            raise Unsupported("operator %s on %s" % (op, a.ty))
        return T.arith(self, op, a, b)

    def cast(self, a, ty):
        if a.ty == "int?":
            return self.lit_as(a, ty)
        if a.ty == ty or {a.ty, ty} <= {"u64", "usize"}:
            return E(a.code, ty, a.pure)
        if a.ty == "i64" and ty in ("u64", "usize"):
            return self.seq([a], lambda c: E("(i64_as_u64 %s)" % c[0], ty, True))
        if a.ty in ("u64", "usize") and ty == "i64":
            return self.seq([a], lambda c: E("(u64_as_i64 %s)" % c[0], ty, True))
        return T.cast(self, a, ty)

    def neg(self, a):
        if a.ty == "i64":
            return self.seq([a], lambda c: E("(i64_neg p %s)" % c[0], "i64", False))
        return T.neg(self, a)

    def method(self, a, name, args):
        if a.ty == "i64" and name == "abs":
            self.need(args, 0, name)
            return self.seq([a], lambda c: E("(i64_abs p %s)" % c[0], "i64", False))
        if a.ty == "i64" and name == "clamp":
            self.need(args, 2, name)
            _, lo = self.unify(a, args[0])
            _, hi = self.unify(a, args[1])
            return self.seq([a, lo, hi], lambda c: E("(i64_clamp %s %s %s)" % (c[0], c[1], c[2]), "i64", False))
        if a.ty in ("u64", "usize") and name in ("checked_add_signed", "saturating_add_signed"):
            self.need(args, 1, name)
            b = args[0]
            if b.ty == "int?":
                b = self.lit_as(b, "i64")
            if b.ty != "i64":
                raise Unsupported("%s argument of type %s" % (name, b.ty))
            rty = "opt:" + a.ty if name.startswith("checked") else a.ty
            return self.seq([a, b], lambda c: E("(u64_%s %s %s)" % (name, c[0], c[1]), rty, True))
        if a.ty.startswith("opt:") and name == "unwrap_or":
            self.need(args, 1, name)
            d = args[0]
            if d.ty == "int?":
                d = self.lit_as(d, a.ty[4:])
            if d.ty != a.ty[4:]:
                raise Unsupported("unwrap_or default of type %s" % d.ty)
            return self.seq([a, d], lambda c: E("(opt_unwrap_or %s %s)" % (c[0], c[1]), d.ty, True))
        return T.method(self, a, name, args)

    def primary(self):
        tk = self.peek()
        if tk[0] == "id" and tk[1] in ("min", "max") and self.peek(1)[1] == "(":
            self.eat()
            self.eat("(")
            args = self.args()
            self.need(args, 2, tk[1])
            a, b = self.unify(args[0], args[1])
            if a.ty not in self.INTS:
                raise Unsupported("%s on %s" % (tk[1], a.ty))
            f = "Z.min" if tk[1] == "min" else "Z.max"
            return self.seq([a, b], lambda c: E("(%s %s %s)" % (f, c[0], c[1]), a.ty, True))
        if tk[0] == "id" and tk[1] == "i64" and self.peek(1)[1] == "::" and self.peek(2)[1] in ("MAX", "MIN"):
            self.eat(); self.eat(); which = self.eat()[1]
            return E("i64_max" if which == "MAX" else "i64_min", "i64", True)
        return T.primary(self)


def split_arms(body):
    """[(pattern text, body text)] of a match body (top-level commas / block bodies)."""
    arms, i, n = [], 0, len(body)
    while i < n:
        while i < n and body[i] in " \t\n,":
            i += 1
        if i >= n:
            break
        j = body.find("=>", i)
        if j < 0:
            raise Unsupported("arm without =>")
        pat = body[i:j].strip()
        k = j + 2
        while k < n and body[k] in " \t\n":
            k += 1
        if k < n and body[k] == "{":
            e = rs2v.find_block(body, k)
            arms.append((pat, body[k + 1:e - 1].strip()))
            i = e
        else:
            depth, e = 0, k
            while e < n:
                c = body[e]
                if c in "([{":
                    depth += 1
                elif c in ")]}":
                    depth -= 1
                elif c == "," and depth == 0:
                    break
                e += 1
            arms.append((pat, body[k:e].strip()))
            i = e + 1
    return arms


def var_type(fn_text, name):
    m = re.search(r"\b%s\s*:\s*(i64|u64|usize|i32|u32)\b" % re.escape(name), fn_text)
    if m:
        return m.group(1)
    for m in re.finditer(r"let\s+(?:mut\s+)?%s\s*(?::\s*(\w+))?\s*=\s*([^;]*);" % re.escape(name), fn_text):
        if m.group(1) in ("i64", "u64", "usize", "i32", "u32"):
            return m.group(1)
        rhs = m.group(2).strip()
        mc = re.search(r"\bas\s+(i64|u64|usize|i32|u32)\s*$", rhs)
        if mc:
            return mc.group(1)
        if re.search(r"\.len\(\)\s*$", rhs):
            return "usize"
        if re.search(r"length_of_array_like\(context\)\?\s*$", rhs):
            return "u64"
    return None


def translate_match(fn_text, scrut, body, trailing_cast):
    arms = split_arms(body)
    parsed = []
    expanded = []
    for pat, txt in arms:
        mg = re.match(r"(.*?)(\bif\b.*)?$", pat, re.S)
        alts = [a.strip() for a in mg.group(1).split("|")]
        for a in alts:
            expanded.append(((a + " " + (mg.group(2) or "")).strip(), txt))
    for pat, txt in expanded:
        m = re.match(r"(?:IntegerOrInfinity::(Integer)\((\w+)\)|IntegerOrInfinity::(PositiveInfinity|NegativeInfinity)|(_))\s*(?:if\s+(.*))?$", pat, re.S)
        if not m:
            raise Unsupported("arm pattern %r" % pat[:40])
        ctor = "Integer" if m.group(1) else (m.group(3) or "_")
        parsed.append((ctor, m.group(2), m.group(5), txt))
    # free variables
    free = {}
    texts = " ".join((g or "") + " " + t for _, _, g, t in parsed)
    texts = re.sub(r"\b(\w+)\.len\(\)", r"\1_len", texts)
    for name in sorted(set(re.findall(r"\b[a-z_][a-z0-9_]*\b", texts))):
        if name in ("if", "as", "return", "min", "max", "usize", "u64", "i64", "i32", "u32", "abs", "clamp", "checked_add_signed",
                    "saturating_add_signed", "unwrap_or", "try_from", "ok", "true", "false") or name in [b for _, b, _, _ in parsed if b]:
            continue
        ty = "usize" if name.endswith("_len") and var_type(fn_text, name) is None else var_type(fn_text, name)
        if ty:
            free[name] = ty
    env0 = {n: E(n, t, True) for n, t in free.items()}

    def tr(text, env):
        text = re.sub(r"\b(\w+)\.len\(\)", r"\1_len", text)
        t = T2(rs2v.tokenize(text), env)
        e = t.expr()
        if not t.done():
            raise Unsupported("trailing tokens in %r" % text[:40])
        return e, t

    def is_exit(txt):
        return bool(re.match(r"(return\b|\{\s*return\b)", txt))

    # first pass: result type
    rty = trailing_cast
    bodies = []
    for ctor, binder, guard, txt in parsed:
        env = dict(env0)
        if binder:
            env[binder] = E("i_", "i64", True)
        g = None
        if guard is not None:
            g, _ = tr(guard, env)
            if g.ty != "bool":
                raise Unsupported("guard of type %s" % g.ty)
        if is_exit(txt):
            bodies.append((ctor, g, None))
            continue
        b, t = tr(txt, env)
        bodies.append((ctor, g, (b, t)))
        if rty is None and b.ty not in ("int?",):
            rty = b.ty
    if rty is None:
        raise Unsupported("cannot type the match result")
    lifted = []
    for ctor, g, bt in bodies:
        if bt is None:
            lifted.append((ctor, g, "(Ok None)"))
            continue
        b, t = bt
        if b.ty == "int?":
            b = t.lit_as(b, rty if trailing_cast is None else "i64")
        if trailing_cast and b.ty != trailing_cast:
            b = t.cast(b, trailing_cast)
        if b.ty != rty and not {b.ty, rty} <= {"u64", "usize"}:
            raise Unsupported("arm of type %s in a match of type %s" % (b.ty, rty))
        code = "(Ok (Some %s))" % b.code if b.pure else "(bind %s (fun v_ => Ok (Some v_)))" % b.code
        lifted.append((ctor, g, code))

    def chain(c):
        app = [(g, code) for ctor, g, code in lifted if ctor in (c, "_")]
        last = next((k for k, (g, _) in enumerate(app) if g is None), None)
        if last is None:
            raise Unsupported("no irrefutable arm for %s" % c)
        res = app[last][1]
        for g, code in reversed(app[:last]):
            if g.pure:
                res = "(if %s then %s else %s)" % (g.code, code, res)
            else:
                res = "(bind %s (fun g_ => if g_ then %s else %s))" % (g.code, code, res)
        return res
    text = ("match s with\n  | IInt i_ => %s\n  | IPosInf => %s\n  | INegInf => %s\n  end" %
            (chain("Integer"), chain("PositiveInfinity"), chain("NegativeInfinity")))
    return text, free, rty


def find_matches(fn_text):
    """[(scrutinee, body, trailing cast or None)] for the matches over IntegerOrInfinity patterns."""
    out = []
    for m in re.finditer(r"\bmatch\b", fn_text):
        b = fn_text.find("{", m.end())
        if b < 0:
            continue
        try:
            e = rs2v.find_block(fn_text, b)
        except Unsupported:
            continue
        body = fn_text[b + 1:e - 1]
        head = body.lstrip()[:40]
        if not head.startswith("IntegerOrInfinity::"):
            continue
        mc = re.match(r"\s*as\s+(usize|u64|i64)\b", fn_text[e:e + 20])
        out.append((fn_text[m.end():b].strip(), body, mc.group(1) if mc else None))
    return out


def fn_texts(src):
    """{fn name: text} for every fn item (first definition wins)."""
    out = {}
    for m in re.finditer(r"\bfn\s+(\w+)\s*(?:<[^>]*>)?\s*\(", src):
        b = src.find("{", m.end())
        semi = src.find(";", m.end())
        if b < 0 or (0 <= semi < b):
            continue
        try:
            e = rs2v.find_block(src, b)
        except Unsupported:
            continue
        out.setdefault(m.group(1), src[m.start():e])
    return out


HEADER = """(* GENERATED by tools/gen_c02b.py from %s -- do not edit; regenerated on every run.
   One definition per `match <IntegerOrInfinity> { ... }` index computation: (p, free variables, s : ioi) -> res (option Z);
   `Ok None` = the arm returns from the builtin early; `Panic` = a Rust operator overflowed (profile-dependent). *)
From Coq Require Import ZArith Bool List.
From C02 Require Import Model_C02 DeepModel_C02.
Local Open Scope Z_scope.
""" % ", ".join(FILES.values())


def js_expect_sites(repo):
    """Enumerate the js_expect / expect sites of the engine with a coarse reachability class (evidence only)."""
    root = os.path.join(repo, "core", "engine", "src")
    sites = []
    for dp, dn, fn in os.walk(root):
        dn.sort()
        for f in sorted(fn):
            if not f.endswith(".rs") or f == "tests.rs" or "/tests" in dp:
                continue
            p = os.path.join(dp, f)
            try:
                lines = open(p, encoding="utf8", errors="replace").read().split("\n")
            except OSError:
                continue
            for k, line in enumerate(lines):
                m = re.search(r"\.(js_expect|expect)\(\s*\"([^\"]*)\"", line)
                if not m:
                    continue
                ctx = " ".join(lines[max(0, k - 6):k + 1])
                # a step that can run user code or allocate through a constructor call can be cut short by a runtime limit
                calls_js = bool(re.search(r"\.call\(|\.construct\(|PromiseCapability::new|create_data_property|define_property_or_throw|"
                                          r"\.get\(|\.set\(|array_create|species_constructor|\bconstruct\b|to_string\(context\)|to_primitive|"
                                          r"promise_resolve|new_promise_capability|\.invoke\(|iterator|resume\(", ctx))
                sites.append({"file": os.path.relpath(p, repo), "line": k + 1, "kind": m.group(1), "message": m.group(2),
                              "class": ("js_expect:may-run-js-or-construct (a RuntimeLimit error would surface as EnginePanic)" if m.group(1) == "js_expect" and calls_js else
                                        "js_expect:internal-invariant" if m.group(1) == "js_expect" else
                                        "expect:may-run-js-or-construct (a RuntimeLimit error would PANIC)" if calls_js else "expect:internal-invariant")})
    return sites


def generate(repo):
    out = [HEADER]
    info = {"pinned": [], "other_translated": [], "refused": []}
    pinned_left = dict(PINNED)
    for key, rel in FILES.items():
        src = rs2v.strip_attrs_and_docs(open(os.path.join(repo, rel)).read())
        for fname, text in sorted(fn_texts(src).items()):
            ms = find_matches(text)
            for k, (scrut, body, cast) in enumerate(ms, 1):
                site = (key, fname, k)
                name = PINNED.get(site) or "%s_%s_%d" % (key, fname, k)
                try:
                    code, free, rty = translate_match(text, scrut, body, cast)
                except Unsupported as e:
                    if site in PINNED:
                        raise Unsupported("pinned site %s::%s #%d: %s" % (rel, fname, k, e))
                    info["refused"].append({"site": "%s::%s#%d" % (key, fname, k), "why": str(e)})
                    continue
                params = "".join(" (%s : Z)" % n for n in sorted(free))
                out.append("(* %s  fn %s, IntegerOrInfinity match #%d; free variables: %s; result type %s *)" %
                           (rel, fname, k, ", ".join("%s : %s" % (n, free[n]) for n in sorted(free)) or "-", rty))
                out.append("Definition %s (p : profile)%s (s : ioi) : res (option Z) :=\n  %s." % (name, params, code))
                if site in PINNED:
                    info["pinned"].append({"site": "%s::%s#%d" % (key, fname, k), "name": name, "free": sorted(free)})
                    pinned_left.pop(site)
                else:
                    info["other_translated"].append({"site": "%s::%s#%d" % (key, fname, k), "name": name})
    if pinned_left:
        raise Unsupported("pinned sites not found: %r" % sorted(pinned_left))
    # JumpTable: the script-controlled register is read as i32, cast with `as usize` and used ONLY through `.get(..)`
    jt = rs2v.strip_attrs_and_docs(open(os.path.join(repo, JUMP_RS)).read())
    mm = re.search(r"impl\s+JumpTable\s*\{", jt)
    if not mm:
        raise Unsupported("JumpTable not found")
    b = jt[mm.end():rs2v.find_block(jt, mm.end() - 1)]
    if not re.search(r"value\.as_i32\(\)\.map\(\|i\|\s*i\s+as\s+usize\)", b) or not re.search(r"addresses\.get\(offset\)", b) \
            or re.search(r"addresses\s*\[", b):
        raise Unsupported("JumpTable no longer reads the index as `as_i32().map(|i| i as usize)` + `addresses.get(offset)`")
    out.append("(* vm/opcode/control_flow/jump.rs JumpTable: `value.as_i32().map(|i| i as usize)` then `addresses.get(offset)` *)")
    out.append("Definition jump_table_target (addresses : list Z) (i : Z) : option Z := nth_error addresses (Z.to_nat (i32_as_usize i)).")
    info["js_expect_sites"] = js_expect_sites(repo)
    return "\n".join(out) + "\n", info


if __name__ == "__main__":
    t, i = generate(sys.argv[1] if len(sys.argv) > 1 else "/repo")
    sys.stdout.write(t)
    sys.stderr.write("pinned %d, other %d, refused %d, expect sites %d\n" % (len(i["pinned"]), len(i["other_translated"]), len(i["refused"]), len(i["js_expect_sites"])))
    for r in i["refused"]:
        sys.stderr.write("  refused %s: %s\n" % (r["site"], r["why"]))
