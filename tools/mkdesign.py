#!/usr/bin/env python3
"""Rebuild the "as built" part of DESIGN.md (everything after the marker line) from design.d/:
   design.d/_coordinator.md (sections 8-11, hand written) followed by the per-property notes design.d/Cxx.md
   (headings demoted by two levels).  The part of DESIGN.md before the marker is the original design, kept as written."""
import glob, json, os, re, sys
HERE = os.path.dirname(os.path.dirname(os.path.abspath(__file__)))
MARK = "<!-- AS-BUILT: generated below this line by tools/mkdesign.py from design.d/ -->"


def main():
    p = os.path.join(HERE, "DESIGN.md")
    s = open(p).read()
    head = s.split(MARK)[0].rstrip() + "\n\n"
    out = [head, MARK, "\n\n"]
    out.append("--------------------------------------------------------------------------------------------------\n\n")
    co = os.path.join(HERE, "design.d", "_coordinator.md")
    if os.path.exists(co):
        txt = open(co).read().rstrip() + "\n\n"
        rows = ["| seeded change | property | what it changes | needs to manifest | result of the checks |", "|---|---|---|---|---|"]
        for mf in sorted(glob.glob(os.path.join(HERE, "seeded", "*", "meta.json"))):
            m = json.load(open(mf))
            res = "; ".join("**%s**: %s" % (k, v) for k, v in m.get("checks_run", {}).items())
            if m.get("strengthened"):
                res += "; *strengthening:* " + m["strengthened"]
            esc = lambda t: str(t).replace("|", "\\|").replace("\n", " ")
            rows.append("| `seeded/%s/` | %s | %s | %s | %s |" % (os.path.basename(os.path.dirname(mf)), m.get("property"), esc(m.get("change")), esc(m.get("needs_to_manifest")), esc(res)))
        txt = txt.replace("SEEDED_TABLE_PLACEHOLDER", "\n".join(rows))
        # table of checks from manifest.d + evidence
        crow = ["| id | category | pinned theorems (discharged) | technique (MANIFEST) | last committed run |", "|---|---|---|---|---|"]
        for mf in sorted(glob.glob(os.path.join(HERE, "manifest.d", "C*.json"))):
            m = json.load(open(mf))
            pid = m["property_id"]
            try:
                e = json.load(open(os.path.join(HERE, "evidence", pid + ".json")))
            except Exception:
                e = {}
            c = e.get("coverage", {})
            crow.append("| %s | %s | %s (%s) | %s | %s tier, %s evaluations, %s s |" % (pid, m["level_claimed"]["category"], c.get("obligations", "?"), c.get("discharged", "?"),
                        esc(m.get("technique", "")), e.get("tier", "?"), c.get("evaluations", "?"), int(e.get("wall_s", 0))))
        txt = txt.replace("CHECK_TABLE_PLACEHOLDER", "\n".join(crow))
        nlines = 0
        for root, _, files in os.walk(os.path.join(HERE, "coq")):
            for f in files:
                if f.endswith(".v") and "/Gen" not in root and "/work" not in root:
                    nlines += sum(1 for _ in open(os.path.join(root, f), errors="replace"))
        txt = txt.replace("COQ_LINES_PLACEHOLDER", "about %d k" % round(nlines / 1000))
        txt = txt.replace("HARNESS_BINS_PLACEHOLDER", str(len([f for f in os.listdir(os.path.join(HERE, "harness", "src", "bin")) if f.endswith(".rs")])))
        out.append(txt)
    # known findings / fixed tables
    kf = json.load(open(os.path.join(HERE, "known_findings.json")))
    out.append("## 12. Findings on the pinned tree (generated from known_findings.json)\n\n")
    out.append("### 12.1 Known findings (recorded, not repaired; each check prints `KNOWN-FINDING` for exactly these classes)\n\n")
    out.append("| id | property | class | what fails |\n|---|---|---|---|\n")
    for k in kf["findings"]:
        out.append("| %s | %s | `%s` | %s |\n" % (k["id"], k["property"], k["class"], k["what"].replace("|", "\\|").replace("\n", " ")))
    out.append("\n### 12.2 Fixed (one `fix:` commit each in /repo; a fixed entry suppresses nothing)\n\n")
    out.append("| property | commit | what failed |\n|---|---|---|\n")
    for k in kf["fixed"]:
        out.append("| %s | %s | %s |\n" % (k["property"], k["commit"][:7], k["what"].replace("|", "\\|").replace("\n", " ")))
    out.append("\n## 13. Per-property notes as built (from design.d/Cxx.md, written by the builder of each check)\n\n")
    for f in sorted(glob.glob(os.path.join(HERE, "design.d", "C*.md"))):
        t = open(f).read().rstrip()
        t = re.sub(r"^(#+) ", lambda m: "#" * min(6, len(m.group(1)) + 2) + " ", t, flags=re.M)
        out.append(t + "\n\n")
    open(p, "w").write("".join(out))
    print("DESIGN.md rebuilt: %d lines" % ("".join(out).count("\n")))


if __name__ == "__main__":
    main()
