"""Regenerate coq/Gen/StrArms.v from boa_string's sources for C11.

For every operation that coq/C11/Model_C11.v / ModelD_C11.v transliterate, the translator extracts the STRUCTURE of the Rust
function: the arms of every `match` whose patterns name a representation (`Latin1`/`Utf16` variants, the `U8`/`U16` iterator
states, the builder `Segment`s), each with a fingerprint of the normalised token sequence of its body, plus one `<body>` entry
for the rest of the function (the representation matches replaced by a placeholder).  The table is emitted as Gallina data

    Definition arms : list (string * string * N) := [ (operation, arm pattern, fingerprint); ... ].

and coq/C11/ArmsPin_C11.v proves by vm_compute that it equals `Arms_C11.expected_arms`, the table the model was written against.
Any edit to a modelled function (a new early return, a changed comparison, a new or removed arm) therefore breaks the proof on the
next run, before the correspondence has to find an input.  Comments, attributes and whitespace do not take part in a fingerprint.
A function that cannot be found or parsed makes the translator refuse (rs2v.Unsupported); the check then writes a table holding
only the refusal, which breaks the same proof.

`python3 tools/gen_c11.py --pin` prints the text of coq/C11/Arms_C11.v for the current sources (to be used only after the model
has been re-read against the changed arms).
"""
import hashlib
import os
import re
import sys

sys.path.insert(0, os.path.dirname(os.path.abspath(__file__)))
from rs2v import Unsupported

DIR = "core/string/src/"

TOK = re.compile(r"""
    (?P<ws>\s+|//[^\n]*|/\*.*?\*/)
  | (?P<str>b?"(?:[^"\\]|\\.)*")
  | (?P<chr>b?'(?:[^'\\\n]|\\(?:u\{[0-9a-fA-F_]+\}|x[0-9a-fA-F]{2}|.))')
  | (?P<life>'[A-Za-z_][A-Za-z0-9_]*)
  | (?P<num>0[xX][0-9a-fA-F_]+|0[bB][01_]+|0[oO][0-7_]+|[0-9][0-9_]*(?:\.[0-9][0-9_]*)?(?:[eE][-+]?[0-9]+)?)(?:_?(?:u8|u16|u32|u64|usize|i8|i16|i32|i64|isize|f64|f32))?
  | (?P<id>[A-Za-z_][A-Za-z0-9_]*)
  | (?P<op>\.\.=|\.\.\.|<<=|>>=|<<|>>|==|!=|<=|>=|&&|\|\||::|->|=>|\.\.|\+=|-=|\*=|/=|%=|\|=|&=|\^=|[-+*/%&|^!<>=(){}\[\],;:.#?@$~])
""", re.X | re.S)

OPEN = {"(": ")", "[": "]", "{": "}"}
CLOSE = {")", "]", "}"}
REPR_WORDS = {"Latin1", "Utf16", "U8", "U16", "String", "Str", "CodePoint"}     # constructor names that make a match representation-relevant


def tokenize(src):
    pos, out = 0, []
    while pos < len(src):
        m = TOK.match(src, pos)
        if not m:
            raise Unsupported("cannot tokenize at %r" % src[pos:pos + 40])
        pos = m.end()
        if m.group("ws") is None:
            out.append(m.group(0))
    # drop attributes  # [ ... ]  and  # ! [ ... ]
    res, i = [], 0
    while i < len(out):
        if out[i] == "#" and i + 1 < len(out) and (out[i + 1] == "[" or (out[i + 1] == "!" and i + 2 < len(out) and out[i + 2] == "[")):
            j = i + (1 if out[i + 1] == "[" else 2)
            i = match_close(out, j)
            continue
        res.append(out[i])
        i += 1
    return res


def match_close(t, i):
    """t[i] is an opening bracket; index just after its matching closer."""
    stack = []
    for k in range(i, len(t)):
        if t[k] in OPEN:
            stack.append(OPEN[t[k]])
        elif t[k] in CLOSE:
            if not stack or stack.pop() != t[k]:
                raise Unsupported("unbalanced brackets")
            if not stack:
                return k + 1
    raise Unsupported("unbalanced brackets")


def find_seq(t, seq, lo=0, hi=None):
    hi = len(t) if hi is None else hi
    n = len(seq)
    for i in range(lo, hi - n + 1):
        if t[i:i + n] == seq:
            return i
    return -1


def block_after(t, i, hi=None):
    """First `{` at or after i (not crossing `;`): (body_start, body_end) exclusive of the braces."""
    hi = len(t) if hi is None else hi
    k = i
    while k < hi and t[k] != "{":
        if t[k] == ";":
            raise Unsupported("item has no body")
        if t[k] in ("(", "["):
            k = match_close(t, k)
            continue
        k += 1
    if k >= hi:
        raise Unsupported("item has no body")
    e = match_close(t, k)
    return k + 1, e - 1


def find_fn(t, name, lo, hi, nth=0):
    """Body range of the nth `fn name` between lo and hi."""
    seen = 0
    i = lo
    while True:
        i = find_seq(t, ["fn", name], i, hi)
        if i < 0:
            raise Unsupported("fn %s not found" % name)
        if t[i + 2] in ("(", "<"):
            if seen == nth:
                return block_after(t, i + 2, hi)
            seen += 1
        i += 2


def find_header(t, header, lo=0, hi=None):
    i = find_seq(t, header.split(), lo, hi)
    if i < 0:
        raise Unsupported("`%s` not found" % header)
    return block_after(t, i + len(header.split()), hi)


def split_arms(t, lo, hi):
    """t[lo:hi] is the inside of a match block: [(pattern tokens, body tokens)]."""
    arms, i = [], lo
    while i < hi:
        # pattern up to `=>` at depth 0
        k = i
        while k < hi and t[k] != "=>":
            k = match_close(t, k) if t[k] in OPEN else k + 1
        if k >= hi:
            raise Unsupported("match arm without =>")
        pat = t[i:k]
        k += 1
        if t[k] == "{":
            e = match_close(t, k)
            body = t[k:e]
            k = e
            # a `{ .. }.method()` / `{ .. }?` continuation belongs to the body; otherwise a block arm ends at its `}`
            if k < hi and t[k] in (".", "?"):
                while k < hi and t[k] != ",":
                    k = match_close(t, k) if t[k] in OPEN else k + 1
                body = body + t[e:k]
        else:
            e = k
            while e < hi and t[e] != ",":
                e = match_close(t, e) if t[e] in OPEN else e + 1
            body = t[k:e]
            k = e
        if k < hi and t[k] == ",":
            k += 1
        arms.append((pat, body))
        i = k
    return arms


def repr_match(t, i, hi):
    """t[i] == 'match': (scrutinee, block_lo, block_hi, end) when any arm pattern names a representation, else None."""
    k = i + 1
    while k < hi and t[k] != "{":
        k = match_close(t, k) if t[k] in ("(", "[") else k + 1
    if k >= hi:
        return None
    e = match_close(t, k)
    try:
        arms = split_arms(t, k + 1, e - 1)
    except Unsupported:
        return None
    if any(REPR_WORDS & set(p) for p, _ in arms):
        return t[i + 1:k], k + 1, e - 1, e
    return None


def fp(tokens):
    return int(hashlib.sha256(" ".join(tokens).encode()).hexdigest()[:15], 16)


def arms_of(op, t, lo, hi):
    """Entries (op, pattern, fingerprint) for the function body t[lo:hi]."""
    out, rest, i, n = [], [], lo, 0
    while i < hi:
        if t[i] == "match":
            m = repr_match(t, i, hi)
            if m is not None:
                scrut, blo, bhi, end = m
                tag = "match#%d" % n
                n += 1
                rest += ["<%s" % tag] + scrut + [">"]
                for pat, body in split_arms(t, blo, bhi):
                    out.append((op, "%s: %s" % (tag, " ".join(pat)), fp(body)))
                i = end
                continue
        rest.append(t[i])
        i += 1
    return [(op, "<body>", fp(rest))] + out


# (operation name, file, how to find it)  -- `impl` headers are token sequences (blank separated)
SPEC = [
    # str.rs : JsStr
    ("JsStrVariant::len", "str.rs", ("impl JsStrVariant < '_ >", "len")),
    ("JsStr::len", "str.rs", ("impl < 'a > JsStr < 'a >", "len")),
    ("JsStr::variant", "str.rs", ("impl < 'a > JsStr < 'a >", "variant")),
    ("JsStr::to_vec", "str.rs", ("impl < 'a > JsStr < 'a >", "to_vec")),
    ("JsStr::is_empty", "str.rs", ("impl < 'a > JsStr < 'a >", "is_empty")),
    ("JsStr::starts_with", "str.rs", ("impl < 'a > JsStr < 'a >", "starts_with")),
    ("JsStr::ends_with", "str.rs", ("impl < 'a > JsStr < 'a >", "ends_with")),
    ("JsStr::index_of", "str.rs", ("impl < 'a > JsStr < 'a >", "index_of")),
    ("JsStr::code_point_at", "str.rs", ("impl < 'a > JsStr < 'a >", "code_point_at")),
    ("JsStr::to_number", "str.rs", ("impl < 'a > JsStr < 'a >", "to_number")),
    ("JsStr::code_points", "str.rs", ("impl < 'a > JsStr < 'a >", "code_points")),
    ("JsStr::contains", "str.rs", ("impl < 'a > JsStr < 'a >", "contains")),
    ("JsStr::code_points_lossy", "str.rs", ("impl < 'a > JsStr < 'a >", "code_points_lossy")),
    ("JsStr::to_std_string", "str.rs", ("impl < 'a > JsStr < 'a >", "to_std_string")),
    ("JsStr::to_std_string_lossy", "str.rs", ("impl < 'a > JsStr < 'a >", "to_std_string_lossy")),
    ("JsStr::is_latin1", "str.rs", ("impl < 'a > JsStr < 'a >", "is_latin1")),
    ("JsStr::as_latin1", "str.rs", ("impl < 'a > JsStr < 'a >", "as_latin1")),
    ("Hash for JsStr", "str.rs", ("impl Hash for JsStr < '_ >", "hash")),
    ("Ord for JsStr", "str.rs", ("impl Ord for JsStr < '_ >", "cmp")),
    ("PartialEq for JsStr", "str.rs", ("impl PartialEq for JsStr < '_ >", "eq")),
    ("PartialEq<str> for JsStr", "str.rs", ("impl PartialEq < str > for JsStr < '_ >", "eq")),
    ("PartialEq<JsStr> for [u16]", "str.rs", ("impl < 'a > PartialEq < JsStr < 'a >> for [ u16 ]", "eq")),
    ("JsSliceIndex for usize", "str.rs", ("impl < 'a > JsSliceIndex < 'a > for usize", "get")),
    ("JsSliceIndex for Range", "str.rs", ("impl < 'a > JsSliceIndex < 'a > for std :: ops :: Range < usize >", "get")),
    ("JsSliceIndex for RangeInclusive", "str.rs", ("impl < 'a > JsSliceIndex < 'a > for std :: ops :: RangeInclusive < usize >", "get")),
    ("JsSliceIndex for RangeFrom", "str.rs", ("impl < 'a > JsSliceIndex < 'a > for std :: ops :: RangeFrom < usize >", "get")),
    ("JsSliceIndex for RangeTo", "str.rs", ("impl < 'a > JsSliceIndex < 'a > for std :: ops :: RangeTo < usize >", "get")),
    # iter.rs
    ("Iter::new", "iter.rs", ("impl < 'a > Iter < 'a >", "new")),
    ("Iter::next", "iter.rs", ("impl Iterator for Iter < '_ >", "next")),
    ("Windows::new", "iter.rs", ("impl < 'a > Windows < 'a >", "new")),
    ("Windows::next", "iter.rs", ("impl < 'a > Iterator for Windows < 'a >", "next")),
    ("CodePointsIter::new", "iter.rs", ("impl < 'a > CodePointsIter < 'a >", "new")),
    ("CodePointsIter::next", "iter.rs", ("impl Iterator for CodePointsIter < '_ >", "next")),
    # lib.rs : JsString
    ("is_trimmable_whitespace", "lib.rs", (None, "is_trimmable_whitespace")),
    ("is_trimmable_whitespace_latin1", "lib.rs", (None, "is_trimmable_whitespace_latin1")),
    ("JsString::trim", "lib.rs", (None, "trim")),
    ("JsString::trim_start", "lib.rs", (None, "trim_start")),
    ("JsString::trim_end", "lib.rs", (None, "trim_end")),
    ("JsString::slice", "lib.rs", (None, "slice")),
    ("JsString::concat", "lib.rs", (None, "concat")),
    ("JsString::concat_array", "lib.rs", (None, "concat_array")),
    ("JsString::to_std_string_with_surrogates", "lib.rs", (None, "to_std_string_with_surrogates")),
    ("JsString::map_valid_segments", "lib.rs", (None, "map_valid_segments")),
    ("JsString::code_unit_at", "lib.rs", (None, "code_unit_at")),
    ("JsString::index_of", "lib.rs", (None, "index_of")),
    ("JsString::code_point_at", "lib.rs", (None, "code_point_at")),
    ("From<&[u16]> for JsString", "lib.rs", ("impl From < & [ u16 ] > for JsString", "from")),
    ("From<&str> for JsString", "lib.rs", ("impl From < & str > for JsString", "from")),
    ("From<JsStr> for JsString", "lib.rs", ("impl From < JsStr < '_ >> for JsString", "from")),
    ("PartialEq<JsString> for [u16]", "lib.rs", ("impl PartialEq < JsString > for [ u16 ]", "eq")),
    ("PartialEq<str> for JsString", "lib.rs", ("impl PartialEq < str > for JsString", "eq")),
    ("PartialEq for JsString", "lib.rs", ("impl PartialEq for JsString", "eq")),
    ("Ord for JsString", "lib.rs", ("impl Ord for JsString", "cmp")),
    ("Hash for JsString", "lib.rs", ("impl Hash for JsString", "hash")),
    ("JsStringSliceIndex::get", "lib.rs", ("macro_rules ! impl_js_string_slice_index", "get")),
    ("JsString::slice_unchecked", "lib.rs", (None, "slice_unchecked")),
    ("JsString::from_slice_skip_interning", "lib.rs", (None, "from_slice_skip_interning")),
    ("JsString::code_points", "lib.rs", (None, "code_points")),
    ("JsString::as_str", "lib.rs", (None, "as_str")),
    # vtable/*.rs : the JsStr view / code point iterator every string kind exposes
    ("seq_as_str", "vtable/sequence.rs", (None, "seq_as_str")),
    ("seq_code_points", "vtable/sequence.rs", (None, "seq_code_points")),
    ("SliceString::new", "vtable/slice.rs", ("impl SliceString", "new")),
    ("slice_as_str", "vtable/slice.rs", (None, "slice_as_str")),
    ("slice_code_points", "vtable/slice.rs", (None, "slice_code_points")),
    ("static_as_str", "vtable/static.rs", (None, "static_as_str")),
    ("static_code_points", "vtable/static.rs", (None, "static_code_points")),
    ("Hash for StaticString", "vtable/static.rs", ("impl Hash for StaticString", "hash")),
    ("PartialEq for StaticString", "vtable/static.rs", ("impl PartialEq for StaticString", "eq")),
    # common.rs
    ("StaticJsStrings::get_string", "common.rs", (None, "get_string")),
    # display.rs
    ("Display for JsStrDisplayEscaped", "display.rs", ("impl fmt :: Display for JsStrDisplayEscaped < '_ >", "fmt")),
    ("Display for JsStrDisplayLossy", "display.rs", ("impl fmt :: Display for JsStrDisplayLossy < '_ >", "fmt")),
    # builder.rs
    ("JsStringBuilder::build_inner", "builder.rs", (None, "build_inner")),
    ("JsStringBuilder<Latin1>::is_ascii", "builder.rs", ("impl JsStringBuilder < Latin1 >", "is_ascii")),
    ("JsStringBuilder<Utf16>::is_ascii", "builder.rs", ("impl JsStringBuilder < Utf16 >", "is_ascii")),
    ("Latin1JsStringBuilder::build", "builder.rs", ("impl Latin1JsStringBuilder", "build")),
    ("Latin1JsStringBuilder::build_as_latin1", "builder.rs", ("impl Latin1JsStringBuilder", "build_as_latin1")),
    ("Utf16JsStringBuilder::build", "builder.rs", ("impl Utf16JsStringBuilder", "build")),
    ("Segment::can_be_latin1", "builder.rs", ("impl Segment < '_ >", "can_be_latin1")),
    ("CommonJsStringBuilder::can_be_latin1", "builder.rs", ("impl < 'seg , 'ref_str : 'seg > CommonJsStringBuilder < 'seg >", "can_be_latin1")),
    ("CommonJsStringBuilder::build_from_latin1", "builder.rs", ("impl < 'seg , 'ref_str : 'seg > CommonJsStringBuilder < 'seg >", "build_from_latin1")),
    ("CommonJsStringBuilder::build_from_utf16", "builder.rs", ("impl < 'seg , 'ref_str : 'seg > CommonJsStringBuilder < 'seg >", "build_from_utf16")),
    ("CommonJsStringBuilder::build", "builder.rs", ("impl < 'seg , 'ref_str : 'seg > CommonJsStringBuilder < 'seg >", "build")),
    ("CommonJsStringBuilder::build_as_latin1", "builder.rs", ("impl < 'seg , 'ref_str : 'seg > CommonJsStringBuilder < 'seg >", "build_as_latin1")),
]


def table(repo):
    toks = {}
    rows = []
    for op, fname, (header, fn) in SPEC:
        if fname not in toks:
            path = os.path.join(repo, DIR, fname)
            try:
                toks[fname] = tokenize(open(path, encoding="utf8").read())
            except OSError as e:
                raise Unsupported("cannot read %s: %s" % (path, e))
        t = toks[fname]
        try:
            if header is None:
                lo, hi = 0, len(t)
            else:
                lo, hi = find_header(t, header)
            blo, bhi = find_fn(t, fn, lo, hi)
        except Unsupported as e:
            raise Unsupported("%s (%s): %s" % (op, fname, e))
        rows += arms_of("%s:%s" % (fname, op), t, blo, bhi)
    return rows


def coq_str(s):
    return '"' + s.replace('"', '""') + '"'


def render_rows(rows):
    return ";\n".join("  (%s, %s, %d%%N)" % (coq_str(op), coq_str(pat), f) for op, pat, f in rows)


HEADER = """(* GENERATED by tools/gen_c11.py from %s{str,iter,lib,common,display,builder,vtable/*}.rs -- do not edit; regenerated on every run.
   (operation, representation arm or <body>, fingerprint of the normalised tokens of that arm) *)
From Coq Require Import NArith List String.
Import ListNotations.
Local Open Scope string_scope.
""" % DIR


def generate(repo):
    rows = table(repo)
    text = HEADER + "Definition arms : list (string * string * N) := [\n%s\n].\n" % render_rows(rows)
    return text, {"operations": len(SPEC), "entries": len(rows), "rows": rows}


def refusal(msg):
    """The table written when the translator refuses: it cannot equal the pinned one."""
    return HEADER + "Definition arms : list (string * string * N) := [\n  (%s, %s, 0%%N)\n].\n" % (coq_str("<translator refused>"), coq_str(msg[:300]))


PIN_HEADER = """(* C11: the arm table of boa_string that Model_C11.v / ModelD_C11.v were written against (and `modelled_as`: which
   Gallina definition transliterates each operation).  coq/Gen/StrArms.v is regenerated from the Rust sources on every run
   by tools/gen_c11.py; ArmsPin_C11.v proves the two tables equal.  Re-pin (python3 tools/gen_c11.py --pin) ONLY after the
   changed arm has been re-read against the model.  Definitions only. *)
From Coq Require Import NArith List String.
Import ListNotations.
Local Open Scope string_scope.
"""


def parse_table(vtext):
    return [(a.replace('""', '"'), b.replace('""', '"'), int(c)) for a, b, c in
            re.findall(r'\(\s*"((?:[^"]|"")*)"\s*,\s*"((?:[^"]|"")*)"\s*,\s*(\d+)%N\s*\)', vtext)]


def diff(expected, got):
    """Human-readable difference between two tables (lists of rows)."""
    e = {(a, b): c for a, b, c in expected}
    g = {(a, b): c for a, b, c in got}
    out = []
    for k in g:
        if k not in e:
            out.append("new arm       %s | %s" % k)
        elif e[k] != g[k]:
            out.append("changed arm   %s | %s" % k)
    for k in e:
        if k not in g:
            out.append("removed arm   %s | %s" % k)
    return out


if __name__ == "__main__":
    repo = os.environ.get("VERIF_REPO", "/repo")
    if "--pin" in sys.argv:
        rows = table(repo)
        print(PIN_HEADER + "Definition expected_arms : list (string * string * N) := [\n%s\n]." % render_rows(rows))
    else:
        print(generate(repo)[0])
