#!/usr/bin/env python3
"""Rebuild the `fixed` list of known_findings.json from /repo's `fix:` commits (subject -> property table below)."""
import json, os, subprocess, sys
HERE = os.path.dirname(os.path.dirname(os.path.abspath(__file__)))
PROP = [  # (substring of the subject, property, what failed)
    ("canonicalise NaN in the enum-based", "C12", "NaN payload read from a Float64Array and written back differed between the NaN-boxed and the enum value representation"),
    ("i32 remainder fast path", "C02", "`a % b` with a = i32::MIN, b = -1 panicked (VM fast path and constant folder)"),
    ("unary minus on i32::MIN", "C02", "`-~2147483647` panicked with overflow checks on and gave -2147483648 without"),
    ("integer division fast path returned +0", "C05", "`1/(0/-5)` folded to Infinity (unoptimized: -Infinity); also C01: 0 / -5 was +0"),
    ("JsStr == str compared bytes", "C11", "`JsStr == str`: Latin-1 arm compared bytes with UTF-8 bytes; UTF-16 arm accepted proper prefixes (JsString::from(\"abπ\") == \"ab\")"),
    ("x ** 2 to x * x for identifiers", "C05", "`var b=3n; b ** 2` gave 9n with the optimizer (TypeError without); valueOf/global getter ran twice"),
    ("dropped for-in/of var declarations", "C05", "`if (false) { for (var y of []) {} } y;` threw ReferenceError with the optimizer"),
    ("dead code elimination changed completion values", "C05", "`1; if (true) {}` evaluated to 1 with the optimizer (undefined without); same for while(false), for(;false;)"),
    ("constant folding of logical expressions leaked references", "C05", "`(true && o.m)()` called with this = o; `(false || eval)(s)` became a direct eval (panic inside a function); `delete (1 && o.p)` deleted"),
    ("exponent part after binary, octal", "C13", "`0b1e1`, `0o7e1`, `07e1` lexed as numeric literals"),
    ("parseInt accumulated long digit strings", "C13", "`parseInt(\"1234567890123456789\")` was not the double nearest to the integer"),
    ("StringToNumber accepted signed inf", "C13", "`Number(\"-inf\")`, `Number(\"0x+1\")` accepted; long 0b/0o/0x literals rounded per digit"),
    ("toFixed printed wrong digits", "C13", "`(1e-22).toFixed(22)` printed wrong digits (ryu-js skips blocks without zeroing)"),
    ("toExponential and toPrecision rounded inexactly", "C13", "`(2.5).toExponential(0)` was 2e+0, `(5e-324).toPrecision(1)` was 0e+101, double rounding through a 100-digit string"),
    ("ToInt8/ToUint8/ToInt16/ToUint16", "C15", "`setUint8(0, 3.5e38)` stored 255; `new Int8Array(new Uint8Array([239]))[0]` was 127; Uint8Clamped from 0.5 was 1"),
    ("JSON.parse rejected valid JSON texts", "C18", "`JSON.parse('1e400')`, `'\"\\\\ud800\"'`, raw lone surrogates and MAX_VALUE spellings threw SyntaxError"),
    ("direct eval inside class methods", "C04", "`function f(){let x=1;const o={m(){return eval(\"x\")}};return o.m()}` panicked (binding kept in a register)"),
    ("function bodies accepted duplicate lexical", "C01", "`function f(){ let a; let a; }` and `new Function('let q; var q;')` were accepted"),
    ("object rest element kept keys", "C01", "`var {a:{x}, ...r} = {a:{x:1}, b:2}` left `a` in r"),
    ("body var shadowing a parameter", "C01", "`function f(a, b=()=>a){ var a; return a }; f(1)` returned undefined / threw instead of 1"),
    ("two nested finally blocks shared a jump-table", "C03", "break/continue/return crossing two nested finally blocks selected the same jump-table entry (`for(...){try{try{if(i==0)continue;break}finally{}}finally{}}` ran 3 iterations)"),
    ("binary operator read a local's register", "C04", "`function f(){let x=1;return x+(x=5)}` returned 10"),
    ("binding of a named function expression", "C04", "`(function fact(){return eval(\"typeof fact\")})()` panicked"),
    ("loop-invariant hoisting of const operands", "C04", "const operand hoisted out of do-while / with / past side-effecting operands: TDZ error timing and with-resolution changed"),
    ("postfix update on a local returned", "C04", "`let p='5'; let q=p++` gave q the string '5'; a throwing ToNumeric cleared the local"),
    ("cached property set on an accessor without setter", "C06", "strict `o.p = 3` through a warm inline cache on a setter-less accessor returned silently (uncached: TypeError)"),
    ("inline cache entries for prototype slots", "C06", "cached PROTOTYPE slot survived layout changes of the prototype: wrong property read, accessor function returned, or index-out-of-bounds panic"),
    ("unique shapes kept their identity", "C06", "cached `globalThis.y = v` still wrote after `writable:false` (same-width attribute change kept the unique shape's identity)"),
    ("failed host entries left values on the VM stack", "C07", "uncaught throw from a callee / runtime-limit errors left this/function/args/registers on the value stack; ~1000 failed evals made every later eval fail"),
    ("engine error inside an async generator body", "C08", "`(async function*(){ for(;;){} })().next()` with a loop limit panicked on assert!(!result.is_throw_completion())"),
    ("engine errors after an await were dropped", "C08", "`(async function(){ await 1; for(;;){} })()` with a loop limit: the RuntimeLimitError was dropped, run_jobs returned Ok"),
    ("array's length bypassed ArraySetLength", "C14", "`function f(o,v){o.length=v}; f(a,5); f(a,3)` through a warm inline cache left elements above the new length"),
    ("SharedArrayBuffer.prototype.slice threw for empty", "C15", "`new SharedArrayBuffer(0).slice()` threw TypeError"),
    ("AsyncModuleExecutionFulfilled rejected the wrong module", "C17", "a throwing importer of an async module panicked (`error.is_some()`)"),
    ("GatherAvailableAncestors lost async parents", "C17", "with the previous repair alone a module whose dependency threw was fulfilled"),
    ("PendingAsyncDependencies of cycle members", "C17", "a cycle above a module with top-level await never settled / ran in the wrong order / panicked"),
    ("module var bindings were not initialized", "C17", "an importer in a cycle reading an exported var before the exporter ran threw ReferenceError (spec: undefined)"),
    ("exponentiation with a NaN exponent", "C01", "`let e = NaN; 1 ** e` evaluated to 1 (spec: NaN)"),
    ("VM division fast path returned +0", "C01", "`let a = 0, b = -1; 1 / (a / b)` in a function printed Infinity (div_fast returned integer 0 for 0 / -n)"),
    ("inline cache remembered a slot that user code had invalidated", "C02", "`Object.defineProperty(P.prototype,'a',{get(){ delete P.prototype.a; return 1 },configurable:true}); rd(o); rd(o); rd(o)` panicked (index out of bounds): the slot was cached after the getter had deleted the property"),
    ("set_length fast path kept elements", "C14", "`Array.of.call(function(){return [1,2,3,4,5]}, 9)` returned length 1 with keys 0..4 (species results of slice/splice/concat likewise)"),
    ("SetPropertyByValue fast path ignored the receiver", "C14", "`super[i] = v` with an array as the home object's prototype wrote into the prototype array"),
    ("labelled break out of a nested iterator loop", "C03", "`for (k of [0,1]) { B: for (x of [7,8]) { for (v of [1]) break B } }` looped forever: the inner iterator record stayed on the frame's iterator stack (C01 class label-jump-through-nested-iterator-loops, C03 class iterator-stack-depth-merge)"),
    ("at overflowed on i64::MIN", "C02", "`\"a\".at(-1e30)` and `[1].at(-1e30)` panicked (overflow checks) / indexed out of range"),
    ("stored entries that an accessor had made stale", "C06", "a getter that memoises on the receiver or turns its property into a data property: cached reads kept calling the getter / called the stored function / a cached strict set panicked"),
    ("linking a source-text module left its frame", "C07", "every linked source-text module left 2 + register_count values on the VM stack"),
    ("engine error raised while an exception was pending", "C07", "`try { throw 1 } catch (e) { throw 2 } finally { for(;;){} }` under a loop limit left pending_exception set; a later generator.return() threw the stale 2"),
    ("continue to an outer label of a label set", "C08", "`a: b: do { if (++n>300) break; continue a; } while(true)` with loop limit 3 ran 301 bodies: the jump skipped the condition and IncrementLoopIteration (also a C01 deviation: do-while condition skipped, for initializer re-run)"),
    ("iterator-consuming builtins were not subject to the loop-iteration limit", "C08", "`[...it]`, `Array.from(it)`, `new Set(it)`, `var [...r]=it`, `Promise.all(it)` over an endless user iterator were never stopped by the loop-iteration limit"),
    ("cached super.x = v wrote into the super object", "C06", "`H={m(v){super.p0=v}}` with super = A: after `m.call(A,5); m.call(A,6)` a warm site made `m.call(r,7)` write into A instead of defining r.p0"),
    ("AST printer dropped the sign of a negative infinite literal", "C05", "after the C19 numbers repair every infinite literal printed as 1e999: the optimized AST of `print(-1 / 0)` printed as `print(1e999)` (found by C05's rewrite-text correspondence in the thorough tier)"),
    ("AST printer", "C19", None),
    ("Map/Set clear() under a live iterator", "C20", "`m.clear(); m.set(4,4); it.next()` on a running iterator reported done (spec/V8: 4) — deterministic deviation found by the C20 model refinement"),
    ("for_each_native looped forever", "C20", "JsMap/JsSet::for_each_native hung on a Map that had a deletion while an iterator was alive"),
]


def main():
    log = subprocess.run(["git", "-C", "/repo", "log", "--format=%H\t%s", "-200"], capture_output=True, text=True).stdout.splitlines()
    fixed, unknown = [], []
    for l in reversed(log):
        h, s = l.split("\t", 1)
        if not s.startswith("fix:"):
            continue
        for sub, prop, what in PROP:
            if sub in s:
                w = what or s[5:]
                fixed.append({"property": prop, "commit": h, "what": w, "line": "fixed: property=%s %s %s" % (prop, h[:7], w)})
                break
        else:
            unknown.append(s)
    p = os.path.join(HERE, "known_findings.json")
    kf = json.load(open(p))
    kf["fixed"] = fixed
    json.dump(kf, open(p, "w"), indent=1, ensure_ascii=False)
    print("%d fixed entries" % len(fixed))
    for u in unknown:
        print("UNMAPPED:", u)


if __name__ == "__main__":
    main()
