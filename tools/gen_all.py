"""Run every translator (source -> coq/Gen/*.v).  Each check also runs its own translator."""
import os
import sys
HERE = os.path.dirname(os.path.dirname(os.path.abspath(__file__)))
sys.path.insert(0, os.path.join(HERE, "lib"))
import vlib


def generate_all(repo):
    import gen_c12
    text, _ = gen_c12.generate(repo)
    vlib.write_if_changed(os.path.join(vlib.COQ, "Gen", "NanBits.v"), text)


if __name__ == "__main__":
    generate_all(vlib.REPO)
