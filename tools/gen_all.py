"""Run every translator (source -> coq/Gen/*.v).  Each check also runs its own translator.

Registry: (module in tools/, output file under coq/Gen/).  A translator that refuses its input
(rs2v.Unsupported or anything else) is reported here and left to the owning check, which turns the
refusal into a PROOF-BROKEN verdict; the stale output (if any) is removed so the theories depending
on it cannot be checked against yesterday's source.
"""
import importlib
import os
import sys
HERE = os.path.dirname(os.path.dirname(os.path.abspath(__file__)))
sys.path.insert(0, os.path.join(HERE, "lib"))
sys.path.insert(0, os.path.join(HERE, "tools"))
import vlib

REGISTRY = [
    ("gen_c12", "NanBits.v"),
    ("gen_c09", "GcHeader.v"),
    ("gen_c16", "OpcodeCost.v"),
    ("gen_c03", "OpcodeSig.v"),
    ("gen_c06", "SlotFlags.v"),
    ("gen_c02", "FastPaths.v"),
    ("gen_c02b", "IndexPaths.v"),
    ("gen_c11", "StrArms.v"),
]


def generate_all(repo):
    problems = []
    for mod, out in REGISTRY:
        if not os.path.exists(os.path.join(HERE, "tools", mod + ".py")):
            continue
        path = os.path.join(vlib.COQ, "Gen", out)
        try:
            m = importlib.import_module(mod)
            text, _ = m.generate(repo)
            vlib.write_if_changed(path, text)
        except Exception as e:  # refusal: owning check reports it
            problems.append("%s: %s" % (mod, e))
            try:
                os.remove(path)
            except OSError:
                pass
    return problems


if __name__ == "__main__":
    for p in generate_all(vlib.REPO):
        print("translator problem:", p)
