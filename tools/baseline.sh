#!/bin/bash
# Run the repository's own test suite with the verification guard OFF (no --cfg boa_verif).
# Usage: tools/baseline.sh [repo_dir]   -> prints a summary line; exit 0 iff no test failed.
REPO=${1:-/repo}
cd "$REPO" || exit 2
export CARGO_NET_OFFLINE=true
unset RUSTFLAGS
if cargo nextest --version >/dev/null 2>&1; then
  cargo nextest run --workspace --no-fail-fast --test-threads 8 --offline 2>&1 | tail -40
  exit ${PIPESTATUS[0]}
else
  cargo test --workspace --no-fail-fast --offline 2>&1 | grep -E "^test result|FAILED|failed" | tail -60
  exit ${PIPESTATUS[0]}
fi
