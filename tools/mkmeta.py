#!/usr/bin/env python3
"""mkmeta.py <id> <property> <json-file-with-fields> : write seeded/<id>/meta.json (coordinator helper)."""
import json, sys, os
HERE = os.path.dirname(os.path.dirname(os.path.abspath(__file__)))
sid, prop, src = sys.argv[1:4]
d = json.load(open(src))
m = {"property": prop, "source": "independent sub-agent (given only the property text and a scratch worktree; nothing from /verif)"}
m.update(d)
json.dump(m, open(os.path.join(HERE, "seeded", sid, "meta.json"), "w"), indent=1)
