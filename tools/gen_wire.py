"""Single description of the JSRef AST wire format.

From this table are generated
  * coq/JSRef/Wire.v  — the Gallina decoder  sexp -> AST  (type-checked by Coq against Syntax.v, so a
                         mismatch between this table and the AST is a compile error), and
  * the Python encoder used by the generators (gen/jsast.py imports TYPES / encode from here).
Wire format: sexp := A n | L [sexp...];  a constructor is  L (A tag :: fields);  records are  L fields;
str = L [A unit...];  option = L [] | L [x];  bool = A 0|1;  Z = L [A sign, A abs];  tuples = L [..].
"""
import os
import sys

ENUMS = {
    "unop": ["UNeg", "UPos", "UNot", "UBitNot", "UTypeof", "UVoid"],
    "binop": ["BAdd", "BSub", "BMul", "BDiv", "BMod", "BExp", "BBitAnd", "BBitOr", "BBitXor", "BShl", "BShr", "BUShr",
              "BLt", "BLe", "BGt", "BGe", "BEq", "BNe", "BSEq", "BSNe", "BIn", "BInstanceof"],
    "logop": ["LAnd", "LOr", "LCoalesce"],
    "decl_kind": ["KVar", "KLet", "KConst"],
    "fkind": ["FNormal", "FArrow", "FMethod", "FGetter", "FSetter", "FGenerator", "FAsync", "FAsyncArrow", "FAsyncGenerator",
              "FCtorBase", "FCtorDerived", "FFieldInit"],
    "member_kind": ["MMethod", "MGetter", "MSetter", "MField"],
}

TYPES = {
    "expr": [
        ("ENum", ["N"]), ("EStr", ["str"]), ("EBool", ["bool"]), ("ENull", []), ("EBigInt", ["Z"]), ("EId", ["str"]),
        ("EThis", []), ("ENewTarget", []), ("EArray", ["list:arr_elem"]), ("EObject", ["list:propdef"]),
        ("EFunc", ["nat"]), ("EClass", ["nat"]), ("EUnary", ["unop", "expr"]), ("EDelete", ["expr"]),
        ("EBinary", ["binop", "expr", "expr"]), ("ELogical", ["logop", "expr", "expr"]), ("EAssign", ["pat", "expr"]),
        ("EOpAssign", ["binop", "expr", "expr"]), ("ELogAssign", ["logop", "expr", "expr"]),
        ("EUpdate", ["bool", "bool", "expr"]), ("ECond", ["expr", "expr", "expr"]),
        ("ECall", ["expr", "list:arg", "bool"]), ("ENew", ["expr", "list:arg"]),
        ("EMember", ["expr", "str", "bool"]), ("EIndex", ["expr", "expr", "bool"]),
        ("ESuperMember", ["str"]), ("ESuperIndex", ["expr"]), ("ESuperCall", ["list:arg"]),
        ("ESeq", ["expr", "expr"]), ("ETemplate", ["list:str", "list:expr"]), ("EParen", ["expr"]), ("EOptChain", ["expr"]),
    ],
    "arr_elem": [("AElem", ["expr"]), ("ASpread", ["expr"]), ("AHole", [])],
    "arg": [("Arg", ["expr"]), ("ArgSpread", ["expr"])],
    "propkey": [("PKStr", ["str"]), ("PKNum", ["N"]), ("PKComputed", ["expr"])],
    "propdef": [("PInit", ["propkey", "expr"]), ("PMethod", ["propkey", "nat"]), ("PGet", ["propkey", "nat"]),
                ("PSet", ["propkey", "nat"]), ("PSpread", ["expr"]), ("PProto", ["expr"])],
    "pat": [("PId", ["str"]), ("PExpr", ["expr"]),
            ("PObj", ["list:tuple:propkey,pat,opt:expr", "opt:pat"]),
            ("PArr", ["list:opt:tuple:pat,opt:expr", "opt:pat"])],
    "for_init": [("FINone", []), ("FIExpr", ["expr"]), ("FIDecl", ["decl_kind", "list:tuple:pat,opt:expr"])],
    "for_head": [("FHDecl", ["decl_kind", "pat"]), ("FHPat", ["pat"])],
    "stmt": [
        ("SExpr", ["expr"]), ("SDecl", ["decl_kind", "list:tuple:pat,opt:expr"]), ("SFunDecl", ["str", "nat"]),
        ("SClassDecl", ["str", "nat"]), ("SBlock", ["list:stmt"]), ("SIf", ["expr", "stmt", "opt:stmt"]),
        ("SFor", ["for_init", "opt:expr", "opt:expr", "stmt"]), ("SForIn", ["for_head", "expr", "stmt"]),
        ("SForOf", ["for_head", "expr", "stmt"]), ("SWhile", ["expr", "stmt"]), ("SDoWhile", ["stmt", "expr"]),
        ("SSwitch", ["expr", "list:tuple:opt:expr,list:stmt"]), ("SLabel", ["str", "stmt"]),
        ("SBreak", ["opt:str"]), ("SContinue", ["opt:str"]), ("SReturn", ["opt:expr"]), ("SThrow", ["expr"]),
        ("STry", ["list:stmt", "opt:tuple:opt:pat,list:stmt", "opt:list:stmt"]), ("SEmpty", []),
        ("SWith", ["expr", "stmt"]),
        ("SYield", ["opt:pat", "opt:decl_kind", "opt:expr", "bool"]), ("SAwait", ["opt:pat", "opt:decl_kind", "expr"]),
        ("SReturnAwait", ["expr"]), ("SDirectEval", ["opt:pat", "list:stmt", "bool"]),
    ],
}

RECORDS = {
    "func": [("f_name", "str"), ("f_kind", "fkind"), ("f_params", "list:tuple:pat,opt:expr"), ("f_rest", "opt:pat"),
             ("f_body", "list:stmt"), ("f_expr_body", "opt:expr"), ("f_strict", "bool"), ("f_uses_args", "bool")],
    "class_member": [("cm_static", "bool"), ("cm_kind", "member_kind"), ("cm_key", "propkey"), ("cm_fidx", "opt:nat")],
    "classdef": [("c_name", "str"), ("c_heritage", "opt:expr"), ("c_ctor", "opt:nat"), ("c_members", "list:class_member")],
    "prog": [("p_funcs", "list:func"), ("p_classes", "list:classdef"), ("p_body", "list:stmt"), ("p_strict", "bool")],
}

CTOR_TAG = {}
CTOR_TYPE = {}
for _t, _cs in TYPES.items():
    for _i, (_c, _f) in enumerate(_cs):
        CTOR_TAG[_c] = _i
        CTOR_TYPE[_c] = (_t, _f)
ENUM_TAG = {}
for _t, _cs in ENUMS.items():
    for _i, _c in enumerate(_cs):
        ENUM_TAG[_c] = (_t, _i)


# ------------------------------------------------------------------ Python encoder

def split_tuple(spec):
    """'tuple:a,b,opt:c' -> component specs, respecting nested tuple: only at the end"""
    body = spec[len("tuple:"):]
    parts, depth, cur = [], 0, ""
    i = 0
    # components are comma separated; a component may itself start with list:/opt: and contain 'tuple:' only as the LAST one
    toks = body.split(",")
    j = 0
    while j < len(toks):
        t = toks[j]
        if "tuple:" in t:
            parts.append(",".join(toks[j:]))
            break
        parts.append(t)
        j += 1
    return parts


def enc(spec, v):
    if spec == "N" or spec == "nat":
        return str(int(v))
    if spec == "bool":
        return "1" if v else "0"
    if spec == "Z":
        return "(%d %d)" % (1 if v < 0 else 0, abs(int(v)))
    if spec == "str":
        return "(" + " ".join(str(u) for u in v) + ")"
    if spec.startswith("list:"):
        return "(" + " ".join(enc(spec[5:], x) for x in v) + ")"
    if spec.startswith("opt:"):
        return "()" if v is None else "(" + enc(spec[4:], v) + ")"
    if spec.startswith("tuple:"):
        comps = split_tuple(spec)
        assert len(comps) == len(v), (spec, v)
        return "(" + " ".join(enc(c, x) for c, x in zip(comps, v)) + ")"
    if spec in ENUMS:
        return str(ENUMS[spec].index(v))
    if spec in TYPES:
        ctor = v[0]
        t, fields = CTOR_TYPE[ctor]
        assert t == spec, (spec, ctor)
        assert len(fields) == len(v) - 1, (ctor, v)
        return "(" + " ".join([str(CTOR_TAG[ctor])] + [enc(f, x) for f, x in zip(fields, v[1:])]) + ")"
    if spec in RECORDS:
        return "(" + " ".join(enc(ft, v[fn]) for fn, ft in RECORDS[spec]) + ")"
    raise ValueError(spec)


def encode_prog(p):
    return enc("prog", p)


def units(s):
    """Python str -> list of UTF-16 code units"""
    b = s.encode("utf-16-le", "surrogatepass")
    return [b[i] | (b[i + 1] << 8) for i in range(0, len(b), 2)]


# ------------------------------------------------------------------ Coq decoder generator

def coq_type(spec):
    if spec in ("N", "Z", "nat", "bool", "str"):
        return spec
    if spec.startswith("list:"):
        return "(list %s)" % coq_type(spec[5:])
    if spec.startswith("opt:"):
        return "(option %s)" % coq_type(spec[4:])
    if spec.startswith("tuple:"):
        return "(" + " * ".join(coq_type(c) for c in split_tuple(spec)) + ")"
    return spec


def dec_expr(spec, fuel="n'"):
    """Gallina term of type sexp -> option T"""
    if spec == "N":
        return "d_N"
    if spec == "nat":
        return "d_nat"
    if spec == "bool":
        return "d_bool"
    if spec == "Z":
        return "d_Z"
    if spec == "str":
        return "d_str"
    if spec.startswith("list:"):
        return "(d_list %s)" % dec_expr(spec[5:], fuel)
    if spec.startswith("opt:"):
        return "(d_opt %s)" % dec_expr(spec[4:], fuel)
    if spec.startswith("tuple:"):
        comps = split_tuple(spec)
        names = ["x%d" % i for i in range(len(comps))]
        pat = "L [" + "; ".join("s_%s" % n for n in names) + "]"
        body = "Some (" + ", ".join(names) + ")"
        for n, c in reversed(list(zip(names, comps))):
            body = "match %s s_%s with Some %s => %s | None => None end" % (dec_expr(c, fuel), n, n, body)
        return "(fun s => match s with %s => %s | _ => None end)" % (pat, body)
    if spec in ENUMS:
        return "d_%s" % spec
    return "(d_%s %s)" % (spec, fuel)


def gen_coq():
    out = []
    out.append("(* GENERATED by tools/gen_wire.py -- the decoder of the wire format into the JSRef AST. *)")
    out.append("From Coq Require Import ZArith NArith List Bool.")
    out.append("From JSRef Require Import Syntax.")
    out.append("Import ListNotations.")
    out.append("")
    out.append("Inductive sexp := A (n : N) | L (l : list sexp).")
    out.append("")
    out.append("Definition d_N (s : sexp) : option N := match s with A n => Some n | _ => None end.")
    out.append("Definition d_nat (s : sexp) : option nat := match s with A n => Some (N.to_nat n) | _ => None end.")
    out.append("Definition d_bool (s : sexp) : option bool := match s with A 0%N => Some false | A 1%N => Some true | _ => None end.")
    out.append("Definition d_Z (s : sexp) : option Z := match s with L [A sg; A m] => Some (if N.eqb sg 1 then (- Z.of_N m)%Z else Z.of_N m) | _ => None end.")
    out.append("Definition d_list {T} (d : sexp -> option T) (s : sexp) : option (list T) :=")
    out.append("  match s with")
    out.append("  | L l => (fix go (l : list sexp) : option (list T) :=")
    out.append("              match l with [] => Some [] | x :: t => match d x, go t with Some a, Some r => Some (a :: r) | _, _ => None end end) l")
    out.append("  | _ => None end.")
    out.append("Definition d_str (s : sexp) : option str := d_list d_N s.")
    out.append("Definition d_opt {T} (d : sexp -> option T) (s : sexp) : option (option T) :=")
    out.append("  match s with L [] => Some None | L [x] => match d x with Some a => Some (Some a) | None => None end | _ => None end.")
    for t, cs in ENUMS.items():
        arms = " | ".join("A %d%%N => Some %s" % (i, c) for i, c in enumerate(cs))
        out.append("Definition d_%s (s : sexp) : option %s := match s with %s | _ => None end." % (t, t, arms))
    out.append("")
    first = True
    allt = list(TYPES.items())
    for t, cs in allt:
        out.append("%s d_%s (n : nat) (s : sexp) {struct n} : option %s :=" % ("Fixpoint" if first else "with", t, t))
        first = False
        out.append("  match n with O => None | S n' =>")
        out.append("  match s with")
        for i, (c, fields) in enumerate(cs):
            names = ["x%d" % j for j in range(len(fields))]
            pat = "L (A %d%%N :: [%s])" % (i, "; ".join("s_%s" % nm for nm in names)) if fields else "L [A %d%%N]" % i
            body = "Some (%s)" % " ".join([c] + names) if fields else "Some %s" % c
            for nm, f in reversed(list(zip(names, fields))):
                body = "match %s s_%s with Some %s => %s | None => None end" % (dec_expr(f), nm, nm, body)
            out.append("  | %s => %s" % (pat, body))
        out.append("  | _ => None")
        out.append("  end end")
    out[-1] += "."
    out.append("")
    for r, fields in RECORDS.items():
        names = ["x%d" % j for j in range(len(fields))]
        pat = "L [" + "; ".join("s_%s" % nm for nm in names) + "]"
        body = "Some {| " + "; ".join("%s := %s" % (fn, nm) for (fn, _), nm in zip(fields, names)) + " |}"
        for nm, (fn, ft) in reversed(list(zip(names, fields))):
            d = dec_expr(ft, "n")
            body = "match %s s_%s with Some %s => %s | None => None end" % (d, nm, nm, body)
        out.append("Definition d_%s (n : nat) (s : sexp) : option %s :=" % (r, r))
        out.append("  match s with %s => %s | _ => None end." % (pat, body))
    out.append("")
    return "\n".join(out) + "\n"


if __name__ == "__main__":
    here = os.path.dirname(os.path.dirname(os.path.abspath(__file__)))
    path = os.path.join(here, "coq", "JSRef", "Wire.v")
    txt = gen_coq()
    old = open(path).read() if os.path.exists(path) else None
    if old != txt:
        open(path, "w").write(txt)
    print("wrote", path)
