#!/usr/bin/env python3
"""Assemble MANIFEST.json from manifest.d/*.json and validate it and the evidence files against the schemas.

  tools/assemble.py            rewrite MANIFEST.json (checks = manifest.d entries whose check module exists)
  tools/assemble.py --validate only validate MANIFEST.json and evidence/*.json
Properties without a manifest.d entry stay under not_applicable with the reason in NOT_CLAIMED (or a generic one).
"""
import glob
import json
import os
import subprocess
import sys

HERE = os.path.dirname(os.path.dirname(os.path.abspath(__file__)))
SCHEMAS = "/root/.vp"
NOT_CLAIMED = {}
try:
    NOT_CLAIMED = json.load(open(os.path.join(HERE, "manifest.d", "_not_claimed.json")))
except Exception:
    pass


try:
    READY = json.load(open(os.path.join(HERE, "manifest.d", "_ready.json")))
except Exception:
    READY = []


def validate(obj, schema_path):
    try:
        import jsonschema
    except ImportError:
        # the tooling venv has it
        code = ("import json,sys,jsonschema; s=json.load(open(sys.argv[1])); o=json.load(sys.stdin); "
                "v=jsonschema.Draft202012Validator(s); es=[e.message[:300]+' @ '+'/'.join(map(str,e.path)) for e in v.iter_errors(o)]; print(json.dumps(es))")
        p = subprocess.run(["python3-vt", "-c", code, schema_path], input=json.dumps(obj), capture_output=True, text=True)
        if p.returncode != 0:
            return ["validator unavailable: " + p.stderr[-300:]]
        return json.loads(p.stdout)
    s = json.load(open(schema_path))
    v = jsonschema.Draft202012Validator(s)
    return [e.message[:300] + " @ " + "/".join(map(str, e.path)) for e in v.iter_errors(obj)]


def main():
    only_validate = "--validate" in sys.argv
    mpath = os.path.join(HERE, "MANIFEST.json")
    m = json.load(open(mpath))
    props = [json.loads(l)["id"] for l in open(os.path.join(HERE, "properties.jsonl")) if l.strip()]
    if not only_validate:
        checks = []
        for f in sorted(glob.glob(os.path.join(HERE, "manifest.d", "C*.json"))):
            e = json.load(open(f))
            pid = e["property_id"]
            if pid not in READY:
                print("skip %s: not in manifest.d/_ready.json" % pid)
                continue
            if not os.path.exists(os.path.join(HERE, "checks", pid.lower() + ".py")):
                print("skip %s: no check module" % pid)
                continue
            checks.append(e)
        claimed = [c["property_id"] for c in checks]
        m["checks"] = checks
        for eng in m["engines"]:
            eng["serves_properties"] = claimed
        m["not_applicable"] = [{"property_id": p, "reason": NOT_CLAIMED.get(p, "check under construction; not claimed until its proof and correspondence are green on the unchanged tree")}
                               for p in props if p not in claimed]
        json.dump(m, open(mpath, "w"), indent=1)
        print("MANIFEST.json: %d checks (%s), %d not claimed" % (len(checks), ",".join(claimed), len(m["not_applicable"])))
    errs = validate(m, os.path.join(SCHEMAS, "MANIFEST.schema.json"))
    for e in errs:
        print("MANIFEST:", e)
    bad = bool(errs)
    for c in m["checks"]:
        ev = os.path.join(HERE, c["evidence_file"])
        if not os.path.exists(ev):
            print("evidence missing:", c["evidence_file"])
            continue
        o = json.load(open(ev))
        es = validate(o, os.path.join(SCHEMAS, "EVIDENCE.schema.json"))
        lvl = c["level_claimed"]["category"]
        if o.get("level") != lvl:
            es.append("evidence level %r != claimed category %r" % (o.get("level"), lvl))
        for e in es:
            print(c["evidence_file"] + ":", e)
            bad = True
    return 1 if bad else 0


if __name__ == "__main__":
    sys.exit(main())
