"""Regenerate coq/Gen/OpcodeSig.v from the boa sources (C03).

Extracted on every run:
  * the variant list of the `generate_opcodes! { ... }` invocation in vm/opcode/mod.rs: position = opcode byte,
    name, and for every field its name and Rust type (= operand kind, because encode/decode of an instruction are
    *derived* from these types by the macro: `<($($FieldType),*)>::decode(bytes, pc + 1)`);
  * which variants are `=> Reserved` mappings;
and *checked* (a mismatch is `Unsupported`, reported by the check as PROOF-BROKEN, never ignored):
  * every operand type is one of the kinds the model knows, and args.rs encodes RegisterOperand / IndexOperand /
    Address as one little-endian u32 and ThinVec<T> as u32 length + elements;
  * `Handler::contains(pc) = pc < end && pc >= start`, `Handler::handler() = end`, `find_handler` searches the
    handler list from the back (`.rev().find(contains)`);
  * `handle_error` looks the handler up at `pc.saturating_sub(1)`, `Throw`/`ReThrow` at `pc - 1`, and the caller
    walk of `handle_throw` at the caller's (already advanced) `pc`;
  * `Vm::handle_exception_at` has one of the known shapes; which one decides the generated flags
    HANDLER_TRUNCATES_STACK / HANDLER_TRUNCATES_BINDINGS (what happens to the value stack and to
    `binding_stack` when control enters a handler).

Output: an inductive `opcode` with one constructor per non-reserved variant (so that the hand-written effect table
in coq/C03/Bytecode_C03.v is a `match` that Coq checks for exhaustiveness: an opcode added, removed or renamed in
Rust breaks the build of the model), `opcode_of_byte`, `opcode_sig` (operand kinds), `opcode_name`.
"""
import os
import re
import sys

sys.path.insert(0, os.path.dirname(os.path.abspath(__file__)))
from rs2v import Unsupported, find_block, strip_attrs_and_docs

OPDIR = "core/engine/src/vm/opcode"
MODRS = OPDIR + "/mod.rs"
ARGSRS = OPDIR + "/args.rs"
VMRS = "core/engine/src/vm/mod.rs"
CBRS = "core/engine/src/vm/code_block.rs"
THROWRS = OPDIR + "/control_flow/throw.rs"

KINDS = {
    "RegisterOperand": "KReg",
    "IndexOperand": "KIdx",
    "Address": "KAddr",
    "u32": "KU32",
    "u64": "KU64",
    "i8": "KInt", "i16": "KInt", "i32": "KInt", "f32": "KImm", "f64": "KImm",
    "ThinVec<RegisterOperand>": "KVecReg",
    "ThinVec<Address>": "KVecAddr",
    "ThinVec<u32>": "KVecU32",
}


def strip_comments(src):
    src = re.sub(r"/\*.*?\*/", "", src, flags=re.S)
    src = re.sub(r"//[^\n]*", "", src)
    return src


def _norm(s):
    return re.sub(r"\s+", " ", s).strip()


def _squeeze(s):
    return re.sub(r"\s*([(){}\[\].,;:|&=<>!+\-*])\s*", r"\1", _norm(s))


def split_top(s):
    out, depth, cur = [], 0, []
    for ch in s:
        if ch in "{([<":
            depth += 1
        elif ch in "})]>":
            depth -= 1
        if ch == "," and depth == 0:
            out.append("".join(cur))
            cur = []
        else:
            cur.append(ch)
    if "".join(cur).strip():
        out.append("".join(cur))
    return [x.strip() for x in out if x.strip()]


def variants(modsrc):
    m = re.search(r"^generate_opcodes!\s*\{", modsrc, re.M)
    if not m:
        raise Unsupported("generate_opcodes! invocation not found")
    b = m.end() - 1
    e = find_block(modsrc, b)
    body = strip_comments(strip_attrs_and_docs(modsrc[b + 1:e - 1]))
    res = []
    for item in split_top(body.replace("=>", "\x00")):
        item = item.replace("\x00", "=>")
        mm = re.match(r"^([A-Z]\w*)\s*(\{.*\})?\s*(=>\s*(\w+))?$", item, re.S)
        if not mm:
            raise Unsupported("cannot parse opcode variant: %r" % item[:80])
        name, fields, mapping = mm.group(1), mm.group(2), mm.group(4)
        fl = []
        if fields:
            for f in split_top(fields.strip()[1:-1]):
                fm = re.match(r"^(\w+)\s*:\s*(.+)$", f, re.S)
                if not fm:
                    raise Unsupported("cannot parse field %r of %s" % (f, name))
                ty = re.sub(r"\s+", "", fm.group(2))
                if ty not in KINDS:
                    raise Unsupported("operand type %s of %s.%s is outside the modelled kinds" % (ty, name, fm.group(1)))
                fl.append((fm.group(1), ty))
        if mapping is not None and fl:
            raise Unsupported("mapped variant %s has fields" % name)
        res.append((name, fl, mapping))
    return res


def fn_body(text, header_re):
    m = re.search(header_re, text)
    if not m:
        raise Unsupported("pattern not found: " + header_re)
    b = text.index("{", m.end() - 1)
    return text[b:find_block(text, b)]


def check_macro(modsrc):
    m = re.search(r"macro_rules!\s*generate_opcodes\s*\{", modsrc)
    if not m:
        raise Unsupported("macro_rules! generate_opcodes not found")
    b = m.end() - 1
    mac = _squeeze(strip_comments(modsrc[b:find_block(modsrc, b)]))
    need = [
        "let(args,next_pc)=<($($($FieldType),*)?)>::decode(bytes,pc+1);",
        "context.vm.frame_mut().pc=next_pc as u32;",
        "let(($($($FieldName),*)?),read_size)=<($($($FieldType),*)?)>::decode(bytes,pc+1);",
        "encode_instruction(Opcode::$Variant,($($($FieldName),*)?),&mut self.bytes,);",
        "#[repr(u8)]pub(crate)enum Opcode{$($(#[$comment $($args)*])*$Variant),*}",
    ]
    for n in need:
        if _squeeze(n) not in mac:
            raise Unsupported("generate_opcodes! no longer contains `%s` (operand decoding is derived from the field types)" % n)


def check_args(argsrc):
    a = _squeeze(strip_comments(argsrc))
    for ty in ("IndexOperand", "RegisterOperand", "Address"):
        mm = re.search(r"impl Argument for %s\{(.*?)\}\}" % ty, a)
        if not mm or "write_u32(bytes,self.0);" not in mm.group(1) or "read::<u32>(bytes,pos);" not in mm.group(1):
            raise Unsupported("args.rs: %s is no longer encoded as one u32" % ty)
    mm = re.search(r"impl<T:Argument>Argument for ThinVec<T>\{(.*?)\}\}\}", a)
    if not mm or "write_u32(bytes,self.len()as u32);" not in mm.group(1) or "let(len,mut pos)=read::<u32>(bytes,pos);" not in mm.group(1):
        raise Unsupported("args.rs: ThinVec<T> is no longer encoded as u32 length + elements")


HANDLE_EXC_UNTOUCHED = """{
    let frame = self.frame_mut();
    let Some((_, handler)) = frame.code_block().find_handler(pc) else { return false; };
    let catch_address = handler.handler();
    let environment_sp = frame.env_fp + handler.environment_count;
    frame.pc = u32::from(catch_address);
    self.frame_mut().environments.truncate(environment_sp as usize);
    true
}"""

# the shape proposed by fixes.d/C03-handler-entry-truncate.patch: entering a handler also drops the values this
# frame (and unwound callees) left above the register file and the pending binding references
HANDLE_EXC_TRUNCATING = """{
    let frame = self.frame_mut();
    let Some((_, handler)) = frame.code_block().find_handler(pc) else { return false; };
    let catch_address = handler.handler();
    let environment_sp = frame.env_fp + handler.environment_count;
    frame.pc = u32::from(catch_address);
    frame.binding_stack.clear();
    let stack_sp = frame.rp as usize + frame.code_block().register_count as usize;
    self.frame_mut().environments.truncate(environment_sp as usize);
    self.stack.stack.truncate(stack_sp);
    true
}"""


def check_vm(vmsrc, cbsrc, throwsrc):
    vm = strip_comments(vmsrc)
    body = _squeeze(fn_body(vm, r"pub\(crate\) fn handle_exception_at\(&mut self,\s*pc:\s*u32\)\s*->\s*bool\s*\{"))
    if body == _squeeze(HANDLE_EXC_UNTOUCHED):
        trunc_stack, trunc_bind = False, False
    elif body == _squeeze(HANDLE_EXC_TRUNCATING):
        trunc_stack, trunc_bind = True, True
    else:
        raise Unsupported("Vm::handle_exception_at has none of the shapes the exception edge of coq/C03/Bytecode_C03.v transliterates")
    he = _squeeze(fn_body(vm, r"fn handle_error\(&mut self,\s*mut err:\s*JsError\)\s*->\s*ControlFlow<CompletionRecord>\s*\{"))
    if _squeeze("let pc = self.vm.frame().pc.saturating_sub(1); if self.vm.handle_exception_at(pc) {") not in he:
        raise Unsupported("handle_error no longer looks the handler up at pc.saturating_sub(1)")
    ht = _squeeze(fn_body(vm, r"fn handle_throw\(&mut self\)\s*->\s*ControlFlow<CompletionRecord>\s*\{"))
    if _squeeze("let pc = self.vm.frame().pc; let exit_early = self.vm.frame().exit_early(); if self.vm.handle_exception_at(pc) { return ControlFlow::Continue(()); }") not in ht:
        raise Unsupported("handle_throw no longer looks the caller's handler up at the caller's (advanced) pc")
    cb = strip_comments(cbsrc)
    c = _squeeze(fn_body(cb, r"pub\(crate\) const fn contains\(&self,\s*pc:\s*u32\)\s*->\s*bool\s*\{"))
    if c != _squeeze("{ pc < self.end.as_u32() && pc >= self.start.as_u32() }"):
        raise Unsupported("Handler::contains is no longer `start <= pc < end`")
    h = _squeeze(fn_body(cb, r"pub\(crate\) const fn handler\(&self\)\s*->\s*Address\s*\{"))
    if h != "{self.end}":
        raise Unsupported("Handler::handler is no longer `end`")
    fh = _squeeze(fn_body(cb, r"pub\(crate\) fn find_handler\(&self,\s*pc:\s*u32\)\s*->\s*Option<\(usize,\s*&Handler\)>\s*\{"))
    if fh != _squeeze("{ self.handlers.iter().enumerate().rev().find(|(_, handler)| handler.contains(pc)) }"):
        raise Unsupported("CodeBlock::find_handler is no longer `handlers.iter().enumerate().rev().find(contains)`")
    th = _squeeze(strip_comments(throwsrc))
    if _squeeze("let pc = context.vm.frame().pc - 1; if context.vm.handle_exception_at(pc) { return ControlFlow::Continue(()); } context.handle_throw()") not in th:
        raise Unsupported("Throw::operation no longer looks the handler up at pc - 1")
    if _squeeze("let pc = context.vm.frame().pc.saturating_sub(1); if context.vm.handle_exception_at(pc) { return ControlFlow::Continue(()); } if context.vm.pending_exception.is_none() { return context.handle_return(); } context.handle_throw()") not in th:
        raise Unsupported("ReThrow::operation changed shape")
    return trunc_stack, trunc_bind


RETKINDS = {"()": "RUnit", "JsResult<()>": "RResult", "JsError": "RError", "ControlFlow<CompletionRecord>": "RControl"}


def ret_kinds(repo):
    """{struct name: return type of its `operation`} from direct impls and from the impl-generating macros.
    The dispatch macro turns the return value into control flow through IntoCompletionRecord:
    () -> continue; JsResult<()> -> Err goes to handle_error; JsError -> always handle_error; ControlFlow -> as is."""
    table = {}
    root = os.path.join(repo, OPDIR)
    sig = re.compile(r"fn\s+operation\s*\((.*?)\)\s*(?:->\s*([^{]+?))?\s*\{", re.S)
    for dp, _, files in sorted(os.walk(root)):
        for f in sorted(files):
            if not f.endswith(".rs"):
                continue
            path = os.path.join(dp, f)
            rel = os.path.relpath(path, repo)
            src = strip_comments(open(path).read())
            macros = {}
            for m in re.finditer(r"macro_rules!\s*(\w+)\s*\{", src):
                b = m.end() - 1
                body = src[b:find_block(src, b)]
                im = re.search(r"impl \$(\w+)\s*\{", body)
                if not im or m.group(1) == "generate_opcodes":
                    continue
                first = re.search(r"\(\s*\$(\w+):ident", body)
                mm = sig.search(body[im.end():])
                if not first or first.group(1) != im.group(1) or not mm:
                    raise Unsupported("macro %s in %s: cannot determine the operation it defines" % (m.group(1), rel))
                macros[m.group(1)] = re.sub(r"\s+", "", mm.group(2) or "()")
            nomac = src
            for m in reversed(list(re.finditer(r"macro_rules!\s*(\w+)\s*\{", src))):
                b = m.end() - 1
                nomac = nomac[:m.start()] + nomac[find_block(nomac, b):]
            for im in re.finditer(r"\bimpl\s+(\w+)\s*\{", nomac):
                b = im.end() - 1
                body = nomac[b:find_block(nomac, b)]
                mm = sig.search(body)
                if not mm:
                    continue
                if im.group(1) in table:
                    raise Unsupported("two `operation` definitions for %s" % im.group(1))
                table[im.group(1)] = re.sub(r"\s+", "", mm.group(2) or "()")
            for mac, rt in macros.items():
                for inv in re.finditer(r"\b%s!\s*\(\s*(\w+)\s*," % re.escape(mac), nomac):
                    if inv.group(1) in table:
                        raise Unsupported("two `operation` definitions for %s" % inv.group(1))
                    table[inv.group(1)] = rt
    return table


def check_completion(repo):
    src = _squeeze(strip_comments(open(os.path.join(repo, "core/engine/src/vm/completion_record.rs")).read()))
    need = [
        "impl IntoCompletionRecord for(){#[inline(always)]fn into_completion_record(self,_:&mut Context)->ControlFlow<CompletionRecord>{ControlFlow::Continue(())}}",
        "impl IntoCompletionRecord for JsError{#[inline(always)]fn into_completion_record(self,context:&mut Context)->ControlFlow<CompletionRecord>{context.handle_error(self)}}",
        "impl IntoCompletionRecord for JsResult<()>{#[inline(always)]fn into_completion_record(self,context:&mut Context)->ControlFlow<CompletionRecord>{match self{Ok(())=>ControlFlow::Continue(()),Err(err)=>context.handle_error(err),}}}",
        "impl IntoCompletionRecord for ControlFlow<CompletionRecord>{#[inline(always)]fn into_completion_record(self,_:&mut Context)->ControlFlow<CompletionRecord>{self}}",
    ]
    for n in need:
        if n not in src:
            raise Unsupported("completion_record.rs: IntoCompletionRecord impls changed (%s...)" % n[:60])


def generate(repo):
    rd = lambda p: open(os.path.join(repo, p)).read()
    modsrc = rd(MODRS)
    vs = variants(modsrc)
    check_macro(modsrc)
    check_args(rd(ARGSRS))
    trunc_stack, trunc_bind = check_vm(rd(VMRS), rd(CBRS), rd(THROWRS))
    if len(vs) != 256:
        raise Unsupported("generate_opcodes! lists %d variants; Opcode::from(u8) needs exactly 256" % len(vs))
    check_completion(repo)
    rets = ret_kinds(repo)
    seen = set()
    real = []
    for byte, (name, fl, mapping) in enumerate(vs):
        if name in seen:
            raise Unsupported("duplicate opcode variant " + name)
        seen.add(name)
        if mapping is not None:
            if mapping != "Reserved":
                raise Unsupported("variant %s maps to %s (only `=> Reserved` is understood)" % (name, mapping))
        else:
            real.append((byte, name, fl))
    L = []
    L.append("(* GENERATED by tools/gen_c03.py from %s, %s, %s, %s -- do not edit; regenerated on every run *)" % (MODRS, ARGSRS, VMRS, CBRS))
    L.append("From Coq Require Import NArith List String.")
    L.append("Import ListNotations.")
    L.append("Local Open Scope N_scope.")
    L.append("")
    L.append("(* operand kinds = the Rust field types of generate_opcodes! (encode/decode are derived from them) *)")
    L.append("Inductive opkind := KReg | KIdx | KAddr | KU32 | KU64 | KInt | KImm | KVecReg | KVecAddr | KVecU32.")
    L.append("")
    L.append("(* one constructor per executable opcode; all `=> Reserved` bytes share Op_Reserved *)")
    L.append("Inductive opcode :=")
    for _, name, _ in real:
        L.append("| Op_%s" % name)
    L.append("| Op_Reserved.")
    L.append("")
    L.append("Definition opcode_of_byte (b : N) : opcode :=")
    L.append("  match b with")
    for byte, name, _ in real:
        L.append("  | %d => Op_%s" % (byte, name))
    L.append("  | _ => Op_Reserved")
    L.append("  end.")
    L.append("")
    L.append("Definition opcode_sig (o : opcode) : list opkind :=")
    L.append("  match o with")
    for _, name, fl in real:
        L.append("  | Op_%s => [%s]" % (name, "; ".join(KINDS[t] for _, t in fl)))
    L.append("  | Op_Reserved => []")
    L.append("  end.")
    L.append("")
    L.append("Definition opcode_name (o : opcode) : string :=")
    L.append("  match o with")
    for _, name, _ in real:
        L.append('  | Op_%s => "%s"' % (name, name))
    L.append('  | Op_Reserved => "Reserved"')
    L.append("  end%string.")
    L.append("")
    L.append("(* field names, for diagnostics and for the dump reader's cross-check *)")
    L.append("Definition opcode_fields (o : opcode) : list string :=")
    L.append("  match o with")
    for _, name, fl in real:
        L.append("  | Op_%s => [%s]" % (name, "; ".join('"%s"' % f for f, _ in fl)))
    L.append("  | Op_Reserved => []")
    L.append("  end%string.")
    L.append("")
    fnames = []
    for _, name, fl in real:
        for f, _ in fl:
            if f not in fnames:
                fnames.append(f)
    L.append("(* operand field names *)")
    L.append("Inductive fname := " + " | ".join("F_" + f for f in fnames) + ".")
    L.append("")
    L.append("Definition opcode_fnames (o : opcode) : list fname :=")
    L.append("  match o with")
    for _, name, fl in real:
        L.append("  | Op_%s => [%s]" % (name, "; ".join("F_" + f for f, _ in fl)))
    L.append("  | Op_Reserved => []")
    L.append("  end.")
    L.append("")
    L.append("(* return type of the opcode's `operation` (how the dispatch macro turns it into control flow):")
    L.append("   RUnit `()` cannot throw; RResult `JsResult<()>` Err -> handle_error; RError `JsError` always handle_error;")
    L.append("   RControl `ControlFlow<CompletionRecord>` hand-modelled *)")
    L.append("Inductive retkind := RUnit | RResult | RError | RControl.")
    L.append("")
    L.append("Definition opcode_ret (o : opcode) : retkind :=")
    L.append("  match o with")
    for _, name, _ in real:
        if name not in rets:
            raise Unsupported("no `operation` found for opcode %s" % name)
        if rets[name] not in RETKINDS:
            raise Unsupported("operation of %s returns %s" % (name, rets[name]))
        L.append("  | Op_%s => %s" % (name, RETKINDS[rets[name]]))
    L.append("  | Op_Reserved => RUnit")
    L.append("  end.")
    L.append("")
    L.append("Definition all_opcodes : list opcode := [")
    L.append("  " + "; ".join("Op_" + name for _, name, _ in real) + "; Op_Reserved].")
    L.append("")
    L.append("Definition OPCODE_COUNT : N := %d.   (* executable opcodes *)" % len(real))
    L.append("Definition RESERVED_COUNT : N := %d." % (256 - len(real)))
    L.append("")
    L.append("(* Vm::handle_exception_at: what entering a handler does besides pc := end and truncating the environments *)")
    L.append("Definition HANDLER_TRUNCATES_STACK : bool := %s." % ("true" if trunc_stack else "false"))
    L.append("Definition HANDLER_TRUNCATES_BINDINGS : bool := %s." % ("true" if trunc_bind else "false"))
    L.append("")
    info = {"variants": 256, "executable": len(real), "reserved": 256 - len(real),
            "handler_truncates_stack": trunc_stack, "handler_truncates_bindings": trunc_bind,
            "ret": {name: rets[name] for _, name, _ in real}, "fields": {name: fl for _, name, fl in real}, "bytes": {name: byte for byte, name, _ in real}}
    return "\n".join(L), info


if __name__ == "__main__":
    text, info = generate(sys.argv[1] if len(sys.argv) > 1 else "/repo")
    print({k: v for k, v in info.items() if k not in ("fields", "bytes", "ret")})
    if len(sys.argv) > 2:
        open(sys.argv[2], "w").write(text)
