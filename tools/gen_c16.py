"""Regenerate coq/Gen/OpcodeCost.v from the boa sources (C16, model B).

Extracted on every run:
  * the variant list of the `generate_opcodes! { ... }` invocation in vm/opcode/mod.rs (order = opcode byte),
    including which variants are `=> Reserved` mappings;
  * `const COST: u8 = n;` of every `impl Operation for X` under vm/opcode/** — written directly, or through one
    of the `macro_rules!` that expand to an `impl Operation for $name` (implement_bin_ops!, implement_store_*!),
    and the COST the generate_opcodes! macro itself gives to mapped (reserved) variants;
and *checked* (a mismatch is `Unsupported`, reported by the check as PROOF-BROKEN, never ignored):
  * the two handler templates of generate_opcodes! are token-identical except for the single statement
    `*budget = budget.saturating_sub(u32::from($Variant::COST));` (section hypothesis `handlers_agree` of Budget.v);
  * both dispatch tables are built from the same variant list in the same order;
  * `run_async_with_budget` / `run` in vm/mod.rs have the loop shape that Budget.v transliterates;
  * `Reserved::operation` is `unreachable!`.
"""
import os
import re
import sys

sys.path.insert(0, os.path.dirname(os.path.abspath(__file__)))
from rs2v import Unsupported, find_block, strip_attrs_and_docs

OPDIR = "core/engine/src/vm/opcode"
MODRS = OPDIR + "/mod.rs"
VMRS = "core/engine/src/vm/mod.rs"


def _norm(s):
    return re.sub(r"\s+", " ", s).strip()


def strip_comments(src):
    src = re.sub(r"/\*.*?\*/", "", src, flags=re.S)
    src = re.sub(r"//[^\n]*", "", src)
    return src


def split_top(s):
    """split at commas that are not inside braces/parens/brackets/angle-free (types here have no generics with commas)"""
    out, depth, cur = [], 0, []
    for ch in s:
        if ch in "{([":
            depth += 1
        elif ch in "})]":
            depth -= 1
        if ch == "," and depth == 0:
            out.append("".join(cur))
            cur = []
        else:
            cur.append(ch)
    if "".join(cur).strip():
        out.append("".join(cur))
    return [x.strip() for x in out if x.strip()]


def variants(modsrc):
    m = re.search(r"^generate_opcodes!\s*\{", modsrc, re.M)
    if not m:
        raise Unsupported("generate_opcodes! invocation not found")
    b = m.end() - 1
    e = find_block(modsrc, b)
    body = strip_attrs_and_docs(modsrc[b + 1:e - 1])
    res = []
    for item in split_top(body):
        mm = re.match(r"^([A-Z]\w*)\s*(\{.*\})?\s*(=>\s*(\w+))?$", item, re.S)
        if not mm:
            raise Unsupported("cannot parse opcode variant: %r" % item[:80])
        name, fields, mapping = mm.group(1), mm.group(2), mm.group(4)
        nfields = len(split_top(fields[1:-1])) if fields else 0
        res.append((name, nfields, mapping))
    return res


def macro_def(modsrc):
    m = re.search(r"macro_rules!\s*generate_opcodes\s*\{", modsrc)
    if not m:
        raise Unsupported("macro_rules! generate_opcodes not found")
    b = m.end() - 1
    return strip_comments(modsrc[b:find_block(modsrc, b)])


def fn_body(text, header_re):
    m = re.search(header_re, text)
    if not m:
        raise Unsupported("pattern not found: " + header_re)
    b = text.index("{", m.end())
    return text[b:find_block(text, b)]


BUDGET_LINE = "*budget = budget.saturating_sub(u32::from($Variant::COST));"


def check_macro(mac):
    h = fn_body(mac, r"fn\s*\[<handle_\s*\$Variant:snake>\]\s*\(context:\s*&mut Context,\s*pc:\s*usize\)\s*->\s*ControlFlow<CompletionRecord>")
    hb = fn_body(mac, r"fn\s*\[<handle_\s*\$Variant:snake\s+_budget>\]\s*\(context:\s*&mut Context,\s*pc:\s*usize,\s*budget:\s*&mut u32\)\s*->\s*ControlFlow<CompletionRecord>")
    nb = _norm(hb)
    if nb.count(_norm(BUDGET_LINE)) != 1:
        raise Unsupported("budget handler does not contain exactly one `%s`" % BUDGET_LINE)
    if not nb.startswith("{ " + _norm(BUDGET_LINE)):
        raise Unsupported("the budget subtraction is not the first statement of the budget handler")
    if _norm(nb.replace(_norm(BUDGET_LINE), "", 1)) != _norm(h):
        raise Unsupported("handle_X and handle_X_budget differ in more than the budget statement")
    if "$Variant::operation(args, context)" not in h:
        raise Unsupported("handler does not call $Variant::operation")
    # both tables: one entry per variant, same repetition
    t1 = re.search(r"const OPCODE_HANDLERS:\s*\[OpcodeHandler;\s*256\]\s*=\s*\{\s*\[\s*\$\(\s*pastey::paste!\s*\{\s*\[<handle_\s*\$Variant:snake>\]\s*\},\s*\)\*\s*\]\s*\};", mac)
    t2 = re.search(r"const OPCODE_HANDLERS_BUDGET:\s*\[OpcodeHandlerBudget;\s*256\]\s*=\s*\{\s*\[\s*\$\(\s*pastey::paste!\s*\{\s*\[<handle_\s*\$Variant:snake\s+_budget>\]\s*\},\s*\)\*\s*\]\s*\};", mac)
    if not t1 or not t2:
        raise Unsupported("OPCODE_HANDLERS / OPCODE_HANDLERS_BUDGET are not both `$( handle_$Variant[_budget], )*` tables of 256 entries")
    mm = re.search(r"impl Operation for \$Variant\s*\{(.*?)\}", mac, re.S)
    if not mm:
        raise Unsupported("mapped-variant Operation impl not found in generate_opcodes!")
    c = re.search(r"const COST:\s*u8\s*=\s*(\d+)\s*;", mm.group(1))
    if not c:
        raise Unsupported("mapped-variant COST not found")
    if not re.search(r"fn operation\(args: \(\), context: &mut Context\)\s*\{\s*\$mapping::operation\(args, context\)\s*\}", mac):
        raise Unsupported("mapped variants do not forward to $mapping::operation")
    return int(c.group(1))


def check_vm(vmsrc):
    src = strip_comments(vmsrc)
    ra = _norm(fn_body(src, r"async fn run_async_with_budget\(&mut self,\s*budget:\s*u32\)\s*->\s*CompletionRecord"))
    r = _norm(fn_body(src, r"pub\(crate\) fn run\(&mut self\)\s*->\s*CompletionRecord"))
    want_a = _norm("""{
        let mut runtime_budget: u32 = budget;
        while let Some(byte) = self.vm.frame().code_block.bytecode.bytes.get(self.vm.frame().pc as usize) {
            let opcode = Opcode::decode(*byte);
            match self.execute_one(
                |context, opcode| {
                    let frame = context.vm.frame();
                    let pc = frame.pc as usize;
                    OPCODE_HANDLERS_BUDGET[opcode as usize](context, pc, &mut runtime_budget)
                },
                opcode,
            ) {
                ControlFlow::Continue(()) => {}
                ControlFlow::Break(value) => return value,
            }
            if runtime_budget == 0 {
                runtime_budget = budget;
                yield_now().await;
            }
        }
        CompletionRecord::Throw(JsError::from_native(JsNativeError::error()))
    }""")
    want = _norm("""{
        while let Some(byte) = self.vm.frame().code_block.bytecode.bytes.get(self.vm.frame().pc as usize) {
            let opcode = Opcode::decode(*byte);
            match self.execute_one(
                |context, opcode| {
                    let frame = context.vm.frame();
                    let pc = frame.pc as usize;
                    OPCODE_HANDLERS[opcode as usize](context, pc)
                },
                opcode,
            ) {
                ControlFlow::Continue(()) => {}
                ControlFlow::Break(value) => return value,
            }
        }
        CompletionRecord::Throw(JsError::from_native(JsNativeError::error()))
    }""")
    squeeze = lambda s: re.sub(r"\s*([(){}\[\].,;|&=>])\s*", r"\1", s)
    if squeeze(ra) != squeeze(want_a):
        raise Unsupported("run_async_with_budget no longer has the loop shape transliterated in coq/C16/Budget.v")
    if squeeze(r) != squeeze(want):
        raise Unsupported("Context::run no longer has the loop shape transliterated in coq/C16/Budget.v")
    y = _norm(fn_body(src, r"fn yield_now\(\)\s*->\s*impl Future<Output = \(\)>"))
    if "self.0 = true; cx.waker().wake_by_ref(); task::Poll::Pending" not in y or "if self.0 { task::Poll::Ready(()) }" not in y:
        raise Unsupported("yield_now is no longer `pending once, then ready` without touching the context")


def costs(repo):
    """{struct name: cost} from direct impls and from the impl-generating macros."""
    table, where = {}, {}
    root = os.path.join(repo, OPDIR)
    for dp, _, files in sorted(os.walk(root)):
        for f in sorted(files):
            if not f.endswith(".rs"):
                continue
            path = os.path.join(dp, f)
            rel = os.path.relpath(path, repo)
            src = strip_comments(open(path).read())
            macros = {}
            for m in re.finditer(r"macro_rules!\s*(\w+)\s*\{", src):
                b = m.end() - 1
                body = src[b:find_block(src, b)]
                im = re.search(r"impl Operation for \$(\w+)\s*\{(.*?)\}", body, re.S)
                if not im:
                    continue
                if m.group(1) == "generate_opcodes":
                    continue
                c = re.search(r"const COST:\s*u8\s*=\s*(\d+)\s*;", im.group(2))
                first = re.search(r"\(\s*\$(\w+):ident", body)
                if not c or not first or first.group(1) != im.group(1):
                    raise Unsupported("macro %s in %s: cannot determine the COST it gives to its first ident parameter" % (m.group(1), rel))
                macros[m.group(1)] = int(c.group(1))
            # remove macro definitions before looking for direct impls / invocations
            nomac = src
            for m in reversed(list(re.finditer(r"macro_rules!\s*(\w+)\s*\{", src))):
                b = m.end() - 1
                nomac = nomac[:m.start()] + nomac[find_block(nomac, b):]
            for im in re.finditer(r"impl Operation for (\w+)\s*\{(.*?)\}", nomac, re.S):
                c = re.findall(r"const COST:\s*u8\s*=\s*(\d+)\s*;", im.group(2))
                if len(c) != 1:
                    raise Unsupported("impl Operation for %s in %s: COST is not a single u8 literal" % (im.group(1), rel))
                if im.group(1) in table:
                    raise Unsupported("two Operation impls for %s" % im.group(1))
                table[im.group(1)] = int(c[0])
                where[im.group(1)] = rel
            for mac, c in macros.items():
                for inv in re.finditer(r"\b%s!\s*\(\s*(\w+)\s*," % re.escape(mac), nomac):
                    if inv.group(1) in table:
                        raise Unsupported("two Operation impls for %s" % inv.group(1))
                    table[inv.group(1)] = c
                    where[inv.group(1)] = rel + " (" + mac + "!)"
    return table, where


def generate(repo):
    modsrc = open(os.path.join(repo, MODRS)).read()
    vmsrc = open(os.path.join(repo, VMRS)).read()
    vs = variants(modsrc)
    mapped_cost = check_macro(macro_def(modsrc))
    check_vm(vmsrc)
    table, where = costs(repo)
    if len(vs) != 256:
        raise Unsupported("generate_opcodes! lists %d variants, the dispatch tables have 256 entries" % len(vs))
    nop = strip_comments(open(os.path.join(repo, OPDIR, "nop/mod.rs")).read())
    if not re.search(r"fn operation\(\(\): \(\), _: &mut Context\)\s*\{\s*unreachable!\(", nop):
        raise Unsupported("Reserved::operation is no longer unreachable!()")
    rows, seen = [], set()
    for name, nfields, mapping in vs:
        if name in seen:
            raise Unsupported("duplicate opcode variant " + name)
        seen.add(name)
        if mapping is not None:
            if mapping != "Reserved" or mapping not in table:
                raise Unsupported("variant %s maps to %s (only `=> Reserved` is understood)" % (name, mapping))
            rows.append((name, mapped_cost, True))
        else:
            if name not in table:
                raise Unsupported("no `impl Operation for %s` found under %s" % (name, OPDIR))
            rows.append((name, table[name], False))
    unused = sorted(set(table) - seen - {"Reserved"})
    lines = ["(* GENERATED by tools/gen_c16.py from %s, %s/**/*.rs and %s -- do not edit; regenerated on every run *)" % (MODRS, OPDIR, VMRS),
             "From Coq Require Import List String.", "Import ListNotations.", "Local Open Scope string_scope.", "",
             "(* (variant name, COST, is a `=> Reserved` mapping); position in the list = opcode byte *)",
             "Definition OPCODE_TABLE : list (string * nat * bool) := ["]
    lines.append(";\n".join('  ("%s", %d, %s)' % (n, c, "true" if r else "false") for n, c, r in rows))
    lines.append("].")
    lines.append("")
    lines.append("(* COST of the struct `Reserved` itself (vm/opcode/nop/mod.rs); its operation is unreachable!() *)")
    lines.append("Definition RESERVED_STRUCT_COST : nat := %d." % table["Reserved"])
    lines.append("")
    info = {"variants": len(rows), "reserved": sum(1 for r in rows if r[2]), "impls": len(table), "unused_impls": unused,
            "cost_histogram": {}, "max_cost": max(c for _, c, _ in rows),
            "zero_cost_executable": [n for n, c, r in rows if c == 0 and not r]}
    for _, c, r in rows:
        if not r:
            info["cost_histogram"][c] = info["cost_histogram"].get(c, 0) + 1
    return "\n".join(lines), info


if __name__ == "__main__":
    text, info = generate(sys.argv[1] if len(sys.argv) > 1 else "/repo")
    print(info)
    if len(sys.argv) > 2:
        open(sys.argv[2], "w").write(text)
