"""The generators' AST: plain tuples ('Ctor', field...) mirroring coq/JSRef/Syntax.v constructor for constructor
(the table is tools/gen_wire.py, which also generates the Coq decoder).  Two printers from the same tree:
to_js (JavaScript text for boa / node) and gen_wire.encode_prog (wire S-expression for the extracted JSRef).
Strings in the AST are Python lists of UTF-16 code units (use u('...'))."""
import os
import struct
import sys

sys.path.insert(0, os.path.join(os.path.dirname(os.path.dirname(os.path.abspath(__file__))), "tools"))
import gen_wire
from gen_wire import units as u, encode_prog


def num(x):
    """ENum from a Python float/int (exact bit pattern)"""
    return ("ENum", struct.unpack("<Q", struct.pack("<d", float(x)))[0])


def s(text):
    return ("EStr", u(text))


def ident(name):
    return ("EId", u(name))


def call(f, *args):
    return ("ECall", f, [("Arg", a) for a in args], False)


def pr(*args):
    return ("SExpr", call(ident("print"), *args))


def member(o, name):
    return ("EMember", o, u(name), False)


def func(name="", kind="FNormal", params=(), rest=None, body=(), expr_body=None, strict=False, uses_args=False):
    return {"f_name": u(name), "f_kind": kind, "f_params": [(p, d) for p, d in params], "f_rest": rest,
            "f_body": list(body), "f_expr_body": expr_body, "f_strict": strict, "f_uses_args": uses_args}


def prog(body, funcs=(), classes=(), strict=False):
    return {"p_funcs": list(funcs), "p_classes": list(classes), "p_body": list(body), "p_strict": strict}


# ------------------------------------------------------------------ JavaScript printer

def ustr(units):
    out = []
    i = 0
    while i < len(units):
        c = units[i]
        if 0xD800 <= c < 0xDC00 and i + 1 < len(units) and 0xDC00 <= units[i + 1] < 0xE000:
            out.append(chr(0x10000 + ((c - 0xD800) << 10) + (units[i + 1] - 0xDC00)))
            i += 2
        else:
            out.append(chr(c))
            i += 1
    return "".join(out)


def js_string_literal(units):
    out = ['"']
    for c in units:
        if c == 0x22:
            out.append('\\"')
        elif c == 0x5C:
            out.append("\\\\")
        elif c == 0x0A:
            out.append("\\n")
        elif 0x20 <= c <= 0x7E:
            out.append(chr(c))
        else:
            out.append("\\u%04x" % c)
    out.append('"')
    return "".join(out)


def js_number(bits):
    x = struct.unpack("<d", struct.pack("<Q", bits))[0]
    if x != x:
        return "NaN"
    if x in (float("inf"), float("-inf")):
        return "Infinity" if x > 0 else "(-Infinity)"
    if x == 0 and struct.pack("<d", x)[7] & 0x80:
        return "(-0)"
    r = repr(x)
    if r.endswith(".0"):
        r = r[:-2]
    if r.startswith("-"):
        return "(" + r + ")"
    return r


UNOPS = {"UNeg": "-", "UPos": "+", "UNot": "!", "UBitNot": "~", "UTypeof": "typeof ", "UVoid": "void "}
BINOPS = {"BAdd": "+", "BSub": "-", "BMul": "*", "BDiv": "/", "BMod": "%", "BExp": "**", "BBitAnd": "&", "BBitOr": "|",
          "BBitXor": "^", "BShl": "<<", "BShr": ">>", "BUShr": ">>>", "BLt": "<", "BLe": "<=", "BGt": ">", "BGe": ">=",
          "BEq": "==", "BNe": "!=", "BSEq": "===", "BSNe": "!==", "BIn": "in", "BInstanceof": "instanceof"}
LOGOPS = {"LAnd": "&&", "LOr": "||", "LCoalesce": "??"}
DECL = {"KVar": "var", "KLet": "let", "KConst": "const"}


class Printer:
    def __init__(self, p):
        self.p = p

    # ---- keys / patterns
    def key(self, k):
        if k[0] == "PKStr":
            name = ustr(k[1])
            if name.isidentifier() and name.isascii():
                return name
            return js_string_literal(k[1])
        if k[0] == "PKNum":
            return js_number(k[1]).strip("()")
        return "[" + self.e(k[1]) + "]"

    def pat(self, p):
        if p[0] == "PId":
            return ustr(p[1])
        if p[0] == "PExpr":
            return self.target(p[1])
        if p[0] == "PObj":
            parts = []
            for (k, q, d) in p[1]:
                item = self.key(k) + ": " + self.pat(q)
                if d is not None:
                    item += " = " + self.e(d)
                parts.append(item)
            if p[2] is not None:
                parts.append("..." + self.pat(p[2]))
            return "{" + ", ".join(parts) + "}"
        if p[0] == "PArr":
            parts = []
            for el in p[1]:
                if el is None:
                    parts.append("")
                else:
                    q, d = el
                    item = self.pat(q)
                    if d is not None:
                        item += " = " + self.e(d)
                    parts.append(item)
            txt = ", ".join(parts)
            if p[1] and p[1][-1] is None and p[2] is None:
                txt += ","
            if p[2] is not None:
                txt += (", " if parts else "") + "..." + self.pat(p[2])
            return "[" + txt + "]"
        raise ValueError(p)

    def target(self, e):
        """a simple assignment target (identifier / member), never parenthesised as a whole"""
        if e[0] == "EId":
            return ustr(e[1])
        if e[0] == "EMember":
            return self.a(e[1]) + "." + ustr(e[2])
        if e[0] == "EIndex":
            return self.a(e[1]) + "[" + self.e(e[2]) + "]"
        if e[0] == "ESuperMember":
            return "super." + ustr(e[1])
        if e[0] == "EParen":
            return "(" + self.target(e[1]) + ")"
        raise ValueError(e)

    # ---- functions
    def params(self, f):
        parts = []
        for (p, d) in f["f_params"]:
            t = self.pat(p)
            if d is not None:
                t += " = " + self.e(d)
            parts.append(t)
        if f["f_rest"] is not None:
            parts.append("..." + self.pat(f["f_rest"]))
        return "(" + ", ".join(parts) + ")"

    def body(self, f):
        pre = '"use strict"; ' if (f["f_strict"] and not self.strict_ctx) else ""
        saved = self.strict_ctx
        self.strict_ctx = saved or bool(f["f_strict"])      # nested functions inherit the directive: they must not repeat it
        try:
            return "{ " + pre + " ".join(self.st(x) for x in f["f_body"]) + " }"
        finally:
            self.strict_ctx = saved

    def function(self, idx, as_decl_name=None):
        f = self.p["p_funcs"][idx]
        k = f["f_kind"]
        name = as_decl_name if as_decl_name is not None else ustr(f["f_name"])
        if k in ("FArrow", "FAsyncArrow"):
            head = ("async " if k == "FAsyncArrow" else "") + self.params(f) + " => "
            if f["f_expr_body"] is not None:
                b = self.e(f["f_expr_body"])
                return head + "(" + b + ")"
            return head + self.body(f)
        kw = {"FNormal": "function", "FGenerator": "function*", "FAsync": "async function", "FAsyncGenerator": "async function*"}[k]
        return kw + (" " + name if name else "") + self.params(f) + " " + self.body(f)

    def method(self, k, idx, static=False):
        f = self.p["p_funcs"][idx]
        kind = f["f_kind"]
        pre = {"FMethod": "", "FGetter": "get ", "FSetter": "set ", "FGenerator": "*", "FAsync": "async ", "FAsyncGenerator": "async *",
               "FCtorBase": "", "FCtorDerived": ""}[kind]
        return ("static " if static else "") + pre + self.key(k) + self.params(f) + " " + self.body(f)

    def klass(self, idx, name=None):
        c = self.p["p_classes"][idx]
        nm = name if name is not None else ustr(c["c_name"])
        out = "class" + (" " + nm if nm else "")
        if c["c_heritage"] is not None:
            out += " extends " + self.a(c["c_heritage"])
        saved = self.strict_ctx
        self.strict_ctx = True
        parts = []
        if c["c_ctor"] is not None and not self.p["p_funcs"][c["c_ctor"]].get("synthetic"):
            parts.append(self.method(("PKStr", u("constructor")), c["c_ctor"]))
        for m in c["c_members"]:
            if m["cm_kind"] == "MField":
                t = ("static " if m["cm_static"] else "") + self.key(m["cm_key"])
                if m["cm_fidx"] is not None:
                    t += " = " + self.e(self.p["p_funcs"][m["cm_fidx"]]["f_expr_body"])
                parts.append(t + ";")
            else:
                parts.append(self.method(m["cm_key"], m["cm_fidx"], m["cm_static"]))
        self.strict_ctx = saved
        return out + " { " + " ".join(parts) + " }"

    # ---- expressions: e() may return a compound expression, a() always something safe as an operand
    def a(self, e):
        t = self.e(e)
        if e[0] in ("EStr", "EBool", "ENull", "EId", "EThis", "EArray", "EParen", "ETemplate"):
            return t
        if e[0] in ("ENum", "EBigInt") and t.startswith("("):
            return t
        return "(" + t + ")"

    def args(self, args):
        return "(" + ", ".join(("..." if x[0] == "ArgSpread" else "") + self.e(x[1]) for x in args) + ")"

    def e(self, e):
        t = e[0]
        if t == "ENum":
            return js_number(e[1])
        if t == "EStr":
            return js_string_literal(e[1])
        if t == "EBool":
            return "true" if e[1] else "false"
        if t == "ENull":
            return "null"
        if t == "EBigInt":
            return ("(-%dn)" % -e[1]) if e[1] < 0 else "%dn" % e[1]
        if t == "EId":
            return ustr(e[1])
        if t == "EThis":
            return "this"
        if t == "ENewTarget":
            return "new.target"
        if t == "EArray":
            parts = []
            for el in e[1]:
                if el[0] == "AElem":
                    parts.append(self.e(el[1]))
                elif el[0] == "ASpread":
                    parts.append("..." + self.e(el[1]))
                else:
                    parts.append("")
            txt = ", ".join(parts)
            if e[1] and e[1][-1][0] == "AHole":
                txt += ","
            return "[" + txt + "]"
        if t == "EObject":
            parts = []
            for pd in e[1]:
                if pd[0] == "PInit":
                    parts.append(self.key(pd[1]) + ": " + self.e(pd[2]))
                elif pd[0] in ("PMethod", "PGet", "PSet"):
                    parts.append(self.method(pd[1], pd[2]))
                elif pd[0] == "PSpread":
                    parts.append("..." + self.e(pd[1]))
                elif pd[0] == "PProto":
                    parts.append("__proto__: " + self.e(pd[1]))
            return "{" + ", ".join(parts) + "}"
        if t == "EFunc":
            return self.function(e[1])
        if t == "EClass":
            return self.klass(e[1])
        if t == "EUnary":
            return UNOPS[e[1]] + self.a(e[2])
        if t == "EDelete":
            inner = e[1]
            if inner[0] in ("EMember", "EIndex", "EId"):
                return "delete " + self.target(inner)
            return "delete " + self.a(inner)
        if t == "EBinary":
            return self.a(e[2]) + " " + BINOPS[e[1]] + " " + self.a(e[3])
        if t == "ELogical":
            return self.a(e[2]) + " " + LOGOPS[e[1]] + " " + self.a(e[3])
        if t == "EAssign":
            tg = e[1]
            if tg[0] == "PExpr":
                return self.target(tg[1]) + " = " + self.e(e[2])
            return self.pat(tg) + " = " + self.e(e[2])
        if t == "EOpAssign":
            return self.target(e[2]) + " " + BINOPS[e[1]] + "= " + self.e(e[3])
        if t == "ELogAssign":
            return self.target(e[2]) + " " + LOGOPS[e[1]] + "= " + self.e(e[3])
        if t == "EUpdate":
            op = "++" if e[2] else "--"
            return (op + self.target(e[3])) if e[1] else (self.target(e[3]) + op)
        if t == "ECond":
            return self.a(e[1]) + " ? " + self.a(e[2]) + " : " + self.a(e[3])
        if t == "ECall":
            return self.callee(e[1]) + ("?." if e[3] else "") + self.args(e[2])
        if t == "ENew":
            return "new " + self.a(e[1]) + self.args(e[2])
        if t == "EMember":
            return self.chain_base(e[1]) + ("?." if e[3] else ".") + ustr(e[2])
        if t == "EIndex":
            return self.chain_base(e[1]) + ("?.[" if e[3] else "[") + self.e(e[2]) + "]"
        if t == "ESuperMember":
            return "super." + ustr(e[1])
        if t == "ESuperIndex":
            return "super[" + self.e(e[1]) + "]"
        if t == "ESuperCall":
            return "super" + self.args(e[1])
        if t == "ESeq":
            return "(" + self.a(e[1]) + ", " + self.a(e[2]) + ")"
        if t == "ETemplate":
            out = "`"
            for i, st in enumerate(e[1]):
                out += ustr(st).replace("\\", "\\\\").replace("`", "\\`").replace("${", "\\${")
                if i < len(e[2]):
                    out += "${" + self.e(e[2][i]) + "}"
            return out + "`"
        if t == "EParen":
            return "(" + self.e(e[1]) + ")"
        if t == "EOptChain":
            return self.e(e[1])
        raise ValueError(e)

    def chain_base(self, o):
        """object position of a member access: members/calls chain without parentheses (keeps optional chains intact)"""
        if o[0] in ("EMember", "EIndex", "ECall", "ESuperMember", "ESuperIndex", "EId", "EThis"):
            return self.e(o)
        return self.a(o)

    def callee(self, f):
        if f[0] in ("EMember", "EIndex", "ESuperMember", "ESuperIndex", "EId", "ECall"):
            return self.e(f)
        return self.a(f)

    # ---- statements
    def decls(self, ds):
        parts = []
        for (p, d) in ds:
            t = self.pat(p)
            if d is not None:
                t += " = " + self.e(d)
            parts.append(t)
        return ", ".join(parts)

    def block(self, b):
        return "{ " + " ".join(self.st(x) for x in b) + " }"

    def head(self, h):
        if h[0] == "FHDecl":
            return DECL[h[1]] + " " + self.pat(h[2])
        p = h[1]
        return self.pat(p)

    def susp_prefix(self, target, decl):
        if target is None:
            return ""
        if decl is not None:
            return DECL[decl] + " " + self.pat(target) + " = "
        return self.pat(target) + " = "

    def st(self, s_):
        t = s_[0]
        if t == "SExpr":
            x = self.e(s_[1])
            if x.startswith(("{", "function", "class", "let", "async")):
                x = "(" + x + ")"
            return x + ";"
        if t == "SDecl":
            return DECL[s_[1]] + " " + self.decls(s_[2]) + ";"
        if t == "SFunDecl":
            return self.function(s_[2], as_decl_name=ustr(s_[1]))
        if t == "SClassDecl":
            return self.klass(s_[2], name=ustr(s_[1]))
        if t == "SBlock":
            return self.block(s_[1])
        if t == "SIf":
            out = "if (" + self.e(s_[1]) + ") " + self.sub(s_[2])
            if s_[3] is not None:
                out += " else " + self.sub(s_[3])
            return out
        if t == "SFor":
            init = s_[1]
            if init[0] == "FINone":
                i = ""
            elif init[0] == "FIExpr":
                i = self.e(init[1])
            else:
                i = DECL[init[1]] + " " + self.decls(init[2])
            return "for (" + i + "; " + (self.e(s_[2]) if s_[2] is not None else "") + "; " + (self.e(s_[3]) if s_[3] is not None else "") + ") " + self.sub(s_[4])
        if t == "SForIn":
            return "for (" + self.head(s_[1]) + " in " + self.e(s_[2]) + ") " + self.sub(s_[3])
        if t == "SForOf":
            return "for (" + self.head(s_[1]) + " of " + self.a(s_[2]) + ") " + self.sub(s_[3])
        if t == "SWhile":
            return "while (" + self.e(s_[1]) + ") " + self.sub(s_[2])
        if t == "SDoWhile":
            return "do " + self.sub(s_[1]) + " while (" + self.e(s_[2]) + ");"
        if t == "SSwitch":
            parts = []
            for (ce, body) in s_[2]:
                parts.append(("case " + self.e(ce) + ":" if ce is not None else "default:") + " " + " ".join(self.st(x) for x in body))
            return "switch (" + self.e(s_[1]) + ") { " + " ".join(parts) + " }"
        if t == "SLabel":
            return ustr(s_[1]) + ": " + self.st(s_[2])
        if t == "SBreak":
            return "break" + (" " + ustr(s_[1]) if s_[1] is not None else "") + ";"
        if t == "SContinue":
            return "continue" + (" " + ustr(s_[1]) if s_[1] is not None else "") + ";"
        if t == "SReturn":
            return "return" + (" " + self.e(s_[1]) if s_[1] is not None else "") + ";"
        if t == "SThrow":
            return "throw " + self.e(s_[1]) + ";"
        if t == "STry":
            out = "try " + self.block(s_[1])
            if s_[2] is not None:
                param, hb = s_[2]
                out += " catch" + (" (" + self.pat(param) + ")" if param is not None else "") + " " + self.block(hb)
            if s_[3] is not None:
                out += " finally " + self.block(s_[3])
            return out
        if t == "SEmpty":
            return ";"
        if t == "SWith":
            return "with (" + self.e(s_[1]) + ") " + self.sub(s_[2])
        if t == "SYield":
            target, decl, e, delegate = s_[1], s_[2], s_[3], s_[4]
            y = "yield" + ("*" if delegate else "") + (" " + self.a(e) if e is not None else "")
            pre = self.susp_prefix(target, decl)
            if pre and decl is None and target[0] in ("PObj",):
                return "(" + pre + y + ");"
            return pre + ("(" + y + ")" if pre else y) + ";"
        if t == "SAwait":
            target, decl, e = s_[1], s_[2], s_[3]
            pre = self.susp_prefix(target, decl)
            if pre and decl is None and target[0] in ("PObj",):
                return "(" + pre + "await " + self.a(e) + ");"
            return pre + "await " + self.a(e) + ";"
        if t == "SReturnAwait":
            return "return await " + self.a(s_[1]) + ";"
        if t == "SDirectEval":
            target, body, strict_body = s_[1], s_[2], s_[3]
            saved = self.strict_ctx
            inner = ('"use strict"; ' if strict_body and not saved else "") + " ".join(self.st(x) for x in body)
            src = js_string_literal(u(inner))
            pre = (self.pat(target) + " = ") if target is not None else ""
            return pre + "eval(" + src + ");"
        raise ValueError(s_)

    def sub(self, s_):
        """statement in a sub-statement position (never a bare declaration)"""
        if s_[0] in ("SDecl", "SFunDecl", "SClassDecl"):
            return self.block([s_])
        return self.st(s_)

    strict_ctx = False


def to_js(p):
    pr_ = Printer(p)
    pr_.strict_ctx = False
    pre = '"use strict";\n' if p["p_strict"] else ""
    pr_.strict_ctx = p["p_strict"]
    return pre + "\n".join(pr_.st(x) for x in p["p_body"]) + "\n"


def escape_line(text):
    """program text -> one-line wire form understood by bh::unescape_units"""
    out = []
    for ch in text:
        c = ord(ch)
        if ch == "\\":
            out.append("\\\\")
        elif ch == "\n":
            out.append("\\n")
        elif ch == "\r":
            out.append("\\r")
        elif ch == "\t":
            out.append("\\t")
        elif 0x20 <= c <= 0x7E:
            out.append(ch)
        elif c > 0xFFFF:
            c -= 0x10000
            out.append("\\u%04x\\u%04x" % (0xD800 + (c >> 10), 0xDC00 + (c & 0x3FF)))
        else:
            out.append("\\u%04x" % c)
    return "".join(out)
