"""C15 history generator: ArrayBuffer / SharedArrayBuffer / TypedArray / DataView op sequences in the wire
format shared by harness/src/bin/taops.rs and ocaml/C15/c15_driver.ml.

The generator keeps an approximate shadow of the slots (what a valid op *should* have produced) only to aim
indices and offsets at the interesting boundaries; it never predicts results -- those come from the model."""
import struct

NB, NV = 6, 10
KINDS = ["i8", "u8", "c8", "i16", "u16", "i32", "u32", "i64", "u64", "f16", "f32", "f64"]
SIZE = {"i8": 1, "u8": 1, "c8": 1, "i16": 2, "u16": 2, "f16": 2, "i32": 4, "u32": 4, "f32": 4, "i64": 8, "u64": 8, "f64": 8}
BIG = {"i64", "u64"}
INTK = ["i8", "u8", "c8", "i16", "u16", "i32", "u32"]
DVK = [k for k in KINDS if k != "c8"]


def fbits(x):
    return struct.unpack("<Q", struct.pack("<d", float(x)))[0]


def fv(x):
    return "f%016x" % fbits(x)


def fb(bits):
    return "f%016x" % (bits & 0xFFFFFFFFFFFFFFFF)


# the conversion boundary set (Numbers)
NUM_EDGES = [0.0, -0.0, 0.5, -0.5, 1.5, -1.5, 2.5, 0.49999999999999994, 1.0, -1.0, 126.5, 127.0, 127.5, 128.0, -128.0, -128.5, -129.0,
             254.5, 255.0, 255.5, 256.0, 257.0, 32767.0, 32767.5, 32768.0, -32768.0, -32769.0, 65535.0, 65535.5, 65536.0, 65537.0,
             2147483647.0, 2147483648.0, 2147483649.0, -2147483648.0, -2147483649.0, 4294967295.0, 4294967296.0, 4294967297.0,
             -4294967295.0, 2.0 ** 53, 2.0 ** 53 + 2, -(2.0 ** 53), 2.0 ** 62, 2.0 ** 63, 2.0 ** 63 + 2048, -(2.0 ** 63), -(2.0 ** 63) - 2048,
             2.0 ** 63 - 1024, 2.0 ** 64, 2.0 ** 64 + 4096, -(2.0 ** 64), 1e21, 3.5e38, -3.5e38, 1e300, 1.7976931348623157e308,
             float("inf"), float("-inf"), float("nan"), 5e-324, -5e-324, 2.2250738585072014e-308, 1e-7,
             # binary32 / binary16 rounding boundaries
             3.4028234663852886e38, 3.4028235677973366e38, 3.402823567797337e38, 1.401298464324817e-45, 7.006492321624085e-46,
             7.00649232162409e-46, 1.1754943508222875e-38, 16777217.0, 16777219.0, 0.1, 1.0000000596046448, 1.00000017881393433,
             65504.0, 65519.99, 65520.0, 5.960464477539063e-08, 2.9802322387695312e-08, 2.98023223876953e-08, 2049.0, 2051.0, 0.00006103515625,
             1.0009765625, 1.00048828125, 1.00146484375]
BIG_EDGES = [0, 1, -1, 127, 128, 255, 256, 2 ** 31, 2 ** 32, 2 ** 53, 2 ** 63 - 1, 2 ** 63, 2 ** 63 + 1, -(2 ** 63), -(2 ** 63) - 1, 2 ** 64 - 1,
             2 ** 64, 2 ** 64 + 5, -(2 ** 64), -(2 ** 64) + 1, 2 ** 127 + 3, -(2 ** 100) - 7, 0x0123456789abcdef, -0x0123456789abcdef]


def gv(z):
    return ("g-%x" % -z) if z < 0 else ("g%x" % z)


class Gen:
    def __init__(self, rng, stats=None):
        self.r = rng
        self.stats = stats if stats is not None else {}
        self.allow_transfer = True     # ArrayBuffer.prototype.transfer exists only with boa's `experimental` feature
        self.allow_f16 = True
        self.fresh()

    def kind(self, pool=None):
        pool = pool or KINDS
        if not self.allow_f16:
            pool = [k for k in pool if k != "f16"]
        return self.r.choice(pool)

    def st(self, key):
        self.stats[key] = self.stats.get(key, 0) + 1

    # ---- values ----
    def number(self, kind=None):
        r = self.r
        c = r.random()
        if c < 0.45:
            self.st("val:edge")
            return fv(r.choice(NUM_EDGES))
        if c < 0.6:
            self.st("val:smallint")
            return fv(float(r.randrange(-300, 70000)))
        if c < 0.7:
            self.st("val:half")
            return fv(r.randrange(-600, 600) / 2.0 + r.choice([0.0, 0.25, -0.25, 1e-9]))
        if c < 0.8:
            # big integers: odd * 2^e (exact doubles), the class the narrow conversions get wrong on this tree
            self.st("val:bigpow")
            e = r.randrange(30, 200)
            m = r.randrange(1, 1 << 53) | 1
            try:
                x = float(m) * (2.0 ** (e - 52))
            except OverflowError:
                x = 1e300
            return fv(-x if r.random() < 0.4 else x)
        if c < 0.9:
            self.st("val:randbits")
            return fb(r.getrandbits(64))
        self.st("val:near-pow2")
        e = r.choice([7, 8, 15, 16, 31, 32, 53, 63, 64])
        return fv((2.0 ** e) * r.choice([1, -1]) + r.choice([-1.5, -1, -0.5, 0, 0.5, 1, 1.5, 2048, -2048]))

    def bigint(self):
        r = self.r
        if r.random() < 0.7:
            self.st("val:bigint-edge")
            return gv(r.choice(BIG_EDGES))
        self.st("val:bigint-rand")
        z = r.getrandbits(r.choice([8, 33, 64, 70]))
        return gv(-z if r.random() < 0.4 else z)

    def value_for(self, kind):
        """mostly type-correct; sometimes the wrong content type or undefined"""
        r = self.r
        c = r.random()
        if c < 0.04:
            self.st("val:undefined")
            return "u"
        wrong = c < 0.09
        if (kind in BIG) != wrong:
            return self.bigint()
        return self.number(kind)

    def index(self, length, allow_undef=True):
        """an index / relative index / offset argument aimed at the boundaries of `length`"""
        r = self.r
        c = r.random()
        if c < 0.5:
            self.st("idx:inside")
            return fv(float(r.randrange(0, max(1, length))))
        if c < 0.72:
            self.st("idx:edge")
            return fv(float(r.choice([length - 1, length, length + 1, -1, -length, -length - 1, 0, 1])))
        if c < 0.8 and allow_undef:
            self.st("idx:undefined")
            return "u"
        if c < 0.9:
            self.st("idx:odd")
            return fv(r.choice([0.5, 1.5, -0.0, -0.5, float("nan"), float("inf"), float("-inf"), length - 0.5, length + 0.5]))
        self.st("idx:huge")
        return fv(r.choice([2.0 ** 32, 2.0 ** 32 + 1, 2.0 ** 53 - 1, 2.0 ** 53, 2.0 ** 53 + 2, 1e21, -(2.0 ** 53), 2.0 ** 63, -(2.0 ** 63), 2.0 ** 64]))

    def key(self, length):
        r = self.r
        if r.random() < 0.04:
            self.st("key:-0")
            return "m0"
        return self.index(length, allow_undef=False)

    # ---- shadow ----
    def fresh(self):
        self.bufs = {}     # slot -> dict(len, max, shared, det)
        self.views = {}    # slot -> dict(kind, buf, off, alen(None = tracking), dv)

    def pick_buf(self):
        if not self.bufs:
            return self.r.randrange(NB)
        if self.r.random() < 0.03:
            return self.r.randrange(NB)
        return self.r.choice(list(self.bufs))

    def pick_view(self, dv=None):
        c = [v for v, d in self.views.items() if dv is None or d["dv"] == dv]
        if not c or self.r.random() < 0.03:
            return self.r.randrange(NV)
        return self.r.choice(c)

    def vlen(self, v):
        d = self.views.get(v)
        if d is None or d["dv"]:
            return 4
        b = self.bufs.get(d["buf"])
        if d["alen"] is not None:
            return d["alen"]
        if b is None:
            return 4
        return max(0, (b["len"] - d["off"]) // SIZE[d["kind"]])

    def mid(self, v):
        """a side effect hidden in an argument: shrink / grow / detach the view's buffer"""
        r = self.r
        d = self.views.get(v)
        if d is None or r.random() > 0.12:
            return "-"
        b = d["buf"]
        bd = self.bufs.get(b)
        if bd is None:
            return "-"
        if r.random() < 0.25 and not bd["shared"]:
            self.st("mid:detach")
            bd["det"] = True
            return "d%d" % b
        if bd["max"] is None:
            self.st("mid:resize-fixed")
            return "r%d:%x" % (b, r.randrange(0, 20))
        n = r.choice([0, 1, d["off"], d["off"] + 1, max(0, bd["len"] - 1), max(0, bd["len"] - SIZE.get(d.get("kind") or "u8", 1)), bd["max"], bd["max"] + 1, r.randrange(0, bd["max"] + 1)])
        self.st("mid:resize")
        if not bd["shared"] or n >= bd["len"]:
            if n <= bd["max"]:
                bd["len"] = n
        return "r%d:%x" % (b, max(0, n))

    # ---- ops ----
    def op_newbuf(self):
        r = self.r
        d = r.randrange(NB)
        shared = r.random() < 0.2
        c = r.random()
        if c < 0.08:
            self.st("newbuf:bad")
            ln = fv(r.choice([-1.0, 2.0 ** 53, 2.0 ** 53 - 1, 1e21, float("inf"), 4e9]))
            mx = "-" if r.random() < 0.5 else fv(16.0)
            return "newbuf %d %d %s %s" % (d, int(shared), ln, mx)
        n = r.choice([0, 1, 2, 3, 4, 7, 8, 9, 12, 15, 16, 17, 24, 31, 32, 40])
        if r.random() < 0.55:
            m = n + r.choice([0, 1, 3, 8, 16, 24])
            if r.random() < 0.05:
                m = max(0, n - 1)     # length > max: RangeError
            else:
                self.bufs[d] = dict(len=n, max=m, shared=shared, det=False)
            self.st("newbuf:resizable-shared" if shared else "newbuf:resizable")
            return "newbuf %d %d %s %s" % (d, int(shared), fv(float(n)), fv(float(m)))
        self.bufs[d] = dict(len=n, max=None, shared=shared, det=False)
        self.st("newbuf:fixed-shared" if shared else "newbuf:fixed")
        return "newbuf %d %d %s -" % (d, int(shared), fv(float(n)))

    def op_resize(self):
        r = self.r
        b = self.pick_buf()
        bd = self.bufs.get(b)
        if bd is None or bd["max"] is None:
            self.st("resize:on-fixed")
            return "resize %d %s" % (b, self.index(8))
        c = r.random()
        if c < 0.75:
            n = r.randrange(0, bd["max"] + 1)
        elif c < 0.9:
            n = r.choice([0, bd["max"], bd["max"] + 1, bd["len"], max(0, bd["len"] - 1)])
        else:
            self.st("resize:odd")
            return "resize %d %s" % (b, self.index(bd["max"]))
        if n <= bd["max"] and not bd["det"] and (not bd["shared"] or n >= bd["len"]):
            bd["len"] = n
        self.st("resize:shrink-or-grow")
        return "resize %d %s" % (b, fv(float(n)))

    def op_transfer(self):
        r = self.r
        b = self.pick_buf()
        d = r.randrange(NB)
        fixed = r.random() < 0.4
        bd = self.bufs.get(b)
        c = r.random()
        if c < 0.5:
            n, nn = "u", (bd["len"] if bd else 0)
        elif c < 0.92:
            nn = r.randrange(0, 40)
            n = fv(float(nn))
        else:
            n, nn = fv(r.choice([-1.0, 2.0 ** 53, float("nan"), 0.5])), 0
        if bd is not None and not bd["shared"] and not bd["det"]:
            mx = None if fixed else bd["max"]
            if mx is None or nn <= mx:
                bd["det"] = True
                self.bufs[d] = dict(len=nn, max=mx, shared=False, det=False)
        self.st("transfer")
        return "transfer %d %d %d %s" % (d, b, int(fixed), n)

    def op_detach(self):
        b = self.pick_buf()
        if b in self.bufs and not self.bufs[b]["shared"]:
            self.bufs[b]["det"] = True
        self.st("detach")
        return "detach %d" % b

    def op_bslice(self):
        b = self.pick_buf()
        d = self.r.randrange(NB)
        ln = self.bufs.get(b, {}).get("len", 8)
        bd = self.bufs.get(b)
        self.st("bslice")
        s, e = self.index(ln), self.index(ln)
        if bd is not None and not bd["det"]:
            self.bufs[d] = dict(len=max(0, ln // 2), max=None, shared=bd["shared"], det=False)
        return "bslice %d %d %s %s" % (d, b, s, e)

    def op_mkta(self):
        r = self.r
        d = r.randrange(NV)
        b = self.pick_buf()
        k = self.kind()
        sz = SIZE[k]
        bd = self.bufs.get(b)
        ln = bd["len"] if bd else 8
        c = r.random()
        if c < 0.12:
            self.st("mkta:odd-args")
            return "mkta %d %s %d %s %s" % (d, k, b, self.index(ln), self.index(max(1, ln // sz)))
        maxoff = ln // sz
        off = sz * r.randrange(0, maxoff + 1) if maxoff >= 0 else 0
        if r.random() < 0.06:
            off += r.choice([1, sz, sz * 2])     # misaligned or beyond the end
        c = r.random()
        if c < 0.45:
            # no length: length-tracking on a resizable buffer, fixed otherwise
            tracking = bd is not None and bd["max"] is not None
            alen = None if tracking else max(0, (ln - off) // sz)
            self.views[d] = dict(kind=k, buf=b, off=off, alen=alen, dv=False)
            self.st("mkta:auto-length" if tracking else "mkta:rest-of-fixed")
            return "mkta %d %s %d %s u" % (d, k, b, "u" if off == 0 and r.random() < 0.5 else fv(float(off)))
        room = max(0, (ln - off) // sz)
        n = r.choice([0, 1, room, room, max(0, room - 1), room + 1]) if r.random() < 0.6 else r.randrange(0, room + 2)
        if n <= room:
            self.views[d] = dict(kind=k, buf=b, off=off, alen=n, dv=False)
        self.st("mkta:explicit-length")
        return "mkta %d %s %d %s %s" % (d, k, b, fv(float(off)), fv(float(n)))

    def op_mktalen(self):
        r = self.r
        d, db = r.randrange(NV), r.randrange(NB)
        k = self.kind()
        if r.random() < 0.1:
            self.st("mktalen:odd")
            return "mktalen %d %d %s %s" % (d, db, k, r.choice(["u", fv(-1.0), fv(2.5), fv(float("nan")), fv(2.0 ** 53)]))
        n = r.randrange(0, 9)
        self.bufs[db] = dict(len=n * SIZE[k], max=None, shared=False, det=False)
        self.views[d] = dict(kind=k, buf=db, off=0, alen=n, dv=False)
        self.st("mktalen")
        return "mktalen %d %d %s %s" % (d, db, k, fv(float(n)))

    def op_mktafrom(self):
        r = self.r
        d, db = r.randrange(NV), r.randrange(NB)
        src = self.pick_view(dv=False)
        sk = self.views.get(src, {}).get("kind") or "u8"
        if r.random() < 0.85:
            k = self.kind([x for x in KINDS if (x in BIG) == (sk in BIG)])
        else:
            k = self.kind()
        n = self.vlen(src)
        if (k in BIG) == (sk in BIG):
            self.bufs[db] = dict(len=n * SIZE[k], max=None, shared=False, det=False)
            self.views[d] = dict(kind=k, buf=db, off=0, alen=n, dv=False)
        self.st("mktafrom:same-kind" if k == sk else "mktafrom:cast")
        return "mktafrom %d %d %s %d" % (d, db, k, src)

    def op_mkdv(self):
        r = self.r
        d = r.randrange(NV)
        b = self.pick_buf()
        bd = self.bufs.get(b)
        ln = bd["len"] if bd else 8
        c = r.random()
        if c < 0.12:
            self.st("mkdv:odd-args")
            return "mkdv %d %d %s %s" % (d, b, self.index(ln), self.index(ln))
        off = r.randrange(0, ln + 1)
        if c < 0.55:
            tracking = bd is not None and bd["max"] is not None
            self.views[d] = dict(kind=None, buf=b, off=off, alen=None if tracking else ln - off, dv=True)
            self.st("mkdv:auto-length" if tracking else "mkdv:rest-of-fixed")
            return "mkdv %d %d %s u" % (d, b, fv(float(off)))
        n = r.choice([0, 1, ln - off, max(0, ln - off - 1), ln - off + 1])
        if off + n <= ln:
            self.views[d] = dict(kind=None, buf=b, off=off, alen=n, dv=True)
        self.st("mkdv:explicit-length")
        return "mkdv %d %d %s %s" % (d, b, fv(float(off)), fv(float(n)))

    def op_get(self):
        v = self.pick_view(dv=False)
        self.st("get")
        return "get %d %s" % (v, self.key(self.vlen(v)))

    def op_set(self):
        v = self.pick_view(dv=False)
        k = self.views.get(v, {}).get("kind") or "u8"
        self.st("set")
        return "set %d %s %s %s" % (v, self.key(self.vlen(v)), self.value_for(k), self.mid(v))

    def dv_room(self, v):
        d = self.views.get(v)
        if d is None:
            return 8
        if d["alen"] is not None:
            return d["alen"]
        b = self.bufs.get(d["buf"])
        return max(0, (b["len"] if b else 8) - d["off"])

    def dv_off(self, v, k):
        r = self.r
        room = self.dv_room(v)
        last = room - SIZE[k]
        c = r.random()
        if c < 0.55:
            self.st("dvoff:inside")
            return fv(float(r.randrange(0, max(1, last + 1))))
        if c < 0.85:
            self.st("dvoff:edge")
            return fv(float(r.choice([last, last + 1, room, room + 1, max(0, last - 1), 0])))
        return self.index(room)

    def op_dvget(self):
        v = self.pick_view(dv=True)
        k = self.kind(DVK)
        self.st("dvget")
        return "dvget %d %s %s %d" % (v, k, self.dv_off(v, k), self.r.randrange(2))

    def op_dvset(self):
        v = self.pick_view(dv=True)
        k = self.kind(DVK)
        self.st("dvset")
        return "dvset %d %s %s %s %d %s" % (v, k, self.dv_off(v, k), self.value_for(k), self.r.randrange(2), self.mid(v))

    def op_fill(self):
        v = self.pick_view(dv=False)
        k = self.views.get(v, {}).get("kind") or "u8"
        n = self.vlen(v)
        self.st("fill")
        return "fill %d %s %s %s %s" % (v, self.value_for(k), self.index(n), self.index(n), self.mid(v))

    def op_copywithin(self):
        v = self.pick_view(dv=False)
        n = self.vlen(v)
        self.st("copywithin")
        return "copywithin %d %s %s %s %s" % (v, self.index(n, False), self.index(n, False), self.index(n), self.mid(v))

    def op_setta(self):
        r = self.r
        v = self.pick_view(dv=False)
        vd = self.views.get(v)
        # prefer a source over the same buffer (overlap) half of the time
        same = [s for s, d in self.views.items() if vd and not d["dv"] and d["buf"] == vd["buf"]]
        src = r.choice(same) if same and r.random() < 0.5 else self.pick_view(dv=False)
        n, m = self.vlen(v), self.vlen(src)
        c = r.random()
        off = fv(float(r.randrange(0, max(1, n - m + 1)))) if c < 0.7 else self.index(n)
        sd = self.views.get(src)
        self.st("setta:overlap" if (vd and sd and vd["buf"] == sd["buf"]) else "setta:disjoint")
        if vd and sd:
            self.st("setta:same-kind" if vd["kind"] == sd["kind"] else "setta:convert")
        return "setta %d %d %s" % (v, src, off)

    def op_setarr(self):
        r = self.r
        v = self.pick_view(dv=False)
        k = self.views.get(v, {}).get("kind") or "u8"
        n = self.vlen(v)
        cnt = r.randrange(0, min(5, n + 2) + 1)
        xs = [self.value_for(k) for _ in range(cnt)]
        off = fv(float(r.randrange(0, max(1, n - cnt + 1)))) if r.random() < 0.75 else self.index(n)
        self.st("setarr")
        return "setarr %d %s %s" % (v, off, " ".join(xs))

    def op_subarray(self):
        r = self.r
        d = r.randrange(NV)
        v = self.pick_view(dv=False)
        n = self.vlen(v)
        vd = self.views.get(v)
        s, e = self.index(n), self.index(n)
        if vd and not vd["dv"]:
            self.views[d] = dict(kind=vd["kind"], buf=vd["buf"], off=vd["off"], alen=(None if (vd["alen"] is None and e == "u") else max(0, n // 2)), dv=False)
        self.st("subarray")
        return "subarray %d %d %s %s" % (d, v, s, e)

    def op_slice(self):
        r = self.r
        d, db = r.randrange(NV), r.randrange(NB)
        v = self.pick_view(dv=False)
        n = self.vlen(v)
        vd = self.views.get(v)
        m = self.mid(v)
        if vd and not vd["dv"]:
            self.bufs[db] = dict(len=n * SIZE[vd["kind"]], max=None, shared=False, det=False)
            self.views[d] = dict(kind=vd["kind"], buf=db, off=0, alen=n, dv=False)
        self.st("slice")
        return "slice %d %d %d %s %s %s" % (d, db, v, self.index(n), self.index(n), m)

    def op_at(self):
        v = self.pick_view(dv=False)
        self.st("at")
        return "at %d %s" % (v, self.index(self.vlen(v)))

    def op_with(self):
        r = self.r
        d, db = r.randrange(NV), r.randrange(NB)
        v = self.pick_view(dv=False)
        vd = self.views.get(v)
        k = (vd or {}).get("kind") or "u8"
        n = self.vlen(v)
        if vd and not vd["dv"]:
            self.bufs[db] = dict(len=n * SIZE[k], max=None, shared=False, det=False)
            self.views[d] = dict(kind=k, buf=db, off=0, alen=n, dv=False)
        self.st("with")
        return "with %d %d %d %s %s" % (d, db, v, self.index(n, False), self.value_for(k))

    WEIGHTS = [("op_get", 12), ("op_set", 16), ("op_dvget", 8), ("op_dvset", 10), ("op_fill", 6), ("op_copywithin", 5),
               ("op_setta", 6), ("op_setarr", 5), ("op_subarray", 4), ("op_slice", 4), ("op_at", 2), ("op_with", 2),
               ("op_resize", 9), ("op_transfer", 2), ("op_detach", 1), ("op_bslice", 2), ("op_newbuf", 3), ("op_mkta", 7),
               ("op_mktalen", 2), ("op_mktafrom", 4), ("op_mkdv", 3)]

    def history(self, nops):
        """one history: a few buffers and views first, then a weighted mix"""
        self.fresh()
        r = self.r
        ops = []
        for _ in range(r.randrange(1, 4)):
            ops.append(self.op_newbuf())
        for _ in range(r.randrange(2, 6)):
            ops.append(self.op_mkta() if r.random() < 0.7 else self.op_mkdv())
        names = [n for n, _ in self.WEIGHTS if self.allow_transfer or n != "op_transfer"]
        ws = [w for n, w in self.WEIGHTS if self.allow_transfer or n != "op_transfer"]
        while len(ops) < nops:
            ops.append(getattr(self, r.choices(names, ws)[0])())
        return ops

    def forced_mid(self, v, must=True):
        """a resize / detach of view v's buffer that certainly runs (from inside an argument's valueOf)"""
        r = self.r
        d = self.views.get(v)
        bd = self.bufs.get(d["buf"]) if d else None
        if bd is None:
            return "-"
        b = d["buf"]
        sz = SIZE.get(d.get("kind") or "u8", 1)
        if not bd["shared"] and r.random() < 0.1:
            self.st("rmid:detach")
            bd["det"] = True
            return "d%d" % b
        if bd["max"] is None:
            return "-"
        ln, off = bd["len"], d["off"]
        if bd["shared"]:
            n = r.choice([ln, min(bd["max"], ln + sz), bd["max"]])
            self.st("rmid:grow-shared")
        else:
            n = r.choice([max(0, ln - sz), max(0, ln - 1), ln // 2, off + sz, off + 2 * sz, off, max(0, off - 1), 0, bd["max"], min(bd["max"], ln + sz)])
            self.st("rmid:shrink" if n < ln else "rmid:grow-or-same")
        n = max(0, min(n, bd["max"]))
        bd["len"] = n
        return "r%d:%x" % (b, n)

    def resize_history(self, nops):
        """bounds re-validation: one resizable buffer, length-tracking and fixed views of it, and bulk / element operations that
        each carry a shrink, grow or detach of that buffer inside one of their arguments"""
        self.fresh()
        r = self.r
        L = r.choice([8, 12, 16, 24, 32])
        M = L + r.choice([0, 8, 16])
        shared = r.random() < 0.12
        ops = ["newbuf 0 %d %s %s" % (int(shared), fv(float(L)), fv(float(M)))]
        self.bufs[0] = dict(len=L, max=M, shared=shared, det=False)
        k = self.kind()
        sz = SIZE[k]
        off = sz * r.randrange(0, 2)
        ops.append("mkta 0 u8 0 u u")
        self.views[0] = dict(kind="u8", buf=0, off=0, alen=None, dv=False)
        ops.append("mkta 1 %s 0 %s u" % (k, fv(float(off))))
        self.views[1] = dict(kind=k, buf=0, off=off, alen=None, dv=False)
        k2 = self.kind()
        n2 = r.randrange(1, max(2, L // SIZE[k2] + 1))
        ops.append("mkta 2 %s 0 u %s" % (k2, fv(float(n2))))
        self.views[2] = dict(kind=k2, buf=0, off=0, alen=n2, dv=False)
        doff = r.randrange(0, 4)
        ops.append("mkdv 3 0 %s u" % fv(float(doff)))
        self.views[3] = dict(kind=None, buf=0, off=doff, alen=None, dv=True)

        def paint():
            n = self.bufs[0]["len"]
            if n > 0 and not self.bufs[0]["det"]:
                ops.append("setarr 0 %s %s" % (fv(0.0), " ".join(fv(float((7 * i + 1) % 251)) for i in range(n))))
        paint()
        while len(ops) < nops:
            v = r.choice([0, 1, 1, 2])
            kd = self.views[v]["kind"]
            n = self.vlen(v)
            c = r.random()
            if c < 0.3:
                to = r.randrange(0, max(1, n // 2 + 1))
                frm = r.randrange(0, max(1, n // 2 + 1))
                end = r.choice([n, n, max(0, n - 1), -1, n + 3])
                ops.append("copywithin %d %s %s %s %s" % (v, fv(float(to)), fv(float(frm)), fv(float(end)), self.forced_mid(v)))
                self.st("resize:copywithin")
            elif c < 0.5:
                ops.append("fill %d %s %s %s %s" % (v, self.value_for(kd), fv(float(r.randrange(0, max(1, n)))), fv(float(r.choice([n, n + 2, max(0, n - 1)]))), self.forced_mid(v)))
                self.st("resize:fill")
            elif c < 0.68:
                ops.append("slice 4 1 %d %s %s %s" % (v, fv(float(r.randrange(0, max(1, n // 2 + 1)))), fv(float(r.choice([n, max(0, n - 1), n + 1]))), self.forced_mid(v)))
                self.views[4] = dict(kind=kd, buf=1, off=0, alen=n, dv=False)
                self.bufs[1] = dict(len=n * SIZE[kd], max=None, shared=False, det=False)
                self.st("resize:slice")
            elif c < 0.82:
                ops.append("set %d %s %s %s" % (v, fv(float(r.choice([0, max(0, n - 1), n // 2]))), self.value_for(kd), self.forced_mid(v)))
                self.st("resize:set")
            elif c < 0.92:
                kk = self.kind(DVK)
                room = self.dv_room(3)
                o = max(0, room - SIZE[kk]) if r.random() < 0.6 else r.randrange(0, max(1, room))
                ops.append("dvset 3 %s %s %s %d %s" % (kk, fv(float(o)), self.value_for(kk), r.randrange(2), self.forced_mid(3)))
                self.st("resize:dvset")
            else:
                ops.append("with 5 2 %d %s %s" % (v, fv(float(r.randrange(0, max(1, n)))), self.value_for(kd)))
                self.st("resize:with")
            # look at the result through the other views, then sometimes restore the length and repaint
            ops.append("get %d %s" % (r.choice([0, 1, 2]), self.key(self.vlen(1))))
            if r.random() < 0.5 and not self.bufs[0]["det"] and not shared:
                ops.append("resize 0 %s" % fv(float(L)))
                self.bufs[0]["len"] = L
                paint()
        return ops

    COPY_COUNTS = [1, 2, 3, 5, 7, 8, 9, 12, 15, 16, 17, 23, 24, 25, 31, 32, 33, 40]

    def shared_copy_history(self, nops):
        """the shared-memory copy routines (utils.rs: head bytes / aligned AtomicU64 words / tail bytes, forward and backward):
        copyWithin on views of one SharedArrayBuffer with every (from mod 8, to mod 8) class, counts around the multiples of 8,
        both directions, overlapping and disjoint; plus set/slice between views of the same shared buffer"""
        self.fresh()
        r = self.r
        L = r.choice([48, 56, 64, 72, 80])
        grow = r.random() < 0.4
        M = L + (r.choice([0, 8, 16]) if grow else 0)
        ops = ["newbuf 0 1 %s %s" % (fv(float(L)), fv(float(M)) if grow else "-")]
        self.bufs[0] = dict(len=L, max=M if grow else None, shared=True, det=False)
        ops.append("mkta 0 u8 0 u u")
        self.views[0] = dict(kind="u8", buf=0, off=0, alen=None if grow else L, dv=False)
        k = self.kind(["i16", "u16", "i32", "u32", "f32", "f64", "i64", "u64"])
        off = SIZE[k] * r.randrange(0, 4)
        ops.append("mkta 1 %s 0 %s u" % (k, fv(float(off))))
        self.views[1] = dict(kind=k, buf=0, off=off, alen=None if grow else (L - off) // SIZE[k], dv=False)
        boff = r.randrange(1, 8)                      # a byte view that starts misaligned
        ops.append("mkta 2 u8 0 %s %s" % (fv(float(boff)), fv(float(L - 8))))
        self.views[2] = dict(kind="u8", buf=0, off=boff, alen=L - 8, dv=False)

        def paint():
            ops.append("setarr 0 %s %s" % (fv(0.0), " ".join(fv(float((11 * i + 3) % 251)) for i in range(L))))
        paint()
        since = 0
        while len(ops) < nops:
            v = r.choice([0, 0, 2, 1])
            n = self.vlen(v)
            c = r.random()
            if c < 0.8:
                if v == 1:
                    cnt = r.randrange(1, max(2, n))
                else:
                    cnt = r.choice([x for x in self.COPY_COUNTS if x < n] or [1])
                a = r.randrange(0, n - cnt + 1)
                cc = r.random()
                if cc < 0.35:        # same 8-byte phase, overlapping (the word loops)
                    b = a + 8 * r.choice([-3, -2, -1, 1, 2, 3])
                elif cc < 0.6:       # overlapping by less than a word
                    b = a + r.choice([-7, -5, -3, -1, 1, 2, 4, 6, 7])
                else:
                    b = r.randrange(0, n - cnt + 1)
                b = max(0, min(b, n - cnt))
                self.st("shcopy:%s:%s" % ("right" if a < b else "left" if a > b else "same",
                                          "same-phase" if (a - b) % 8 == 0 else "diff-phase"))
                self.st("shcopy:from%%8=%d" % ((a * SIZE[self.views[v]["kind"]] + self.views[v]["off"]) % 8))
                ops.append("copywithin %d %s %s %s -" % (v, fv(float(b)), fv(float(a)), fv(float(a + cnt))))
            elif c < 0.9:
                src = r.choice([0, 2])
                tgt = 2 if src == 0 else 0
                o = r.randrange(0, 9)
                ops.append("subarray 3 %d %s %s" % (src, fv(float(r.randrange(0, 16))), fv(float(r.randrange(16, 40)))))
                self.views[3] = dict(kind="u8", buf=0, off=0, alen=8, dv=False)
                ops.append("setta %d 3 %s" % (tgt, fv(float(o))))
                self.st("shcopy:set-same-buffer")
            else:
                ops.append("slice 4 1 %d %s %s -" % (v, fv(float(r.randrange(0, 9))), fv(float(r.randrange(min(9, n), n + 1)))))
                self.st("shcopy:slice")
            since += 1
            if since >= 3 and r.random() < 0.4:
                paint()
                since = 0
        return ops

    def conv_history(self, nops):
        """conversion-focused: one buffer, one view of every kind (and a DataView), stores of boundary values and reads back"""
        self.fresh()
        r = self.r
        ops = ["newbuf 0 0 %s -" % fv(16.0)]
        self.bufs[0] = dict(len=16, max=None, shared=False, det=False)
        kinds = r.sample([k for k in KINDS if self.allow_f16 or k != "f16"], 8)
        for i, k in enumerate(kinds):
            ops.append("mkta %d %s 0 %s u" % (i, k, fv(0.0)))
            self.views[i] = dict(kind=k, buf=0, off=0, alen=16 // SIZE[k], dv=False)
        ops.append("mkdv 9 0 u u")
        self.views[9] = dict(kind=None, buf=0, off=0, alen=16, dv=True)
        while len(ops) < nops:
            c = r.random()
            if c < 0.45:
                v = r.randrange(8)
                k = kinds[v]
                i = r.randrange(0, 16 // SIZE[k])
                ops.append("set %d %s %s -" % (v, fv(float(i)), self.value_for(k)))
                ops.append("get %d %s" % (v, fv(float(i))))
                self.st("conv:set-get")
            elif c < 0.75:
                k = self.kind(DVK)
                off = r.randrange(0, 16 - SIZE[k] + 1)
                le = r.randrange(2)
                ops.append("dvset 9 %s %s %s %d -" % (k, fv(float(off)), self.value_for(k), le))
                ops.append("dvget 9 %s %s %d" % (k, fv(float(off)), r.choice([le, le, 1 - le])))
                self.st("conv:dvset-dvget")
            elif c < 0.9:
                src = r.randrange(8)
                k = self.kind([x for x in KINDS if (x in BIG) == (kinds[src] in BIG)])
                ops.append("mktafrom 8 1 %s %d" % (k, src))
                self.views[8] = dict(kind=k, buf=1, off=0, alen=16 // SIZE[kinds[src]], dv=False)
                ops.append("get 8 %s" % fv(float(r.randrange(0, 16 // SIZE[kinds[src]]))))
                self.st("conv:cast")
            else:
                v = r.randrange(8)
                ops.append("fill %d %s u u -" % (v, self.value_for(kinds[v])))
                self.st("conv:fill")
        return ops


def malformed_history(rng, nops, stats, g=None):
    """edge stream: ops on empty slots, wrong view families, undefined everywhere, extreme indices"""
    if g is None:
        g = Gen(rng, stats)
    g.fresh()
    KINDS_ = [k for k in KINDS if g.allow_f16 or k != "f16"]
    DVK_ = [k for k in DVK if g.allow_f16 or k != "f16"]
    ops = []
    for _ in range(nops):
        c = rng.random()
        if c < 0.3:
            ops.append(getattr(g, rng.choice([n for n, _ in Gen.WEIGHTS if g.allow_transfer or n != "op_transfer"]))())
        elif c < 0.5:
            ops.append("get %d %s" % (rng.randrange(NV), g.index(4, False)))
        elif c < 0.6:
            ops.append("dvget %d %s %s %d" % (rng.randrange(NV), rng.choice(DVK_), g.index(4), rng.randrange(2)))
        elif c < 0.7:
            ops.append("mkta %d %s %d %s %s" % (rng.randrange(NV), rng.choice(KINDS_), rng.randrange(NB), g.index(8), g.index(8)))
        elif c < 0.8:
            ops.append("newbuf %d %d %s %s" % (rng.randrange(NB), rng.randrange(2), g.index(16), rng.choice(["-", "u", g.index(16)])))
        elif c < 0.9:
            ops.append("setta %d %d %s" % (rng.randrange(NV), rng.randrange(NV), g.index(4)))
        else:
            ops.append("resize %d %s" % (rng.randrange(NB), g.index(16)))
        stats["malformed-op"] = stats.get("malformed-op", 0) + 1
    return ops
