"""Compiler-defect mutants on code-block dumps (C03 sensitivity stage).

Each mutant simulates a realistic one-line lowering defect on the dump of a block the verifier ACCEPTED (a forgotten
PopEnvironment on a path, a register file one too small, a jump patched one byte off, a handler whose environment
count / end is off, a call with a wrong argument count, an index operand outside its table, a dropped push) by editing
the dump text without changing instruction lengths.  The verifier is expected to reject the mutant ("killed").  A
surviving mutant is not a violation (some edits are semantically harmless, e.g. in dead code) but is counted and listed.
"""
import re


def parse_blocks(dump_text):
    """-> list of blocks, each a list of lines from `block ...` to `end ...` inclusive"""
    out, cur = [], None
    for line in dump_text.split("\n"):
        if line.startswith("block "):
            cur = [line]
        elif cur is not None:
            cur.append(line)
            if line.startswith("end "):
                out.append(cur)
                cur = None
    return out


def _ins(lines):
    return [(k, l) for k, l in enumerate(lines) if l.startswith("ins ")]


def mutants(block, rng, bytes_of):
    """block: list of lines; bytes_of: {opcode name: byte}.  Yields (kind, description, mutated lines)."""
    ins = _ins(block)
    hdr = block[0]
    res = []

    def rep(k, new):
        b = list(block)
        b[k] = new
        return b

    # 1 forgotten PopEnvironment -> a 1-byte neutral instruction
    pops = [(k, l) for k, l in ins if l.endswith(" PopEnvironment")]
    if pops:
        k, l = rng.choice(pops)
        p = l.split(" ")
        res.append(("drop-pop-environment", "pc=%s" % p[1],
                    rep(k, "ins %s %s %d IncrementLoopIteration" % (p[1], p[2], bytes_of["IncrementLoopIteration"]))))
    # 2 register file one too small
    regs = [int(x) for l in block for x in re.findall(r"RegisterOperand\((\d+)\)", l)]
    m = re.search(r"regs=(\d+)", hdr)
    if regs and m and max(regs) >= 1:
        res.append(("register-count-too-small", "regs=%s -> %d" % (m.group(1), max(regs)),
                    rep(0, hdr.replace("regs=" + m.group(1), "regs=%d" % max(regs), 1))))
    # 3 jump target one byte off
    jumps = [(k, l) for k, l in ins if re.search(r" (Jump|JumpIfTrue|JumpIfFalse|JumpIfNotUndefined|LogicalAnd|LogicalOr|Coalesce) \{ address: Address\(\d+\)", l)]
    if jumps:
        k, l = rng.choice(jumps)
        a = int(re.search(r"Address\((\d+)\)", l).group(1))
        res.append(("jump-target-off-by-one", l.split(" ")[1], rep(k, l.replace("Address(%d)" % a, "Address(%d)" % (a + 1), 1))))
    # 4 handler environment count one too large / 5 handler end one instruction late
    hs = [(k, l) for k, l in enumerate(block) if l.startswith("handler ")]
    if hs:
        k, l = rng.choice(hs)
        p = l.split()
        res.append(("handler-environment-count+1", l, rep(k, "handler %s %s %s %d" % (p[1], p[2], p[3], int(p[4]) + 1))))
        nxt = {int(x.split(" ")[1]): int(x.split(" ")[2]) for _, x in ins}
        if int(p[3]) in nxt:
            res.append(("handler-end-mid-instruction", l, rep(k, "handler %s %s %d %s" % (p[1], p[2], int(p[3]) + 1, p[4]))))
    # 6 call with one argument too many
    calls = [(k, l) for k, l in ins if re.search(r" (Call|New) \{ argument_count: IndexOperand\(\d+\) \}", l)]
    if calls:
        k, l = rng.choice(calls)
        n = int(re.search(r"IndexOperand\((\d+)\)", l).group(1))
        res.append(("call-argument-count+1", l.split(" ")[1], rep(k, l.replace("IndexOperand(%d)" % n, "IndexOperand(%d)" % (n + 1), 1))))
    # 7 binding index outside the table
    binds = [(k, l) for k, l in ins if "binding_index: IndexOperand(" in l]
    m = re.search(r"bindings=(\d+)", hdr)
    if binds and m:
        k, l = rng.choice(binds)
        res.append(("binding-index-out-of-table", l.split(" ")[1],
                    rep(k, re.sub(r"binding_index: IndexOperand\(\d+\)", "binding_index: IndexOperand(%s)" % m.group(1), l, 1))))
    # 8 a dropped push (PushFromRegister -> StoreUndefined, same length)
    pushes = [(k, l) for k, l in ins if " PushFromRegister { src: RegisterOperand(" in l]
    if pushes:
        k, l = rng.choice(pushes)
        p = l.split(" ")
        r = re.search(r"RegisterOperand\((\d+)\)", l).group(1)
        res.append(("dropped-push", p[1], rep(k, "ins %s %s %d StoreUndefined { dst: RegisterOperand(%s) }" % (p[1], p[2], bytes_of["StoreUndefined"], r))))
    # 9 SetNameByLocator without its reference (-> SetAccumulator, same length)
    sets = [(k, l) for k, l in ins if " GetLocator { binding_index" in l]
    if sets:
        k, l = rng.choice(sets)
        p = l.split(" ")
        b = re.search(r"IndexOperand\((\d+)\)", l).group(1)
        res.append(("dropped-get-locator", p[1], rep(k, "ins %s %s %d DefVar { binding_index: IndexOperand(%s) }" % (p[1], p[2], bytes_of["DefVar"], b))))
    # 11 an iterator loop exit / jump record that forgets to close its record (IteratorReturn -> Move, same operands and length)
    rets = [(k, l) for k, l in ins if " IteratorReturn { value: RegisterOperand(" in l]
    if rets:
        k, l = rng.choice(rets)
        p = l.split(" ")
        rs = re.findall(r"RegisterOperand\((\d+)\)", l)
        res.append(("dropped-iterator-close", p[1], rep(k, "ins %s %s %d Move { dst: RegisterOperand(%s), src: RegisterOperand(%s) }" % (p[1], p[2], bytes_of["Move"], rs[0], rs[1]))))
    # 12 a GetIterator that pushes no record (-> ValueNotNullOrUndefined, same operand and length)
    gets = [(k, l) for k, l in ins if " GetIterator { src: RegisterOperand(" in l]
    if gets:
        k, l = rng.choice(gets)
        p = l.split(" ")
        r = re.search(r"RegisterOperand\((\d+)\)", l).group(1)
        res.append(("dropped-get-iterator", p[1], rep(k, "ins %s %s %d ValueNotNullOrUndefined { src: RegisterOperand(%s) }" % (p[1], p[2], bytes_of["ValueNotNullOrUndefined"], r))))
    # 13 scope counter not restored by the scope analyzer: every locator of the deepest scope(s) one too high
    stacks = [int(x) for l in block if l.startswith("binding ") for x in re.findall(r" Stack\((\d+)\) ", l)]
    if stacks:
        top = max(stacks)
        b2 = [re.sub(r" Stack\(%d\) " % top, " Stack(%d) " % (top + 1), l) if l.startswith("binding ") else l for l in block]
        res.append(("locator-scope-index+1", "Stack(%d)" % top, b2))
    # 10 opcode byte that is not the one the decoder printed
    if ins:
        k, l = rng.choice(ins)
        p = l.split(" ", 4)
        res.append(("opcode-byte-renumbered", p[1], rep(k, "ins %s %s %d %s" % (p[1], p[2], (int(p[3]) + 1) % 256, p[4]))))
    return res


def wrap(cases):
    """cases: list of (id, block lines) -> dump text the driver accepts"""
    out = []
    for cid, b in cases:
        out.append("case %s" % cid)
        out += b
        out.append("status ok compiled")
        out.append("endcase %s" % cid)
    return "\n".join(out) + "\n"
