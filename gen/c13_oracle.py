"""C13: exact decimal/binary conversion oracle in Python integers (independent second implementation of
the ECMA-262 clauses that coq/C13/Model_C13.v transliterates).  Used (a) by the generators to construct
halfway cases from the specification side, (b) as the property's own oracle in the search stage (exact
arithmetic on the implementation's outputs), (c) to cross-check the extracted Coq model (a disagreement
between the two specifications is logged as model_defect and never raised as a violation).

A double is its 64-bit pattern (int).  Strings are Python str of UTF-16 code units (surrogates kept as
lone code points)."""

INF = 0x7FF << 52
SIGN = 1 << 63
P52 = 1 << 52
P53 = 1 << 53


def decode(bits):
    """-> (sign, kind, M, E) with |x| = M * 2**E for kind == 'fin'"""
    sign = bits >> 63
    e = (bits >> 52) & 0x7FF
    m = bits & (P52 - 1)
    if e == 0x7FF:
        return sign, ("nan" if m else "inf"), 0, 0
    if e == 0:
        return sign, "fin", m, -1074
    return sign, "fin", m | P52, e - 1075


def ratio(bits):
    """|x| as (a, b), b a power of two"""
    _, k, M, E = decode(bits)
    assert k == "fin"
    return (M << E, 1) if E >= 0 else (M, 1 << -E)


def round_nneg(a, b):
    """nearest-even binary64 magnitude bits of the rational a/b >= 0 (INF on overflow)"""
    assert a >= 0 and b > 0
    if a == 0:
        return 0
    l = a.bit_length() - b.bit_length()          # floor(log2(a/b)) in {l-1, l}
    if (a < (b << l)) if l >= 0 else ((a << -l) < b):
        l -= 1
    E = max(l - 52, -1074)
    n, d = (a << -E, b) if E < 0 else (a, b << E)
    M, r = divmod(n, d)
    if 2 * r > d or (2 * r == d and (M & 1)):
        M += 1
    u = ((E + 1074) << 52) + M
    return INF if u >= INF else u


def round_signed(neg, a, b):
    return round_nneg(a, b) | (SIGN if neg else 0)


def pow10_ratio(s, p):
    """s * 10**p as (a, b)"""
    return (s * 10 ** p, 1) if p >= 0 else (s, 10 ** -p)


def dec_exp(a, b):
    """n0 with 10**(n0-1) <= a/b < 10**n0  (a/b > 0)"""
    n = (a.bit_length() - b.bit_length()) * 1233 // 4096   # estimate of log10
    while not lt_pow10(a, b, n):
        n += 1
    while lt_pow10(a, b, n - 1):
        n -= 1
    return n


def lt_pow10(a, b, n):
    """a/b < 10**n"""
    return a < b * 10 ** n if n >= 0 else a * 10 ** -n < b


def floor_scaled(a, b, p):
    """floor(a/b * 10**p), and whether it is exact"""
    if p >= 0:
        q, r = divmod(a * 10 ** p, b)
    else:
        q, r = divmod(a, b * 10 ** -p)
    return q, r == 0


def shortest(bits):
    """(s, k, n) of Number::toString for finite non-zero |x|: value s * 10**(n-k), k digits, k minimal,
    closest to x, even s on ties"""
    u = bits & ~SIGN
    a, b = ratio(u)
    n0 = dec_exp(a, b)
    k = 1
    while True:
        lo, exact = floor_scaled(a, b, k - n0)
        cands = [lo] if exact else [lo, lo + 1]
        ok = [s for s in cands if round_nneg(*pow10_ratio(s, n0 - k)) == u]
        if ok:
            if len(ok) == 2:
                # distance comparison: x - lo*g vs (lo+1)*g - x, g = 10**(n0-k)
                # 2*x vs (2*lo+1)*g
                ga, gb = pow10_ratio(2 * lo + 1, n0 - k)
                lhs, rhs = 2 * a * gb, ga * b
                if lhs < rhs:
                    s = lo
                elif lhs > rhs:
                    s = lo + 1
                else:
                    s = lo if lo % 2 == 0 else lo + 1
            else:
                s = ok[0]
            n = n0
            if s == 10 ** k:
                s, n = 10 ** (k - 1), n0 + 1
            return s, k, n
        k += 1


def to_string(bits):
    sign, kind, _, _ = decode(bits)
    if kind == "nan":
        return "NaN"
    if bits & ~SIGN == 0:
        return "0"
    if kind == "inf":
        return "-Infinity" if sign else "Infinity"
    s, k, n = shortest(bits)
    ds = str(s)
    assert len(ds) == k
    pre = "-" if sign else ""
    if k <= n <= 21:
        return pre + ds + "0" * (n - k)
    if 0 < n <= 21:
        return pre + ds[:n] + "." + ds[n:]
    if -6 < n <= 0:
        return pre + "0." + "0" * (-n) + ds
    e = n - 1
    es = ("+" if e >= 0 else "-") + str(abs(e))
    if k == 1:
        return pre + ds + "e" + es
    return pre + ds[0] + "." + ds[1:] + "e" + es


def round_half_up(a, b, p):
    """integer n minimising |n / 10**p - a/b|, the larger n on ties"""
    q, r, d = divmod_scaled(a, b, p)
    return q + 1 if 2 * r >= d else q


def divmod_scaled(a, b, p):
    if p >= 0:
        n, d = a * 10 ** p, b
    else:
        n, d = a, b * 10 ** -p
    q, r = divmod(n, d)
    return q, r, d


def to_fixed(bits, f):
    """f: int or None (undefined -> 0); returns str or 'T:RangeError'"""
    f = 0 if f is None else f
    if not (0 <= f <= 100):
        return "T:RangeError"
    sign, kind, _, _ = decode(bits)
    if kind != "fin":
        return to_string(bits)
    a, b = ratio(bits & ~SIGN)
    if a >= b * 10 ** 21:
        return to_string(bits)
    neg = sign and a != 0
    n = round_half_up(a, b, f)
    m = str(n)
    if f:
        if len(m) <= f:
            m = "0" * (f + 1 - len(m)) + m
        m = m[:-f] + "." + m[-f:]
    return ("-" if neg else "") + m


def exp_digits(a, b, f):
    """(n, e): 10**f <= n < 10**(f+1), n * 10**(e-f) nearest a/b, larger on ties"""
    e = dec_exp(a, b) - 1
    n = round_half_up(a, b, f - e)
    if n == 10 ** (f + 1):
        n, e = 10 ** f, e + 1
    return n, e


def to_exponential(bits, f):
    """f: int, None (undefined), or 'inf'/'-inf'"""
    sign, kind, _, _ = decode(bits)
    if kind != "fin":
        return to_string(bits)
    if f is not None and (f in ("inf", "-inf") or not (0 <= f <= 100)):
        return "T:RangeError"
    u = bits & ~SIGN
    neg = sign and u != 0
    if u == 0:
        ds, e = "0" * ((f or 0) + 1), 0
    elif f is None:
        s, k, n = shortest(bits)
        ds, e = str(s), n - 1
    else:
        a, b = ratio(u)
        n, e = exp_digits(a, b, f)
        ds = str(n)
    m = ds if len(ds) == 1 else ds[0] + "." + ds[1:]
    return ("-" if neg else "") + m + "e" + ("+" if e >= 0 else "-") + str(abs(e))


def to_precision(bits, p):
    if p is None:
        return to_string(bits)
    sign, kind, _, _ = decode(bits)
    if kind != "fin":
        return to_string(bits)
    if p in ("inf", "-inf") or not (1 <= p <= 100):
        return "T:RangeError"
    u = bits & ~SIGN
    neg = sign and u != 0
    pre = "-" if neg else ""
    if u == 0:
        m, e = "0" * p, 0
    else:
        a, b = ratio(u)
        n, e = exp_digits(a, b, p - 1)
        m = str(n)
        if e < -6 or e >= p:
            if p != 1:
                m = m[0] + "." + m[1:]
            return pre + m + "e" + ("+" if e > 0 else "-") + str(abs(e))
    if e == p - 1:
        return pre + m
    if e >= 0:
        return pre + m[:e + 1] + "." + m[e + 1:]
    return pre + "0." + "0" * (-(e + 1)) + m


DIGITS = "0123456789abcdefghijklmnopqrstuvwxyz"


def radix_int(bits, r):
    """x.toString(r) for an integer-valued finite x (exact digits); None when x is not an integer"""
    sign, kind, M, E = decode(bits)
    if kind != "fin":
        return to_string(bits)
    if M == 0:
        return "0"
    if E < 0:
        if M & ((1 << -E) - 1) if -E < 64 else True:
            return None
        v = M >> -E
    else:
        v = M << E
    out = ""
    while v:
        out = DIGITS[v % r] + out
        v //= r
    return ("-" if sign else "") + out


WS = set([0x9, 0xB, 0xC, 0x20, 0xA0, 0xFEFF, 0x1680, 0x202F, 0x205F, 0x3000, 0xA, 0xD, 0x2028, 0x2029] + list(range(0x2000, 0x200B)))


def trim(s, start=True, end=True):
    i, j = 0, len(s)
    if start:
        while i < j and ord(s[i]) in WS:
            i += 1
    if end:
        while j > i and ord(s[j - 1]) in WS:
            j -= 1
    return s[i:j]


def is_dec(c):
    return "0" <= c <= "9"


def scan_decimal(s):
    """longest prefix of s that is a StrUnsignedDecimalLiteral without 'Infinity':
    -> (mantissa int, exp10, length) or None"""
    i = 0
    n = len(s)
    while i < n and is_dec(s[i]):
        i += 1
    int_digits = s[:i]
    frac = ""
    j = i
    if j < n and s[j] == ".":
        k = j + 1
        while k < n and is_dec(s[k]):
            k += 1
        frac = s[j + 1:k]
        if int_digits or frac:
            j = k
        # a lone "." is not a literal
    if not int_digits and not frac:
        return None
    end = j
    ex = 0
    if j < n and s[j] in "eE":
        k = j + 1
        sg = 1
        if k < n and s[k] in "+-":
            sg = -1 if s[k] == "-" else 1
            k += 1
        k0 = k
        while k < n and is_dec(s[k]):
            k += 1
        if k > k0:
            ex = sg * int(s[k0:k])
            end = k
    mant = int((int_digits + frac) or "0")
    return mant, ex - len(frac), end


def dec_value_bits(neg, mant, e10):
    if mant == 0:
        return SIGN if neg else 0
    # clamp absurd exponents without changing the result (|x| > 10**400 is Infinity, < 10**-400 is 0 for any
    # mantissa of bounded length is NOT valid in general, so scale by the mantissa length)
    nd = len(str(mant))
    if e10 + nd > 400:
        return INF | (SIGN if neg else 0)
    if e10 + nd < -400:
        return SIGN if neg else 0
    a, b = pow10_ratio(mant, e10)
    return round_signed(neg, a, b)


NAN = "nan"


def string_to_number(s):
    """StringToNumber: bits or NAN"""
    t = trim(s)
    if t == "":
        return 0
    if len(t) > 2 and t[0] == "0" and t[1] in "xXoObB":
        base = {"x": 16, "o": 8, "b": 2}[t[1].lower()]
        body = t[2:]
        v = 0
        for c in body:
            d = DIGITS.find(c.lower()) if c.isascii() else -1
            if d < 0 or d >= base:
                return NAN
            v = v * base + d
        return round_nneg(v, 1)
    neg = False
    u = t
    if u[0] in "+-":
        neg = u[0] == "-"
        u = u[1:]
    if u == "Infinity":
        return INF | (SIGN if neg else 0)
    r = scan_decimal(u)
    if r is None or r[2] != len(u):
        return NAN
    return dec_value_bits(neg, r[0], r[1])


def parse_float(s):
    t = trim(s, True, False)
    neg = False
    if t[:1] in ("+", "-"):
        neg = t[0] == "-"
        t = t[1:]
    if t.startswith("Infinity"):
        return INF | (SIGN if neg else 0)
    r = scan_decimal(t)
    if r is None:
        return NAN
    return dec_value_bits(neg, r[0], r[1])


def parse_int(s, radix):
    """radix: int after ToInt32 (0 = undefined).  -> (bits or NAN, latitude) where latitude is None when ECMA-262
    fixes the result exactly, else a label of the clause that leaves it to the implementation, with the
    set of acceptable alternatives where the clause names them"""
    t = trim(s, True, False)
    sign = 1
    if t[:1] == "-":
        sign = -1
    if t[:1] in ("+", "-"):
        t = t[1:]
    R = radix
    strip = True
    if R != 0:
        if R < 2 or R > 36:
            return NAN, None
        if R != 16:
            strip = False
    else:
        R = 10
    if strip and len(t) >= 2 and t[:2] in ("0x", "0X"):
        t = t[2:]
        R = 16
    end = 0
    while end < len(t) and t[end].isascii() and 0 <= DIGITS.find(t[end].lower()) < R and t[end] != "":
        end += 1
    z = t[:end]
    if z == "":
        return NAN, None
    v = 0
    for c in z:
        v = v * R + DIGITS.find(c.lower())
    lat = None
    sig = z.lstrip("0")
    if R == 10 and len(sig) > 20:
        alt = int(sig[:20] + "0" * (len(sig) - 20))
        lat = ("decimal-over-20-digits", round_signed(sign < 0, alt, 1))
    elif R not in (2, 4, 8, 10, 16, 32) and v >= P53:
        lat = ("odd-radix-approximated", None)
    if v == 0:
        return (SIGN if sign < 0 else 0), lat
    return round_signed(sign < 0, v, 1), lat


def strip_sep(s):
    """numeric separators: single '_' between two digits only; returns None if misplaced"""
    if s.startswith("_") or s.endswith("_") or "__" in s:
        return None
    return s.replace("_", "")


def numeric_literal(s, strict):
    """NumericLiteral of the source grammar (no BigInt suffix): bits, or 'T:SyntaxError'"""
    ERR = "T:SyntaxError"
    if not s or not s.isascii():
        return ERR
    if len(s) >= 2 and s[0] == "0" and s[1] in "xXoObB":
        base = {"x": 16, "o": 8, "b": 2}[s[1].lower()]
        body = strip_sep(s[2:])
        if not body:
            return ERR
        v = 0
        for c in body:
            d = DIGITS.find(c.lower())
            if d < 0 or d >= base:
                return ERR
            v = v * base + d
        return round_nneg(v, 1)
    if len(s) >= 2 and s[0] == "0" and is_dec(s[1]):
        # LegacyOctalIntegerLiteral or NonOctalDecimalIntegerLiteral (Annex B / sloppy only), no separators
        i = 0
        while i < len(s) and is_dec(s[i]):
            i += 1
        head = s[:i]
        if strict:
            return ERR
        if all(c in "01234567" for c in head):
            if i != len(s):
                return ERR      # 017.5 / 017e1 are not literals
            return round_nneg(int(head, 8), 1)
        rest = s[i:]
        if rest[:1] == "_":
            return ERR          # no separator in (or right after) the NonOctalDecimalIntegerLiteral
        if rest and numeric_literal("1" + rest, True) == ERR:
            return ERR          # the continuation must be a well-formed fraction / exponent (separators allowed there)
        clean = (head + rest).replace("_", "")
        r = scan_decimal(clean)
        if r is None or r[2] != len(clean):
            return ERR
        return dec_value_bits(False, r[0], r[1])
    # DecimalLiteral with separators
    if "_" in s:
        # split into integer / fraction / exponent parts; each must be a well-formed separated digit run
        import re
        m = re.fullmatch(r"([0-9_]*)(?:(\.)([0-9_]*))?(?:[eE]([+-]?)([0-9_]+))?", s)
        if not m:
            return ERR
        parts = [m.group(1), m.group(3), m.group(5)]
        for p in parts:
            if p and strip_sep(p) is None:
                return ERR
        if m.group(1).startswith("0") and len(strip_sep(m.group(1)) or "") > 1:
            return ERR
        if m.group(1) == "0" + m.group(1)[1:] and m.group(1)[1:2] == "_":
            return ERR          # 0_1 is not allowed
        s = s.replace("_", "")
    r = scan_decimal(s)
    if r is None or r[2] != len(s):
        return ERR
    return dec_value_bits(False, r[0], r[1])


def json_number(s):
    """JSON.parse of a number text: bits or 'T:SyntaxError'"""
    import re
    m = re.fullmatch(r"(-?)(0|[1-9][0-9]*)(?:\.([0-9]+))?(?:[eE]([+-]?[0-9]+))?", s)
    if not m:
        return "T:SyntaxError"
    neg = m.group(1) == "-"
    frac = m.group(3) or ""
    mant = int(m.group(2) + frac)
    ex = int(m.group(4) or "0") - len(frac)
    return dec_value_bits(neg, mant, ex)


# ---- checking an implementation answer by exact arithmetic (search oracle) -----------------------

def check_fixed_output(bits, f, out):
    """is `out` an acceptable x.toFixed(f) by exact arithmetic?  (independent of to_fixed above: parses the
    output and compares distances)"""
    sign, kind, _, _ = decode(bits)
    if kind != "fin":
        return out == to_string(bits)
    a, b = ratio(bits & ~SIGN)
    if a >= b * 10 ** 21:
        return out == to_string(bits)
    import re
    m = re.fullmatch(r"(-?)([0-9]+)(?:\.([0-9]+))?", out)
    if not m:
        return False
    frac = m.group(3) or ""
    if len(frac) != f:
        return False
    if len(m.group(2)) > 1 and m.group(2)[0] == "0":
        return False
    if (m.group(1) == "-") != bool(sign and a != 0):
        return False
    n = int(m.group(2) + frac)
    # |n/10^f - x| minimal with larger n on ties  <=>  n - 1/2 <= x*10^f < n + 1/2
    lhs = 2 * a * 10 ** f
    return (2 * n - 1) * b <= lhs < (2 * n + 1) * b


def check_exp_like(bits, f, digits, e):
    """digits (f+1 of them, first non-zero) and exponent e: n*10^(e-f) nearest to |x|, larger on ties"""
    a, b = ratio(bits & ~SIGN)
    n = int(digits)
    if len(digits) != f + 1 or digits[0] == "0":
        return False
    # (2n-1) * 10^(e-f) <= 2x < (2n+1) * 10^(e-f), except at n = 10^f where the lower neighbour is on the finer grid
    p = e - f
    lo_num, lo_den = pow10_ratio(2 * n - 1, p)
    hi_num, hi_den = pow10_ratio(2 * n + 1, p)
    if n == 10 ** f:
        lo_num, lo_den = pow10_ratio(20 * n - 1, p - 1)
    return lo_num * b <= 2 * a * lo_den and 2 * a * hi_den < hi_num * b


def hex_bits(x):
    return "%016x" % x
