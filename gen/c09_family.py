"""C09 targeted family: a weak cell / ephemeron / nested weak map whose box is reachable ONLY through the value of
another ephemeron (or weak-map entry), with the inner box allocated before or after the outer one.

Why it exists: `Collector::mark_heap` walks `weaks` in allocation order.  An inner ephemeron box that hangs off the
value of an outer ephemeron is still unmarked when the walk visits it if it was allocated first; it is marked only
later, when the outer ephemeron's key is found live and its value is traced (later in the walk or in the
pending-ephemeron fix-point), and must then be re-traced by the fix-point.  Strong edges never produce this state
(phase 0 marks everything reachable through them), so neither the small exhaustive universe (<= 2 ephemeron boxes)
nor the unit tests reach it; the random stream does, but detection should not depend on it.

Deterministic: every combination of
  order        inner box allocated before / after the outer box
  inner        WeakGc(T) | Ephemeron(T -> W) | weak map {T -> W} held by the value
  outer        external Ephemeron(K -> V) | Ephemeron stored in a held node | weak-map entry {K -> V} | chain of two outers
  T, K         held by the mutator / reachable only through V (T) / dropped (K)
  depth        the inner value W carries yet another inner weak cell (allocated first)
followed by one or two collections and by observations that reach the inner cell again through the outer value
(`val` -> V, `loade`, `upg`, `val`, `wmget`), so a wrongly cleared inner cell, a freed W, or a lost nested entry shows up in
the compared lines and in the oracle.  The histories are valid by construction (ids are tracked here, not guessed).
"""


class B:
    """History builder: tracks the ids the harness will hand out."""

    def __init__(self):
        self.ops = []
        self.ns = 0
        self.ne = 0

    def new(self, fin=0):
        self.ops.append("new %d" % fin)
        self.ns += 1
        return self.ns - 1

    def wmnew(self):
        self.ops.append("wmnew")
        self.ns += 1
        self.ne += 1          # registry WeakGc
        return self.ns - 1

    def weak(self, a):
        self.ops.append("weak %d" % a)
        self.ne += 1
        return self.ne - 1

    def eph(self, k, v):
        self.ops.append("eph %d %d" % (k, v))
        self.ne += 1
        return self.ne - 1

    def wmins(self, m, k, v):
        self.ops.append("wmins %d %d %d" % (m, k, v))
        self.ne += 1
        return self.ne - 1

    def op(self, fmt, *a):
        self.ops.append(fmt % a)


def _inner(b, kind, V, T, W):
    """Create the inner weak thing and hang it off V.  Returns a descriptor used for the observations."""
    if kind == "weak":
        e = b.weak(T)
        b.op("storee %d %d", V, e)
        b.op("drope %d", e)
        return ("weak", e)
    if kind == "eph":
        e = b.eph(T, W)
        b.op("storee %d %d", V, e)
        b.op("drope %d", e)
        return ("eph", e)
    m = b.wmnew()                      # nested weak map held (strongly) by V
    b.wmins(m, T, W)
    b.op("link %d %d", V, m)
    b.op("drop %d", m)
    return ("map", m)


def _outer(b, kind, K, V, holder):
    """Create the outer ephemeron K -> V.  Returns a descriptor telling how to get V back."""
    if kind == "eph":
        return ("eph", b.eph(K, V))
    if kind == "stored":
        e = b.eph(K, V)
        b.op("storee %d %d", holder, e)
        b.op("drope %d", e)
        return ("stored", e)
    if kind == "map":
        m = b.wmnew()
        b.wmins(m, K, V)
        return ("map", m)
    raise ValueError(kind)


def one(order, ikind, okind, t_held, k_held, deep, gcs):
    b = B()
    K = b.new()
    V = b.new()
    T = b.new()
    W = b.new()
    holder = b.new()
    extra = None
    if deep:
        # W itself carries a weak cell to a node X that is reachable only from W (allocated before everything else)
        X = b.new()
        ex = b.weak(X)
        b.op("storee %d %d", W, ex)
        b.op("drope %d", ex)
        b.op("link %d %d", W, X)
        b.op("drop %d", X)
        extra = (ex, X)
    if order == "inner-first":
        inner = _inner(b, ikind, V, T, W)
        outer = _build_outer(b, okind, K, V, holder)
    else:
        outer = _build_outer(b, okind, K, V, holder)
        inner = _inner(b, ikind, V, T, W)
    if not t_held:
        b.op("link %d %d", V, T)       # T stays live, but only through V
        b.op("drop %d", T)
    b.op("drop %d", W)                 # W only through the inner cell
    b.op("drop %d", V)                 # V only through the outer ephemeron
    if not k_held:
        b.op("drop %d", K)             # outer key dead: V, inner, W must all go
    for _ in range(gcs):
        b.op("gc")
    # observations: get V back through the outer cell, then look at the inner cell
    _observe(b, outer, inner, K, V, T, W, t_held, k_held, extra)
    b.op("gc")
    return b.ops


def _build_outer(b, okind, K, V, holder):
    if okind != "chain":
        return _outer(b, okind, K, V, holder)
    # chain: K -> M (middle node) and M -> V: V is live only if the fix-point follows two ephemeron values; the
    # second link is allocated first and lives in the middle node
    M = b.new()
    e2 = b.eph(M, V)
    b.op("storee %d %d", M, e2)        # the second link lives in the middle node
    b.op("drope %d", e2)
    e1 = b.eph(K, M)
    b.op("drop %d", M)
    return ("chain", e1, e2, M)


def _observe(b, outer, inner, K, V, T, W, t_held, k_held, extra):
    # 1. V through the outer cell
    if outer[0] == "eph":
        b.op("val %d", outer[1])
    elif outer[0] == "stored":
        b.op("loade %d %d", 4, outer[1])      # holder is node 4
        b.op("val %d", outer[1])
    elif outer[0] == "map":
        if k_held:
            b.op("wmget %d %d", outer[1], K)
        # the weak-map API hands out no handle to the value: observed through the logs / statistics and wmget only
        return
    else:
        b.op("val %d", outer[1])              # -> M
        if k_held:
            b.op("loade %d %d", outer[3], outer[2])
            b.op("val %d", outer[2])          # -> V
    if not k_held:
        return                                 # V is gone: the lines above answered `none`
    # 2. the inner cell through V
    if inner[0] in ("weak", "eph"):
        b.op("loade %d %d", V, inner[1])
        b.op("upg %d", inner[1])
        b.op("val %d", inner[1])
        if inner[0] == "eph" and extra is not None:
            b.op("loade %d %d", W, extra[0])
            b.op("upg %d", extra[0])
    else:
        b.op("load %d %d", V, inner[1])
        if t_held:
            b.op("wmget %d %d", inner[1], T)
        else:
            b.op("load %d %d", V, T)
            b.op("wmget %d %d", inner[1], T)
    b.op("read %d", V)


def family():
    out = []
    for order in ("inner-first", "outer-first"):
        for ikind in ("weak", "eph", "map"):
            for okind in ("eph", "stored", "map", "chain"):
                for t_held in (True, False):
                    for k_held in (True, False):
                        for deep in (False, True):
                            if deep and ikind == "weak":
                                continue
                            for gcs in (1, 2):
                                out.append(one(order, ikind, okind, t_held, k_held, deep, gcs))
    return out


if __name__ == "__main__":
    fam = family()
    print(len(fam), "histories,", sum(len(h) for h in fam), "ops")
    print("\n".join(fam[0]))
