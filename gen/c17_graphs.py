"""C17 generators: module-graph cases for harness `modops` and the model driver (same line format).

case  = {"mods": [{"flags": str, "decls": [(kind, t, u)]}], "ops": [entry indices]}
line  = "<flags>:<decl>,<decl>;... | L<k>,L<k>"          (see harness/src/bin/modops.rs)
All randomness comes from the rng passed in (run.rng).
"""
import itertools

KINDS_READ = ("n", "s")


def ordered_subsets(n):
    out = []
    for k in range(n + 1):
        out.extend(itertools.permutations(range(n), k))
    return out


def shapes(n):
    """Every assignment of an ordered request list (ordered subset of the n modules, self included) to every module."""
    return itertools.product(ordered_subsets(n), repeat=n)


def edge_shapes(n):
    """Every edge set over n modules (self loops included); request lists in ascending order."""
    for bits in range(1 << (n * n)):
        yield tuple(tuple(t for t in range(n) if bits >> (m * n + t) & 1) for m in range(n))


# ------------------------------------------------------------------------------------------------
# static facts about a case (independent of boa and of the Coq model)

def requests(mod):
    seen, out = set(), []
    for (_, t, _) in mod["decls"]:
        if t not in seen:
            seen.add(t)
            out.append(t)
    return out


def star_reach(mods, t):
    """modules reachable from t through `export * from` declarations (t included)."""
    seen, todo = set(), [t]
    while todo:
        x = todo.pop()
        if x in seen or x >= len(mods):
            continue
        seen.add(x)
        for (k, w, _) in mods[x]["decls"]:
            if k == "e":
                todo.append(w)
    return seen


def link_error(mods, m):
    """True when InitializeEnvironment of module m must throw a SyntaxError."""
    for (k, t, u) in mods[m]["decls"]:
        if k == "b":
            return True
        if k == "r":
            ok = any(("x", u) == (k2, t2) for w in star_reach(mods, t) for (k2, t2, _) in mods[w]["decls"])
            if not ok:
                return True
    return False


def reach_sets(mods):
    n = len(mods)
    req = [[t for t in requests(m) if t < n] for m in mods]
    reach = []
    for s in range(n):
        seen, todo = set(), list(req[s])
        while todo:
            x = todo.pop()
            if x in seen:
                continue
            seen.add(x)
            todo.extend(req[x])
        reach.append(seen)          # reach[s] = modules reachable by a non-empty path
    return req, reach


def facts(case):
    mods = case["mods"]
    n = len(mods)
    req, reach = reach_sets(mods)
    tla = [("a" in m["flags"] or "p" in m["flags"]) for m in mods]
    throws = [("t" in m["flags"] or "T" in m["flags"]) for m in mods]
    missing = [any(t >= n for t in requests(m)) for m in mods]
    lerr = [link_error(mods, k) for k in range(n)]
    cyc = [k in reach[k] for k in range(n)]
    return {"n": n, "req": req, "reach": reach, "tla": tla, "throws": throws, "missing": missing, "linkerr": lerr,
            "cyclic": cyc}


def case_line(case, with_e=True):
    mods = case["mods"]
    parts = []
    for k, m in enumerate(mods):
        fl = m["flags"].replace("E", "").replace("-", "")
        if with_e and link_error(mods, k):
            fl += "E"
        ds = ",".join("%s%d" % (kd, t) if kd != "r" else "r%d.%d" % (t, u) for (kd, t, u) in m["decls"])
        parts.append("%s:%s" % (fl or "-", ds))
    return ";".join(parts) + " | " + ",".join(("L%d" % e) if isinstance(e, int) else e for e in case["ops"])


def parse_line(line):
    ms, ops = line.split("|")
    mods = []
    for part in ms.strip().split(";"):
        fl, ds = part.strip().split(":")
        decls = []
        for d in ds.split(","):
            d = d.strip()
            if not d:
                continue
            if "." in d:
                a, b = d[1:].split(".")
                decls.append((d[0], int(a), int(b)))
            else:
                decls.append((d[0], int(d[1:]), 0))
        mods.append({"flags": fl.strip().replace("E", "").replace("-", ""), "decls": decls})
    opl = [o.strip() for o in ops.split(",") if o.strip()]
    return {"mods": mods, "ops": [int(o[1:]) if o[0] == "L" else o for o in opl]}


# ------------------------------------------------------------------------------------------------
# decoration of a shape with declaration kinds and flags

def decorate(rng, shape, profile, ops=None):
    """shape: tuple of request tuples.  profile: dict of probabilities
       throw, tla, let, reexport, bad (malformed)."""
    n = len(shape)
    mods = []
    for m, reqs in enumerate(shape):
        decls = []
        xs = set()
        for t in reqs:
            r = rng.random()
            if r < profile.get("reexport", 0.0) and t not in xs:
                decls.append(("x", t, 0))
                xs.add(t)
            elif r < 2 * profile.get("reexport", 0.0):
                decls.append(("e", t, 0))
            elif r < 2 * profile.get("reexport", 0.0) + 0.15:
                decls.append(("i", t, 0))
            else:
                decls.append((rng.choice(KINDS_READ), t, 0))
        fl = ""
        if rng.random() < profile.get("tla", 0.0):
            fl += rng.choice(["a", "p", "a", "aa", "ap"])
        if rng.random() < profile.get("throw", 0.0):
            fl += rng.choice("tT") if fl else "t"
        if rng.random() < profile.get("let", 0.0):
            fl += "l"
        mods.append({"flags": fl, "decls": decls})
    # reads through re-exports: import {x<u>} from a module that (transitively, via export *) re-exports it
    if profile.get("reexport", 0.0) > 0:
        for m in range(n):
            for (k, t, _) in list(mods[m]["decls"]):
                if t >= n:
                    continue
                if rng.random() < 0.5:
                    cands = sorted({t2 for w in star_reach(mods, t) for (k2, t2, _) in mods[w]["decls"] if k2 == "x"})
                    if cands:
                        mods[m]["decls"].append(("r", t, rng.choice(cands)))
    bad = profile.get("bad", 0.0)
    if bad > 0:
        for m in range(n):
            r = rng.random()
            if r < bad / 3 and mods[m]["decls"]:
                mods[m]["decls"].append(("b", rng.choice(mods[m]["decls"])[1], 0))          # unresolvable name
            elif r < 2 * bad / 3:
                mods[m]["decls"].insert(rng.randrange(len(mods[m]["decls"]) + 1), (rng.choice("ins"), n + rng.randrange(2), 0))  # missing module
            elif r < bad and mods[m]["decls"]:
                (k, t, _) = rng.choice(mods[m]["decls"])
                mods[m]["decls"].append(("r", t, rng.randrange(n + 1)))                     # maybe-invalid re-export read
                mods[m]["decls"].append((rng.choice("ins"), t, 0))                           # duplicate request
    if ops is None:
        ops = default_ops(rng, n)
    return {"mods": mods, "ops": ops}


def default_ops(rng, n, entry=None):
    """entry first, then every other module (recorded outcomes), then the entry again (idempotence)."""
    e = rng.randrange(n) if entry is None else entry
    rest = [k for k in range(n) if k != e]
    rng.shuffle(rest)
    return [e] + rest + [e]


def set_single_flag(case, m, fl):
    c = {"mods": [dict(x) for x in case["mods"]], "ops": list(case["ops"])}
    c["mods"][m]["flags"] = c["mods"][m]["flags"] + fl
    return c


# ------------------------------------------------------------------------------------------------
# random structured graphs (up to 8 modules)

def random_shape(rng, n):
    """A DAG backbone (edges to higher indices) plus a tunable number of back/self edges, request order shuffled."""
    style = rng.choice(["dag", "cyc", "cyc", "dense", "chain", "diamond"])
    req = [[] for _ in range(n)]
    if style == "chain":
        for m in range(n - 1):
            req[m].append(m + 1)
        for _ in range(rng.randrange(3)):
            a = rng.randrange(n)
            req[a].append(rng.randrange(n))
    elif style == "diamond":
        for m in range(n):
            for t in range(m + 1, n):
                if rng.random() < 0.45:
                    req[m].append(t)
        if n > 2 and rng.random() < 0.5:
            req[n - 1].append(rng.randrange(n - 1))
    else:
        p = {"dag": 0.35, "cyc": 0.3, "dense": 0.6}[style]
        for m in range(n):
            for t in range(m + 1, n):
                if rng.random() < p:
                    req[m].append(t)
        if style != "dag":
            for _ in range(1 + rng.randrange(max(1, n // 2))):
                a = rng.randrange(n)
                req[a].append(rng.randrange(a + 1))
    # make most modules reachable from 0
    for m in range(1, n):
        if not any(m in r for r in req) and rng.random() < 0.8:
            req[rng.randrange(m)].append(m)
    out = []
    for r in req:
        r = list(dict.fromkeys(r))
        rng.shuffle(r)
        out.append(tuple(r))
    return tuple(out)


PROFILES = {
    "sync": {"throw": 0.0, "tla": 0.0, "let": 0.2, "reexport": 0.0},
    "sync-throw": {"throw": 0.25, "tla": 0.0, "let": 0.2, "reexport": 0.0},
    "reexport": {"throw": 0.1, "tla": 0.0, "let": 0.2, "reexport": 0.2},
    "tla": {"throw": 0.0, "tla": 0.3, "let": 0.2, "reexport": 0.05},
    "tla-throw": {"throw": 0.2, "tla": 0.3, "let": 0.2, "reexport": 0.05},
    "malformed": {"throw": 0.15, "tla": 0.15, "let": 0.2, "reexport": 0.15, "bad": 0.35},
}


def random_case(rng, nmax=8, profile=None):
    n = rng.choice([2, 3, 4, 4, 5, 5, 6, 6, 7, 8][: max(1, nmax)])
    n = min(n, nmax)
    pname = profile or rng.choice(list(PROFILES))
    shape = random_shape(rng, n)
    # entries: a random one first, sometimes a second independent entry before revisiting
    ops = default_ops(rng, n)
    if rng.random() < 0.3:
        ops = ops[: rng.randrange(1, len(ops) + 1)]
    return decorate(rng, shape, PROFILES[pname], ops), pname


# ------------------------------------------------------------------------------------------------
# evaluations that stay pending across Evaluate() calls: ops P<k> (load + drain), E<k> (link + evaluate, no drain), J (drain)

def pending_case(rng):
    """x (top-level await) <- t1 ; a synchronous graph s ; t2 imports x and t1 (and more); E t1, E s, E t2, J in varying orders."""
    n = rng.choice([4, 4, 5, 6, 7])
    mods = [{"flags": rng.choice(["a", "aa", "p", "ap"]), "decls": []},                       # 0: x
            {"flags": rng.choice(["", "", "a"]), "decls": [(rng.choice("ns"), 0, 0)]},        # 1: t1
            {"flags": "", "decls": []},                                                        # 2: s (synchronous graph)
            {"flags": rng.choice(["", "", "a"]), "decls": []}]                                 # 3: t2
    d3 = [(rng.choice("ns"), 0, 0), (rng.choice("ns"), 1, 0)]
    rng.shuffle(d3)
    mods[3]["decls"] = d3
    for k in range(4, n):
        fl = rng.choice(["", "", "a", "p"])
        decls = []
        if rng.random() < 0.6:
            decls.append((rng.choice("ns"), rng.choice([0, 1]), 0))
        if k > 4 and rng.random() < 0.4:
            decls.append((rng.choice("ins"), rng.randrange(4, k), 0))
        mods.append({"flags": fl, "decls": decls})
        who = rng.choice([1, 3, 3, 2]) if not decls and not fl else rng.choice([1, 3, 3])
        mods[who]["decls"].insert(rng.randrange(len(mods[who]["decls"]) + 1), (rng.choice("ns"), k, 0))
    if rng.random() < 0.15:
        mods[rng.choice([1, 3])]["flags"] += "t"
    if rng.random() < 0.2:                      # a cycle through t1
        mods[0 if rng.random() < 0.3 else 1]["decls"].append((rng.choice("ns"), 3 if rng.random() < 0.5 else 1, 0))
    entries = [1, 2, 3]
    style = rng.random()
    if style < 0.5:
        order = ["E1", "E2", "E3", "J"]
    elif style < 0.65:
        order = ["E1", "E3", "J"]
    elif style < 0.8:
        order = ["E3", "E2", "E1", "J"]
    elif style < 0.9:
        order = ["E1", "J", "E2", "E3", "J"]
    else:
        order = ["E1", "E2", "E3", "E1", "J", "E3"]
    extra = [k for k in range(4, n) if rng.random() < 0.3]
    ops = ["P%d" % e for e in entries + extra] + order[:1] + ["E%d" % e for e in extra] + order[1:]
    if rng.random() < 0.3:
        ops += [rng.choice([1, 3])]
    return {"mods": mods, "ops": ops}
