"""C02 input streams (all randomness from the rng passed in):
   raw_bytes       byte strings: random / punctuation-biased / broken UTF-8 / lexer edge material
   snippets        every JS-looking string literal of /repo's Rust test sources (TestAction::run, run_test_actions,
                   indoc!, check_script_parser, ...) and the small bench scripts
   mutate          token-level mutants of a snippet (delete/duplicate/swap/replace/insert/splice/edge literals)
   gen_program     a weighted grammar over a much wider surface than JSRef's fragment (regexps, templates, Proxy,
                   Reflect, typed arrays, generators, async, classes with private names, destructuring, labelled
                   jumps, with, eval, Function, JSON, Symbol, BigInt), biased to deep nesting and huge literals
   nesting         a cheap upper bound of the syntactic nesting of a text (the property quantifies over <= 64)
"""
import os
import re

# ------------------------------------------------------------------------------------------------------
# snippets from the repo's own tests

TEST_MARKERS = ("TestAction", "run_test_actions", "indoc!", "check_script_parser", "check_invalid_script",
                "check_module_parser", "context.eval", "Source::from_bytes", "forward(", "forward_val(")

_RAW = re.compile(r'r(#*)"(.*?)"\1', re.S)
_STR = re.compile(r'"((?:[^"\\]|\\.|\\\n)*)"', re.S)
_ESC = re.compile(r'\\(u\{([0-9a-fA-F]{1,6})\}|x([0-9a-fA-F]{2})|\n\s*|.)', re.S)
JSISH = re.compile(r"[(){};=\[\].`]|\b(var|let|const|function|return|class|new|typeof|yield|await|throw|import|export)\b")


def _unescape(s):
    def rep(m):
        if m.group(2):
            try:
                return chr(int(m.group(2), 16))
            except ValueError:
                return "\ufffd"
        if m.group(3):
            return chr(int(m.group(3), 16))
        g = m.group(1)
        if g.startswith("\n"):
            return ""
        return {"n": "\n", "t": "\t", "r": "\r", "0": "\0", "\\": "\\", '"': '"', "'": "'"}.get(g, g)
    return _ESC.sub(rep, s)


def extract_snippets(repo, max_len=3000):
    """(list of snippet strings, stats).  Deterministic order (sorted paths, source order)."""
    out, seen = [], set()
    stats = {"files": 0, "raw": 0, "plain": 0, "js_files": 0}
    roots = [os.path.join(repo, d) for d in ("core", "cli", "examples", "tests", "ffi", "tools")]
    paths = []
    for root in roots:
        for dp, dn, fn in os.walk(root):
            dn[:] = sorted(d for d in dn if d not in ("target", "node_modules", ".git", "test262"))
            for f in sorted(fn):
                if f.endswith(".rs"):
                    paths.append(os.path.join(dp, f))
    for p in paths:
        try:
            src = open(p, encoding="utf8", errors="replace").read()
        except OSError:
            continue
        if not any(mk in src for mk in TEST_MARKERS):
            continue
        stats["files"] += 1
        # strip comments crudely (line comments only; a '//' inside a string costs a snippet, not correctness)
        for m in _RAW.finditer(src):
            t = m.group(2)
            if 3 <= len(t) <= max_len and JSISH.search(t) and t not in seen:
                seen.add(t)
                out.append(t)
                stats["raw"] += 1
        src2 = _RAW.sub('""', src)
        for m in _STR.finditer(src2):
            t = _unescape(m.group(1))
            if 3 <= len(t) <= max_len and JSISH.search(t) and t not in seen and not t.startswith("INST - "):
                seen.add(t)
                out.append(t)
                stats["plain"] += 1
    bench = os.path.join(repo, "benches", "scripts")
    for dp, dn, fn in os.walk(bench):
        dn.sort()
        for f in sorted(fn):
            if f.endswith(".js"):
                try:
                    t = open(os.path.join(dp, f), encoding="utf8", errors="replace").read()
                except OSError:
                    continue
                if len(t) <= max_len and t not in seen:
                    seen.add(t)
                    out.append(t)
                    stats["js_files"] += 1
    return out, stats


# ------------------------------------------------------------------------------------------------------
# token-level mutation

JS_TOK = re.compile(r"""
    \s+ | //[^\n]* | /\*.*?\*/
  | `(?:[^`\\]|\\.)*` | "(?:[^"\\\n]|\\.)*" | '(?:[^'\\\n]|\\.)*'
  | 0[xXbBoO][0-9a-fA-F_]+n? | (?:\d[\d_]*\.?[\d_]*|\.\d[\d_]*)(?:[eE][+-]?\d+)?n?
  | [A-Za-z_$\#][A-Za-z0-9_$]*
  | >>>=|\.\.\.|===|!==|\*\*=|<<=|>>=|>>>|&&=|\|\|=|\?\?=
  | =>|==|!=|<=|>=|&&|\|\||\?\?|\?\.|\+\+|--|\+=|-=|\*=|/=|%=|&=|\|=|\^=|<<|>>|\*\*
  | .
""", re.X | re.S)

INTERESTING = [
    "(", ")", "[", "]", "{", "}", ";", ",", ".", "...", "?.", "=>", "=", "==", "===", "+", "-", "*", "/", "%", "**", "++", "--",
    "<<", ">>", ">>>", "&", "|", "^", "~", "!", "&&", "||", "??", "?", ":", "`", "${", "'", '"', "\\", "#", "@", "\n", "/*", "*/", "//",
    "var", "let", "const", "function", "function*", "async", "await", "yield", "yield*", "class", "extends", "super", "new", "new.target",
    "this", "return", "throw", "try", "catch", "finally", "if", "else", "for", "while", "do", "switch", "case", "default", "break",
    "continue", "with", "in", "of", "instanceof", "typeof", "void", "delete", "get", "set", "static", "import", "export", "import.meta",
    "null", "undefined", "true", "false", "NaN", "Infinity", "arguments", "eval", "label:", "debugger", "enum", "implements", "package",
    "0", "1", "-1", "-0", "0n", "1n", "2147483647", "-2147483648", "2147483648", "4294967295", "4294967296", "9007199254740991",
    "9007199254740993", "1e308", "1e309", "5e-324", "0x7fffffff", "0xffffffff", "0b1", "0o7", "1_0", ".5", "5.", "1e", "0x",
    "(-2147483648|0)", "(2147483647|0)", "(-1|0)",
    '""', "''", "``", '"\\u{10ffff}"', '"\\ud800"', '"\\udc00\\ud800"', "/a/", "/(?:)/gimsuyd", "/[/", "/(?<a>.)\\k<a>/u", "/\\p{L}/v", "/a{2147483648}/",
    "[]", "{}", "[,]", "[,,1]", "({})", "(()=>{})", "(function(){})", "(class{})", "Symbol()", "Symbol.iterator", "Symbol.toPrimitive",
    "Object", "Array", "Function", "Proxy", "Reflect", "JSON", "Math", "Promise", "Map", "Set", "WeakMap", "WeakRef", "ArrayBuffer",
    "SharedArrayBuffer", "DataView", "Uint8Array", "Float64Array", "BigInt64Array", "RegExp", "Date", "Error", "AggregateError", "globalThis",
    "String", "Number", "BigInt", "Boolean", "Atomics", "FinalizationRegistry", "Iterator", "Intl",
    ".length", ".prototype", ".constructor", ".__proto__", ".call", ".apply", ".bind", ".toString", ".valueOf", "[Symbol.iterator]",
    ".repeat(1e3)", ".padStart(1e4)", ".fill(0)", ".length=4294967295", ".length=0", ".sort()", ".flat(Infinity)", ".at(-1)",
]
EDGE_NUMS = ["0", "-0", "1", "-1", "2147483647", "-2147483648", "2147483648", "-2147483649", "4294967295", "4294967296", "9007199254740992",
             "1e21", "1e-7", "1e308", "1e309", "5e-324", "0.1", "255", "256", "65535", "65536", "0x80000000", "1n", "-1n", "2n**64n", "NaN", "Infinity"]


def tokenize_js(text):
    return [m.group(0) for m in JS_TOK.finditer(text)]


def mutate(text, rng, pool, other=None):
    toks = tokenize_js(text)
    if not toks:
        toks = [text]
    n = 1 + (rng.random() < 0.3) + (rng.random() < 0.1) + (rng.random() < 0.05) * 3
    for _ in range(n):
        if not toks:
            toks = [rng.choice(pool)]
        k = rng.random()
        i = rng.randrange(len(toks))
        if k < 0.15:
            del toks[i]
        elif k < 0.25:
            toks.insert(i, toks[i])
        elif k < 0.33 and len(toks) > 1:
            j = rng.randrange(len(toks))
            toks[i], toks[j] = toks[j], toks[i]
        elif k < 0.55:
            toks[i] = rng.choice(pool)
        elif k < 0.75:
            toks.insert(i, rng.choice(pool))
        elif k < 0.82:
            # replace a numeric token by an edge number
            idx = [q for q, t in enumerate(toks) if t[:1].isdigit()]
            if idx:
                toks[rng.choice(idx)] = rng.choice(EDGE_NUMS)
            else:
                toks.insert(i, rng.choice(EDGE_NUMS))
        elif k < 0.88:
            j = min(len(toks), i + rng.randrange(1, 6))
            o, c = rng.choice([("(", ")"), ("[", "]"), ("{", "}"), ("`${", "}`"), ("(function(){", "})()"), ("(()=>", ")()"),
                               ("async function*f(){", "}"), ("try{", "}catch{}"), ("class C{static{", "}}"), ("eval('", "')")])
            toks[i:j] = [o] + toks[i:j] + [c]
        elif k < 0.94 and other:
            ot = tokenize_js(other)
            if ot:
                a = rng.randrange(len(ot))
                b = min(len(ot), a + rng.randrange(1, 12))
                toks[i:i] = ot[a:b]
        elif k < 0.97:
            j = min(len(toks), i + rng.randrange(1, 8))
            del toks[i:j]
        else:
            # truncate
            toks = toks[:i]
    return "".join(toks)


# ------------------------------------------------------------------------------------------------------
# raw bytes

FRAGS = [b"\xef\xbb\xbf", b"\xe2\x80\xa8", b"\xe2\x80\xa9", b"\xc2\xa0", b"\xff", b"\xc0\x80", b"\xed\xa0\x80", b"\xf4\x90\x80\x80", b"\xe2\x82",
         b"\\u", b"\\u{", b"\\u{110000}", b"\\u00", b"\\x", b"\\0", b"\\8", b"\\\n", b"\\\r\n", b"#!", b"<!--", b"-->", b"/*", b"*/", b"//", b"/",
         b"`", b"${", b"}", b"'", b'"', b"0x", b"0b2", b"0o8", b"08", b"09.5", b"1_", b"1__0", b"1e", b"1e+", b".e1", b"1.e1", b"1n", b"1.5n", b"0n", b"00n",
         b"\x00", b"\r", b"\n", b"\t", b"\x0b", b"\x0c", b" ", b"@", b"#", b"#a", b"a\\u0062", b"\\u{61}", b"\xf0\x9d\x92\x9c", b"\xe1\xa0\x8e",
         b"/[", b"/(", b"/a/gg", b"/a/\\u0067", b"?.", b"??=", b"**=", b">>>=", b"...", b"=>", b"async", b"await", b"yield", b"let", b"static",
         b"import(", b"import.meta", b"new.target", b"super", b"class", b"function*", b"get ", b"set ", b"of", b"in", b"(", b")", b"[", b"]", b"{", b";"]


def raw_bytes(rng):
    k = rng.random()
    n = rng.choice([1, 2, 3, 4, 6, 8, 12, 16, 24, 32, 48, 64, 96])
    if k < 0.2:
        return bytes(rng.getrandbits(8) for _ in range(n))
    if k < 0.4:
        alpha = b"(){}[];,.=+-*/%<>!&|^~?:'\"`\\#@$_ \n\t0123456789abcdefxnXeE"
        return bytes(rng.choice(alpha) for _ in range(n))
    if k < 0.85:
        out = b""
        for _ in range(rng.randrange(1, 12)):
            out += rng.choice(FRAGS)
            if rng.random() < 0.3:
                out += bytes([rng.choice(b"abcxyz019 (){};=")])
        return out
    # valid-looking prefix + garbage tail
    pre = rng.choice([b"var a=", b"function f(", b"x=`", b"class A{", b"a?.", b"/", b"'", b"for(", b"({", b"async()=>", b"1", b"label:", b"0x"])
    return pre + bytes(rng.getrandbits(8) for _ in range(rng.randrange(0, 12)))


# ------------------------------------------------------------------------------------------------------
# nesting bound

OPEN = set("([{")
CLOSE = set(")]}")


def nesting(text):
    """max bracket depth + longest run of prefix/unary-ish operator characters + count of `${` / `=>` / `?` chains:
    a cheap over-approximation of the parser's recursion depth."""
    depth = mx = 0
    run = mxrun = 0
    for ch in text:
        if ch in OPEN:
            depth += 1
            mx = max(mx, depth)
        elif ch in CLOSE:
            depth = max(0, depth - 1)
        if ch in "!~-+ \t":
            if ch not in " \t":
                run += 1
                mxrun = max(mxrun, run)
        else:
            run = 0
    chain = max(text.count("=>"), text.count("?"), text.count("${"), text.count("**"), text.count("new "), text.count("typeof "),
                text.count("void "), text.count("await "), text.count("yield "), text.count("delete "))
    return mx + mxrun + chain


# ------------------------------------------------------------------------------------------------------
# grammar generator (text)

class G:
    def __init__(self, rng, max_depth, size):
        self.r, self.maxd, self.budget = rng, max_depth, size
        self.vars = ["a", "b", "c", "o", "f", "g"]
        self.labels = []
        self.in_fn = 0
        self.in_gen = 0
        self.in_async = 0
        self.in_loop = 0

    def pick(self, xs):
        return self.r.choice(xs)

    def wpick(self, pairs):
        tot = sum(w for w, _ in pairs)
        x = self.r.random() * tot
        for w, v in pairs:
            x -= w
            if x <= 0:
                return v
        return pairs[-1][1]

    def var(self):
        return self.pick(self.vars)

    def num(self):
        k = self.r.random()
        if k < 0.35:
            return str(self.r.randrange(0, 10))
        if k < 0.7:
            return self.pick(EDGE_NUMS[:20])
        if k < 0.8:
            return "(%d|0)" % self.pick([-2147483648, 2147483647, -1, 0, 1, -2147483647, 65536])
        if k < 0.9:
            return self.pick(["1n", "0n", "-1n", "(2n**64n)", "(2n**31n)", "BigInt(2**53)", "123456789012345678901234567890n"])
        return "1" + "0" * self.r.randrange(1, 330)     # huge literal

    def string(self):
        k = self.r.random()
        if k < 0.4:
            return self.pick(['""', '"a"', '"abc"', '"0"', '"-1"', '" 12 "', '"1e3"', '"0x10"', '"length"', '"__proto__"', '"constructor"', '"\\u{1F600}"',
                              '"\\ud800"', '"\\udfff\\ud800"', '"\\0"', '"\\n"', '"é"', '"ß"', '"İ"', '"ǆ"'])
        if k < 0.5:
            return '"%s"' % ("x" * self.r.choice([100, 1000, 70000]))
        if k < 0.6:
            return '"a".repeat(%s)' % self.pick(["0", "1", "100", "65536", "1e6", "-1", "2**28", "2**30", "Infinity"])
        if k < 0.8:
            return "`%s${%s}%s`" % (self.pick(["", "a", "\\n"]), self.expr(self.maxd), self.pick(["", "b"]))
        return "String(%s)" % self.expr(self.maxd)

    def regex(self):
        return self.pick(["/a/", "/a*?b+/g", "/(a)|(b)/y", "/(?<n>a)\\k<n>/u", "/[^\\d\\s]/i", "/(?=a)(?!b)(?<=c)(?<!d)/", "/a{2,3}/", "/\\p{Script=Greek}/u",
                          "/[\\p{L}--[a-z]]/v", "/(a*)*b/", "/(?:a|a)*c/", "/\\u{1F600}/u", "/./sd", "/^$/m", "/\\1(a)/", "/[a-\\d]/", "/(?i:a)b/", "/a{0,4294967295}/"])

    def expr(self, d):
        self.budget -= 1
        if d >= self.maxd or self.budget <= 0:
            return self.wpick([(3, self.var), (3, self.num), (1, lambda: "this"), (1, lambda: "null"), (1, lambda: "undefined"),
                               (1, lambda: self.pick(['""', '"a"', "[]", "{}".join(["(", ")"]), "true", "false", "NaN"]))])()
        e = lambda: self.expr(d + 1)
        bin_ops = ["+", "-", "*", "/", "%", "**", "&", "|", "^", "<<", ">>", ">>>", "<", "<=", ">", ">=", "==", "!=", "===", "!==", "&&", "||", "??", "in", "instanceof", ","]
        opts = [
            (6, lambda: "(%s %s %s)" % (e(), self.pick(bin_ops), e())),
            (3, lambda: "%s(%s)" % (self.pick(["-", "+", "!", "~", "typeof ", "void ", "-", "- -", "!!"]), e())),
            (2, lambda: "(%s ? %s : %s)" % (e(), e(), e())),
            (3, lambda: "(%s %s %s)" % (self.var(), self.pick(["=", "+=", "-=", "*=", "/=", "%=", "**=", "<<=", ">>=", ">>>=", "&=", "|=", "^=", "&&=", "||=", "??="]), e())),
            (2, lambda: "%s%s" % (self.var(), self.pick(["++", "--"]))),
            (1, lambda: "%s%s" % (self.pick(["++", "--"]), self.var())),
            (3, lambda: "[%s]" % ", ".join(self.pick([e, e, lambda: "", lambda: "..." + e()])() for _ in range(self.r.randrange(0, 5)))),
            (3, lambda: "({%s})" % ", ".join(self.prop(d) for _ in range(self.r.randrange(0, 4)))),
            (3, lambda: "%s%s%s" % (e(), self.pick([".", "?."]), self.pick(["length", "x", "y", "constructor", "prototype", "__proto__", "name", "toString", "valueOf", "a", "then", "next", "size", "buffer", "byteLength"]))),
            (3, lambda: "%s[%s]" % (e(), e())),
            (4, lambda: "%s(%s)" % (e(), ", ".join(self.pick([e, lambda: "..." + e()])() for _ in range(self.r.randrange(0, 4))))),
            (2, lambda: "new %s(%s)" % (self.ctor(), ", ".join(e() for _ in range(self.r.randrange(0, 3))))),
            (2, lambda: self.func_expr(d)),
            (2, lambda: self.builtin_call(d)),
            (2, self.string),
            (2, self.num),
            (1, self.regex),
            (1, lambda: "(%s)" % self.class_expr(d)),
            (1, lambda: "%s`a${%s}b`" % (self.pick(["String.raw", "f", "(x=>x)", "((s,...v)=>s.raw)"]), e())),
            (1, lambda: "delete %s[%s]" % (e(), e())),
            (1, lambda: "eval(%s)" % self.pick(['"1+1"', '"var z=1"', '"("', "`${%s}`" % e(), self.string()])),
            (1, lambda: "([%s] = %s)" % (", ".join(self.pick([self.var(), "", "..." + self.var(), self.var() + "=" + e(), "[%s]" % self.var(), "{x:%s}" % self.var()]) for _ in range(self.r.randrange(1, 4))), e())),
            (1, lambda: "({%s} = %s)" % (", ".join(self.pick([self.var(), "x:" + self.var(), "[%s]:%s" % (e(), self.var()), "..." + self.var(), self.var() + "=" + e()]) for _ in range(self.r.randrange(1, 3))), e())),
        ]
        if self.in_gen:
            opts.append((2, lambda: "(yield %s)" % e()))
            opts.append((1, lambda: "(yield* %s)" % e()))
        if self.in_async:
            opts.append((2, lambda: "(await %s)" % e()))
        if self.in_fn:
            opts.append((1, lambda: self.pick(["arguments", "arguments[0]", "arguments.length", "new.target", "arguments.callee"])))
        return self.wpick(opts)()

    def prop(self, d):
        e = lambda: self.expr(d + 1)
        return self.wpick([
            (4, lambda: "%s: %s" % (self.pick(["x", "y", "a", "0", "1", '"__proto__"', "__proto__", "length", "valueOf", "toString", "then", "next", "[Symbol.iterator]", "[Symbol.toPrimitive]", "[%s]" % e()]), e())),
            (1, lambda: self.var()),
            (1, lambda: "..." + e()),
            (1, lambda: "get %s(){ %s }" % (self.pick(["x", "y", "length", "[%s]" % e()]), self.body(d, 2))),
            (1, lambda: "set %s(v){ %s }" % (self.pick(["x", "y", "length"]), self.body(d, 2))),
            (1, lambda: "%s%s(%s){ %s }" % (self.pick(["", "async ", "*", "async *"]), self.pick(["m", "valueOf", "toString", "next", "[Symbol.iterator]", "then"]), self.params(d), self.body(d, 2))),
        ])()

    def ctor(self):
        return self.pick(["Object", "Array", "Function", "Error", "TypeError", "Map", "Set", "WeakMap", "WeakSet", "WeakRef", "Promise", "Proxy", "ArrayBuffer",
                          "SharedArrayBuffer", "DataView", "Uint8Array", "Int8Array", "Uint8ClampedArray", "Int16Array", "Uint32Array", "Float32Array", "Float64Array",
                          "BigInt64Array", "BigUint64Array", "RegExp", "Date", "String", "Number", "Boolean", "AggregateError", "FinalizationRegistry", "f", "g", "C",
                          "(class{})", "(function(){})", "Float16Array", "Symbol", "BigInt"])

    def builtin_call(self, d):
        e = lambda: self.expr(d + 1)
        return self.wpick([
            (2, lambda: "Object.%s(%s, %s, %s)" % (self.pick(["defineProperty", "assign", "create", "setPrototypeOf", "defineProperties", "groupBy"]), e(), e(), self.pick(["{value:1}", "{get(){return 1}}", "{get:1}", "{writable:false}", e()]))),
            (2, lambda: "Object.%s(%s)" % (self.pick(["keys", "values", "entries", "freeze", "seal", "preventExtensions", "getOwnPropertyNames", "getOwnPropertyDescriptors", "getPrototypeOf", "fromEntries", "isFrozen"]), e())),
            (2, lambda: "Reflect.%s(%s, %s, %s)" % (self.pick(["get", "set", "has", "defineProperty", "deleteProperty", "apply", "construct", "ownKeys", "getOwnPropertyDescriptor", "setPrototypeOf"]), e(), e(), e())),
            (2, lambda: "new Proxy(%s, {%s})" % (e(), ", ".join("%s(...a){ %s }" % (t, self.pick(["return Reflect.%s(...a)" % t, "return " + e(), "throw 1", ""])) for t in self.r.sample(
                ["get", "set", "has", "deleteProperty", "ownKeys", "getOwnPropertyDescriptor", "defineProperty", "getPrototypeOf", "setPrototypeOf", "isExtensible", "preventExtensions", "apply", "construct"], self.r.randrange(0, 4))))),
            (3, lambda: "[%s].%s(%s)" % (", ".join(e() for _ in range(self.r.randrange(0, 4))), self.pick(["map", "filter", "forEach", "reduce", "reduceRight", "sort", "flat", "flatMap", "fill", "splice", "slice", "concat", "join", "indexOf", "includes", "find", "findLast", "copyWithin", "at", "with", "toSorted", "toSpliced", "push", "unshift", "reverse", "lastIndexOf", "every", "some", "entries", "keys"]), ", ".join(e() for _ in range(self.r.randrange(0, 3))))),
            (3, lambda: "%s.%s(%s)" % (self.string(), self.pick(["charAt", "charCodeAt", "codePointAt", "at", "indexOf", "lastIndexOf", "slice", "substring", "substr", "split", "replace", "replaceAll", "match", "matchAll", "search", "padStart", "padEnd", "repeat", "normalize", "localeCompare", "toUpperCase", "toLowerCase", "trim", "startsWith", "endsWith", "includes", "concat", "isWellFormed", "toWellFormed", "anchor"]), ", ".join(self.pick([e, self.regex, self.string])() for _ in range(self.r.randrange(0, 3))))),
            (2, lambda: "JSON.%s(%s%s)" % (self.pick(["stringify", "parse"]), self.pick([e(), self.string(), "'[1,{\"a\":[]}]'", "'{\"__proto__\":1}'"]), self.pick(["", ", " + e(), ", null, " + e(), ", (k,v)=>v"]))),
            (2, lambda: "Math.%s(%s)" % (self.pick(["max", "min", "pow", "atan2", "hypot", "imul", "clz32", "fround", "trunc", "sign", "round", "floor", "abs", "sqrt", "cbrt", "expm1", "f16round", "sumPrecise"]), ", ".join(e() for _ in range(self.r.randrange(0, 3))))),
            (2, lambda: "(%s).%s(%s)" % (self.num(), self.pick(["toString", "toFixed", "toPrecision", "toExponential", "toLocaleString", "valueOf"]), self.pick(["", "2", "36", "0", "100", "101", "-1", "1.5", "NaN", e()]))),
            (2, lambda: "new %s(%s)%s" % (self.pick(["Uint8Array", "Int32Array", "Float64Array", "BigInt64Array", "DataView", "Float16Array"]), self.pick(["8", "0", "new ArrayBuffer(8)", "new ArrayBuffer(8,{maxByteLength:16})", "new ArrayBuffer(8), 1", "new ArrayBuffer(8), 8", "[1,2,3]", "-1", "2**32", "2**53", e()]),
                                         self.pick(["", ".subarray(%s)" % e(), ".set([1],%s)" % e(), ".fill(%s)" % e(), ".slice(%s)" % e(), ".buffer.resize(%s)" % e(), ".buffer.transfer(%s)" % e(), "[%s]" % e(), ".at(%s)" % e(), ".sort()", ".getInt32?.(%s)" % e(), ".setFloat64?.(%s,%s)" % (e(), e()), ".toSorted()", ".with(0,%s)" % e()]))),
            (1, lambda: "Promise.%s(%s)" % (self.pick(["resolve", "reject", "all", "allSettled", "race", "any", "try", "withResolvers"]), e())),
            (1, lambda: "%s.then(%s, %s)" % (self.pick(["Promise.resolve(1)", "Promise.reject(1)", "(async()=>{})()"]), self.func_expr(d), self.func_expr(d))),
            (1, lambda: "Symbol.%s" % self.pick(["iterator", "asyncIterator", "toPrimitive", "hasInstance", "species", "toStringTag", "unscopables", "for('a')", "keyFor(Symbol())"])),
            (1, lambda: "Function(%s)" % self.pick(['"return 1"', '"a", "return a"', '"a,b", "return a+b"', '"(", "1"', '"/*", "*/){"', self.string()])),
            (1, lambda: "new %s([[1,2],[3,4]]).%s(%s)" % (self.pick(["Map", "Set", "WeakMap"]), self.pick(["get", "set", "has", "delete", "forEach", "entries", "union", "intersection", "isSubsetOf", "keys", "clear"]), e())),
            (1, lambda: "Array.%s(%s)" % (self.pick(["from", "of", "isArray", "fromAsync"]), self.pick([e(), "{length:%s}" % self.pick(["3", "-1", "2**32", "2**53", "'2'", "1e4"]), e() + ", x=>x"]))),
            (1, lambda: "new Array(%s)" % self.pick(["0", "5", "-1", "4294967295", "4294967296", "1.5", "'3'", "1e5", e()])),
            (1, lambda: "%s.length = %s" % (self.var(), self.pick(["0", "4294967295", "-1", "2**32", "1e5", e()]))),
            (1, lambda: "Atomics.%s(new Int32Array(new SharedArrayBuffer(8)), %s, %s)" % (self.pick(["add", "load", "store", "compareExchange", "notify", "wait"]), e(), e())),
            (1, lambda: "new Date(%s).%s()" % (self.pick(["0", "NaN", "8.64e15", "8.64e15+1", "-1", "'x'", "2020,1,1", e()]), self.pick(["toISOString", "getTime", "toString", "toJSON", "getTimezoneOffset", "valueOf"]))),
            (1, lambda: "structuredClone?.(%s)" % e()),
            (1, lambda: "new WeakRef(%s).deref()" % e()),
            (1, lambda: "(%s).toString()" % self.func_expr(d)),
            (1, lambda: "Iterator.from?.(%s).%s(%s)" % (e(), self.pick(["map", "filter", "take", "drop", "flatMap", "reduce", "toArray", "some"]), self.pick(["x=>x", "1", "-1", "Infinity", e()]))),
        ])()

    def params(self, d):
        n = self.r.randrange(0, 4)
        ps = []
        for i in range(n):
            v = self.pick(["p", "q", "r", "a", "b"])
            ps.append(self.pick([v, v, "%s = %s" % (v, self.expr(d + 1)), "[%s]" % v, "{%s}" % v, "{x: %s = %s}" % (v, self.expr(d + 1))]))
        if self.r.random() < 0.15:
            ps.append("...rest")
        return ", ".join(ps)

    def func_expr(self, d):
        kind = self.wpick([(4, "function"), (3, "arrow"), (1, "function*"), (1, "async function"), (1, "async arrow"), (1, "async function*")])
        sg, sa, sf = self.in_gen, self.in_async, self.in_fn
        self.in_gen = "*" in kind
        self.in_async = "async" in kind
        self.in_fn = 1 if "arrow" not in kind else self.in_fn
        sl, self.in_loop = self.in_loop, 0
        try:
            if "arrow" in kind:
                pre = "async " if "async" in kind else ""
                if self.r.random() < 0.5:
                    return "(%s(%s) => %s)" % (pre, self.params(d), self.expr(d + 1))
                return "(%s(%s) => { %s })" % (pre, self.params(d), self.body(d, 3))
            return "(%s %s(%s) { %s%s })" % (kind, self.pick(["", "f", "g", "h"]), self.params(d), self.pick(["", "", '"use strict"; ']), self.body(d, 3))
        finally:
            self.in_gen, self.in_async, self.in_fn, self.in_loop = sg, sa, sf, sl

    def class_expr(self, d):
        mem = []
        for _ in range(self.r.randrange(0, 5)):
            sf, self.in_fn = self.in_fn, 1
            mem.append(self.wpick([
                (3, lambda: "%s%s(%s){ %s }" % (self.pick(["", "static ", "async ", "*", "static async *"]), self.pick(["m", "#p", "constructor", "valueOf", "[Symbol.iterator]", "then", "[%s]" % self.expr(d + 1)]), self.params(d), self.body(d, 2))),
                (2, lambda: "%s%s = %s;" % (self.pick(["", "static "]), self.pick(["x", "#y", "#p", "[%s]" % self.expr(d + 1), "'constructor'"]), self.expr(d + 1))),
                (1, lambda: "%sget %s(){ %s }" % (self.pick(["", "static "]), self.pick(["x", "#z"]), self.body(d, 2))),
                (1, lambda: "static { %s }" % self.body(d, 2)),
                (1, lambda: "constructor(%s){ %s %s }" % (self.params(d), self.pick(["super();", "", "super(...arguments);", "return {};", "this.x = 1; super();"]), self.body(d, 2))),
            ])())
            self.in_fn = sf
        ext = self.pick(["", "", " extends " + self.pick(["Object", "Array", "null", "Function", "Promise", "Error", "Uint8Array", "C", "f", "(class{})", "Proxy", "RegExp", "Map", self.expr(d + 1)])])
        return "class %s%s { %s }" % (self.pick(["", "C", "D"]), ext, " ".join(mem))

    def body(self, d, n):
        return " ".join(self.stmt(d + 1) for _ in range(self.r.randrange(0, n + 1)))

    def stmt(self, d):
        self.budget -= 1
        e = lambda: self.expr(d + 1)
        if d >= self.maxd or self.budget <= 0:
            return e() + ";"
        s = lambda: self.stmt(d + 1)
        blk = lambda: "{ %s }" % self.body(d, 3)

        def loop(f):
            self.in_loop += 1
            try:
                return f()
            finally:
                self.in_loop -= 1
        opts = [
            (8, lambda: e() + ";"),
            (4, lambda: "%s %s = %s;" % (self.pick(["var", "let", "const", "var"]), self.pick(self.vars + ["z", "w"]), e())),
            (1, lambda: "%s %s = %s;" % (self.pick(["var", "let", "const"]), self.pick(["[a, b]", "{x, y}", "[a, ...b]", "{x: [a], ...b}", "[a = 1, [b]]"]), e())),
            (3, lambda: "if (%s) %s%s" % (e(), blk(), self.pick(["", " else " + blk()]))),
            (2, lambda: loop(lambda: "for (var i = 0; i < %s; i++) %s" % (self.pick(["2", "3", "10", "1e3", "1e9", e()]), blk()))),
            (1, lambda: loop(lambda: "for (%s %s %s %s) %s" % (self.pick(["var", "let", "const"]), self.pick(["k", "[k]", "{k}", "k = 1"]), self.pick(["in", "of"]), e(), blk()))),
            (1, lambda: loop(lambda: "while (%s) %s" % (e(), blk()))),
            (1, lambda: loop(lambda: "do %s while (%s);" % (blk(), e()))),
            (2, lambda: "try %s %s" % (blk(), self.pick(["catch (e) " + blk(), "catch " + blk(), "finally " + blk(), "catch ({message}) %s finally %s" % (blk(), blk())]))),
            (2, lambda: "throw %s;" % e()),
            (2, lambda: "function %s(%s) { %s }" % (self.pick(["f", "g", "h"]), self.params(d), self.fbody(d))),
            (1, lambda: "%s;" % self.class_expr(d).replace("class ", "class C", 1) if self.r.random() < 0.5 else self.class_expr(d) + ";"),
            (1, lambda: "switch (%s) { %s }" % (e(), " ".join(self.pick(["case %s: %s" % (e(), s()), "default: %s" % s(), "case %s:" % e()]) for _ in range(self.r.randrange(0, 4))))),
            (1, lambda: "L%d: %s" % (d, s())),
            (1, lambda: "with (%s) %s" % (e(), blk())),
            (1, blk),
            (1, lambda: ";"),
            (1, lambda: "f = function(){ return f() };"),
            (1, lambda: "function r%d(n){ return n > 0 ? r%d(n - 1) + 1 : 0 } r%d(%s);" % (d, d, d, self.pick(["10", "100", "1e3", "1e5"]))),
            (1, lambda: "var d%d = %s; for (var i = 0; i < %s; i++) d%d = %s; %s;" % (d, self.pick(["[]", "{}", "()=>0", '""']), self.pick(["10", "100", "3000", "1e5"]), d,
                                                                                  self.pick(["[d%d]" % d, "{a: d%d}" % d, "d%d.bind(null)" % d, "new Proxy(d%d, {})" % d, "(x=>x).bind(d%d)" % d, "d%d + 'ab'" % d, "Object.create(d%d)" % d]),
                                                                                  self.pick(["JSON.stringify(d%d)" % d, "d%d.toString()" % d, "String(d%d)" % d, "d%d()" % d, "d%d.x" % d, "d%d == d%d" % (d, d), "structuredClone?.(d%d)" % d, "[d%d].flat(Infinity)" % d, "d%d.length" % d, "Object.keys(d%d)" % d, "d%d instanceof Object" % d]))),
        ]
        if self.in_fn:
            opts.append((3, lambda: "return %s;" % e()))
        if self.in_loop:
            opts.append((1, lambda: self.pick(["break;", "continue;"])))
        if self.in_async:
            opts.append((1, lambda: "for await (const v of %s) %s" % (e(), blk())))
        return self.wpick(opts)()

    def fbody(self, d):
        sf, sl, sg, sa = self.in_fn, self.in_loop, self.in_gen, self.in_async
        self.in_fn, self.in_loop, self.in_gen, self.in_async = 1, 0, 0, 0
        try:
            return self.body(d, 3)
        finally:
            self.in_fn, self.in_loop, self.in_gen, self.in_async = sf, sl, sg, sa


def gen_program(rng, max_depth=None, size=None):
    md = max_depth if max_depth is not None else rng.choice([3, 4, 5, 6, 8, 12, 20])
    g = G(rng, md, size if size is not None else rng.choice([20, 40, 80, 160]))
    pre = rng.choice(["", "", '"use strict"; ', "var a = 1, b = '2', c = [3], o = {x: 1}, f = function(){ return 1 }, g = (x) => x; "])
    n = rng.randrange(1, 6)
    return pre + " ".join(g.stmt(0) for _ in range(n))


def deep_nest(rng):
    """Programs whose point is nesting (kept <= 64 by the caller's filter) or long flat chains."""
    n = rng.choice([8, 16, 32, 48, 60])
    k = rng.randrange(18)
    forms = [
        lambda: "(" * n + "1" + ")" * n,
        lambda: "[" * n + "]" * n,
        lambda: "x=" + "{a:" * n + "1" + "}" * n,
        lambda: "!" * n + "1",
        lambda: "a" + "?.b" * n,
        lambda: "a=" * n + "1",
        lambda: "1" + "+1" * (n * 20),
        lambda: "1" + "**1" * n,
        lambda: "`" + "${`" * n + "`}" * n + "`",
        lambda: "(" + "function(){" * n + "}" * n + ")",
        lambda: "x=>" * n + "1",
        lambda: "if(1)" * n + ";",
        lambda: "{" * n + "}" * n,
        lambda: "new " * n + "f" + "()" * (n // 2),
        lambda: "a" + "[0]" * (n * 10),
        lambda: "class A" + " extends (class " * n + "{}" + ")" * n + "{}",
        lambda: "/" + "(" * n + "a" + ")" * n + "/",
        lambda: "var " + ",".join("v%d=%d" % (i, i) for i in range(n * 30)) + ";" + "+".join("v%d" % i for i in range(n * 30)),
    ]
    return forms[k]()


# ------------------------------------------------------------------------------------------------------
# directed templates: inline-cache histories, limits hit inside builtins, module forms

PROPS = ["a", "b", "c", "x", "y", "z", "length", "0", "1"]


def gen_ic_program(rng):
    """A small operation history over a prototype chain with property reads/writes through fixed code sites
    (so that the inline caches are warm) interleaved with layout changes of receiver and prototypes."""
    n_obj = rng.randrange(1, 4)
    lines = ["function P(){ this.q = 1; }", "function Q(){}", "Q.prototype = Object.create(P.prototype);",
             "function rd(o, k){ return o.a + '' + o.b + o.c; }", "function rx(o){ return o.x; }", "function ry(o){ return o.y; }",
             "function wr(o, v){ o.a = v; o.x = v; return o; }", "function rl(o){ return o.length; }",
             "var G = globalThis, A = [1, 2, 3];"]
    for i in range(n_obj):
        lines.append("var o%d = %s;" % (i, rng.choice(["new P()", "new Q()", "Object.create(P.prototype)", "Object.create(new Q())", "{__proto__: P.prototype}", "[]", "function(){}", "new (class extends P {})()"])))
    objs = ["o%d" % i for i in range(n_obj)] + ["P.prototype", "Q.prototype", "Object.prototype", "G", "A"]
    for _ in range(rng.randrange(6, 28)):
        o = rng.choice(objs)
        t = rng.choice(["o%d" % rng.randrange(n_obj), "o0", "A", "G"])
        k = rng.choice(PROPS)
        op = rng.randrange(16)
        if op < 5:
            lines.append("for (var i = 0; i < %d; i++) { %s(%s); }" % (rng.choice([1, 2, 5, 9]), rng.choice(["rd", "rx", "ry", "rl"]), t))
        elif op == 5:
            lines.append("for (var i = 0; i < 3; i++) wr(%s, i);" % t)
        elif op == 6:
            lines.append("%s.%s = %s;" % (o, k if not k.isdigit() else "a", rng.choice(["1", "'s'", "{}", "undefined"])))
        elif op == 7:
            lines.append("delete %s[%r];" % (o, k))
        elif op == 8:
            lines.append("Object.defineProperty(%s, %r, {%s, configurable: true});" % (o, k, rng.choice(["get(){ return 7; }", "value: 8, writable: false", "set(v){}", "get(){ delete P.prototype.a; return 1; }", "value: 9, enumerable: false", "get(){ P.prototype.b = 1; return 2; }"])))
        elif op == 9:
            lines.append("try { Object.setPrototypeOf(%s, %s); } catch (e) {}" % (t, rng.choice(["P.prototype", "Q.prototype", "null", "{}", "new Proxy({}, {})", "A", "Object.create(null)"])))
        elif op == 10:
            lines.append("try { Object.%s(%s); } catch (e) {}" % (rng.choice(["freeze", "seal", "preventExtensions"]), o))
        elif op == 11:
            lines.append("for (var i = 0; i < %d; i++) { %s['p' + i] = i; }" % (rng.choice([3, 40, 1100]), o))
        elif op == 12:
            lines.append("for (var k in %s) { delete %s[k]; }" % (o, o))
        elif op == 13:
            lines.append("%s.length = %s;" % (rng.choice(["A", t]), rng.choice(["0", "10", "1", "4294967295"])))
        elif op == 14:
            lines.append("P.prototype = %s; %s = new P();" % (rng.choice(["{a: 1}", "Q.prototype", "A", "{}"]), "o%d" % rng.randrange(n_obj)))
        else:
            lines.append("try { with (%s) { a; x = 1; } } catch (e) {}" % t)
    lines.append("rd(o0) + rx(o0) + ry(o0);")
    return "\n".join(lines)


CALLBACKS = [
    "[1, 2, 3].map(F)", "[3, 1, 2].sort(F)", "[1, 2].reduce(F, 0)", "Array.from({length: 2}, F)", "[1].forEach(F)", "[1, 2].find(F)", "[[1]].flatMap(F)",
    "'aXb'.replace(/X/, F)", "'a-b'.replace('-', F)", "'aXb'.replaceAll('X', F)", "JSON.stringify({toJSON: F})", "JSON.parse('[1,{\"a\":2}]', F)", "JSON.stringify([1], F)",
    "new Promise(F)", "Promise.resolve(1).then(F)", "Reflect.apply(F, null, [])", "Reflect.construct(function(){ F(); }, [])", "F.call(null)", "F.apply(null, [1])", "F.bind(null)()",
    "`${{toString: F}}`", "+{valueOf: F}", "({[Symbol.toPrimitive]: F}) + 1", "[...{[Symbol.iterator]: F}]", "for (var q of {[Symbol.iterator]: F}) {}", "var [d1] = {[Symbol.iterator]: F};",
    "new Proxy({}, {get: F}).x", "new Proxy({}, {has: F}) && ('x' in new Proxy({}, {has: F}))", "Object.keys(new Proxy({}, {ownKeys: F}))", "new (new Proxy(function(){}, {construct: F}))()",
    "({get x(){ return F(); }}).x", "({set x(v){ F(); }}).x = 1", "class K { static s = F(); }", "class K2 { f = F(); } new K2()", "class K3 extends (F(), Object) {}", "class K4 { static { F(); } }",
    "new Map([[1, 2]]).forEach(F)", "new Set([1]).forEach(F)", "Object.defineProperty({}, 'x', {get: F}).x", "Object.assign({}, {get a(){ return F(); }})", "Object.fromEntries({[Symbol.iterator]: F})",
    "(function*(){ yield* {[Symbol.iterator]: F}; })().next()", "(async function(){ await {then: F}; })()", "(async function*(){ yield F(); })().next()", "String.raw({raw: {length: 1, get 0(){ return F(); }}})",
    "new Uint8Array({length: 1, get 0(){ return F(); }})", "Uint8Array.from([1], F)", "new Uint8Array(2).map(F)", "new Uint8Array([2, 1]).sort(F)", "Array.prototype.concat.call({get length(){ return F(); }, [Symbol.isConcatSpreadable]: true})",
    "eval('F()')", "new Function('return F()')()", "F`x`", "new F", "F?.()", "x = {a: F()}", "[F()]", "typeof F()", "F() instanceof {[Symbol.hasInstance]: F}", "1 instanceof {[Symbol.hasInstance]: F}",
    "new RegExp({toString: F})", "/a/[Symbol.replace]('a', F)", "'a'.split({[Symbol.split]: F})", "'a'.match({[Symbol.match]: F})", "new Date({valueOf: F})", "new Date(0).toJSON.call({toISOString: F, valueOf(){ return 1; }})",
    "structuredClone?.({get a(){ return F(); }})", "new WeakRef({}) && F()", "new FinalizationRegistry(F)", "Array.fromAsync?.({length: 1, 0: {then: F}})", "Iterator.from?.({next: F})?.toArray?.()", "Error.captureStackTrace?.({}, F)",
    "super_call", "gen_resume", "arguments_cb",
]


def gen_limit_program(rng, limit):
    """Recursion that reaches the (lowered) recursion limit while a builtin is calling back into JS, at a
    depth drawn around the limit, with a nested callback expression at the bottom."""
    def cb(depth):
        c = rng.choice(CALLBACKS)
        if c == "super_call":
            c = "new (class extends (class { constructor(){ F(); } }) { constructor(){ super(); } })()"
        elif c == "gen_resume":
            c = "var gi = (function*(){ yield F(); yield* [1]; })(); gi.next(); gi.return(1)"
        elif c == "arguments_cb":
            c = "(function(){ return Array.prototype.map.call(arguments, F); })(1, 2)"
        inner = ("function(){ return 0; }" if depth <= 0 or rng.random() < 0.3 else "function(){ %s; return 0; }" % cb(depth - 1))
        return c.replace("F", "(%s)" % inner) if rng.random() < 0.5 else c.replace("F", "r" if rng.random() < 0.3 else "(%s)" % inner)
    k = max(0, limit + rng.choice([-6, -4, -3, -2, -1, 0, 0, 1, 2]))
    body = cb(rng.randrange(0, 3))
    wrap = rng.choice(["%s", "try { %s } catch (e) { e2 = e; }", "try { %s } finally { z = 1; }", "(() => { %s })()", "with ({}) { %s }"])
    return ("var e2, z, x; function r(n){ if (!(n > 0)) { %s; return 0; } return r(n - 1) + 1; }\n%s" %
            (wrap % body, rng.choice(["r(%d);" % k, "try { r(%d); } catch (e) {} r(%d);" % (k + 3, k), "[1, 2].map(() => r(%d));" % k,
                                      "Promise.resolve().then(() => r(%d)); r(%d);" % (k, k), "new Promise(() => r(%d));" % k,
                                      "(function*(){ yield r(%d); })().next();" % k, "(async () => { await 0; r(%d); })(); r(%d);" % (k, max(0, k - 1))])))


def gen_stack_program(rng):
    n = rng.choice([50, 200, 380, 395, 400, 405, 1000, 5000, 70000])
    return rng.choice([
        "Math.max(...new Array(%d).fill(1))" % n, "(function(){ return arguments.length; }).apply(null, new Array(%d))" % n,
        "String.fromCharCode(...new Array(%d).fill(65))" % n, "new Array(...new Array(%d))" % n, "[].push(...new Array(%d))" % n,
        "Reflect.construct(Array, new Array(%d))" % n, "function f(){ return f.apply(null, arguments); } f(...new Array(%d))" % min(n, 400),
        "var a = []; a.length = %d; `${a}`" % n, "new Function(...new Array(%d).fill('a').map((x, i) => x + i), 'return 1')()" % min(n, 500),
        "(function f(%s){ return arguments.length; })(1)" % ", ".join("p%d" % i for i in range(min(n, 600))),
        "[%s].length" % ", ".join("1" for _ in range(min(n, 5000))), "Function.prototype.bind.apply(Math.max, new Array(%d))()" % n,
    ])


MODULE_FORMS = [
    "export default 1; export const a = 2; export function f(){}; export class C {}", "import x from 'nope'; x", "import * as ns from './self'; ns.x", "export * from 'nope'",
    "await 1; export let z = await Promise.resolve(2);", "await Promise.reject(new Error('x'))", "throw 1", "import.meta.url", "import.meta = 1", "export { a as default }; var a",
    "export { nope }", "import {a} from 'm'; import {a} from 'n'", "export default function(){}; export default 2", "await import('nope')", "import('nope').then(() => 1, () => 2)",
    "var await = 1", "export var x = this", "arguments", "new.target", "with ({}) {}", "delete x", "for await (const x of [1, Promise.resolve(2)]) {}", "label: await 1",
    "export default await (async () => { throw 1 })()", "import defer * as n from 'x'", "import json from './a.json' with { type: 'json' }", "import source s from 'x'",
    "export default class extends (await 1, Object) {}", "using x = null;", "await using y = null;", "function f(){ await 1 }", "async () => await", "export {}; 08", "html comment <!-- x",
]
