"""C18: replacer function / replacer array / toJSON / reviver programs.

Each program is a closed script whose completion value is a string.  The expected string is computed here, in
Python, by a direct transcription of SerializeJSONProperty (holder, key, toJSON, replacer function, property list)
and InternalizeJSONProperty over small value trees; the final JSON text is produced by the Coq model
(`stringifyraw` of the extracted driver) so that layout and quoting come from the proved definitions.  This part is
differential (the reference is Python, not Gallina); node (V8) is consulted only when the engine and the reference
disagree, and only to withhold the alarm when it sides with the engine.
"""
from c18_texts import u
import c18_values as V

UNDEF = ("X",)


def hx(units):
    return "".join("%04x" % c for c in units)


def is_index(k):
    s = "".join(chr(c) for c in k)
    return (s == "0" or (s.isascii() and s.isdigit() and s[0] != "0")) and len(s) <= 10 and int(s) < 4294967295


def own_order(ms):
    """dedup (first position, last value) then array-index keys ascending first"""
    d = {}
    for k, v in ms:
        d[tuple(k)] = v
    idx = sorted([k for k in d if is_index(k)], key=lambda k: int("".join(chr(c) for c in k)))
    rest = [k for k in d if not is_index(k)]
    return [(list(k), d[k]) for k in idx + rest]


# ---------------------------------------------------------------------------------------------
# small value trees for programs: numbers are small integers or halves, strings ASCII + a few escapes

SKEYS = ["a", "b", "x", "y", "k", "0", "1", "2", "10", "z z", ""]
SSTRS = ["", "s", "x", "hello", "a\"b", "l\nf", "é", " ", "tab\t"]


def gen_ptree(rng, depth, allow_undef=False):
    if depth <= 0 or rng.random() < 0.35:
        r = rng.random()
        if r < 0.15:
            return ("N",)
        if r < 0.25:
            return ("T",)
        if r < 0.32:
            return ("F",)
        if r < 0.4 and allow_undef:
            return ("X",)
        if r < 0.7:
            return ("D", V.bits_of(float(rng.choice([0, 1, 2, 3, 7, 10, 42, -1, -5, 100, 0.5, 1.5, -2.5, 1e21, 123456789]))))
        return ("S", u(rng.choice(SSTRS)))
    if rng.random() < 0.5:
        return ("A", [gen_ptree(rng, depth - 1, allow_undef) for _ in range(rng.choice([0, 1, 2, 3]))])
    ks = rng.sample(SKEYS, rng.choice([0, 1, 2, 3, 4]))
    return ("O", [(u(k), gen_ptree(rng, depth - 1, allow_undef)) for k in ks])


def js_str(units):
    out = ['"']
    for c in units:
        if (0x30 <= c <= 0x39) or (0x41 <= c <= 0x5A) or (0x61 <= c <= 0x7A) or c in (0x20, 0x5F):
            out.append(chr(c))
        else:
            out.append("\\u%04x" % c)
    out.append('"')
    return "".join(out)


def js_num(bits):
    x = V.float_of(bits)
    if x != x:
        return "NaN"
    if x == float("inf"):
        return "Infinity"
    if x == float("-inf"):
        return "(-Infinity)"
    s = V.js_number_string(x)
    return "(%s)" % s if s.startswith("-") else s


def js_lit(t, tojson=None, names=None):
    """JS source of the value; tojson: dict id(tree) -> method source; names: dict id(tree) -> variable holding that instance"""
    if names and id(t) in names:
        return names[id(t)]
    return js_lit_node(t, tojson, names)


def js_lit_node(t, tojson=None, names=None):
    k = t[0]
    if k == "N":
        return "null"
    if k == "T":
        return "true"
    if k == "F":
        return "false"
    if k == "X":
        return "undefined"
    if k == "D":
        return js_num(t[1])
    if k == "S":
        return js_str(t[1])
    if k == "A":
        return "[" + ",".join(js_lit(e, tojson, names) for e in t[1]) + "]"
    parts = ["%s:%s" % (js_str(key), js_lit(e, tojson, names)) for key, e in t[1]]
    if tojson and id(t) in tojson:
        parts.append("toJSON:" + tojson[id(t)][0])
    return "({" + ",".join(parts) + "})" if False else "{" + ",".join(parts) + "}"


def json_text(t):
    """compact JSON text of a JSON tree (no undefined), every string unit outside [0-9A-Za-z _] escaped"""
    k = t[0]
    if k in "NTF":
        return {"N": "null", "T": "true", "F": "false"}[k]
    if k == "D":
        return V.js_number_string(V.float_of(t[1]))
    if k == "S":
        return js_str(t[1])
    if k == "A":
        return "[" + ",".join(json_text(e) for e in t[1]) + "]"
    return "{" + ",".join("%s:%s" % (js_str(key), json_text(e)) for key, e in t[1]) + "}"


def model_tokens(t):
    k = t[0]
    if k in "NTFX":
        return k
    if k == "D":
        x = V.float_of(t[1])
        if x != x or abs(x) == float("inf"):
            return "Z"
        return "M" + hx(u(V.js_number_string(x)))
    if k == "S":
        return "S" + hx(t[1])
    if k == "A":
        return " ".join(["["] + [model_tokens(e) for e in t[1]] + ["]"])
    return " ".join(["{"] + ["K" + hx(key) + " " + model_tokens(e) for key, e in t[1]] + ["}"])


def num(x):
    return ("D", V.bits_of(float(x)))


def is_num(t):
    return t[0] == "D"


def ustr(t):
    return "".join(chr(c) for c in t)


# ---------------------------------------------------------------------------------------------
# replacer functions: (JS source, Python function (key units, value tree, holder tree) -> tree)

def r_inc(k, v, h):
    return num(V.float_of(v[1]) + 1) if is_num(v) else v


def r_dropx(k, v, h):
    return UNDEF if k == u("x") else v


def r_appendkey(k, v, h):
    return ("S", v[1] + k) if v[0] == "S" else v


def r_arrlen(k, v, h):
    return num(len(v[1])) if v[0] == "A" else v


def r_objkeys(k, v, h):
    return ("A", [("S", key) for key, _ in own_order(v[1])]) if v[0] == "O" else v


def r_nullify(k, v, h):
    return ("N",) if v[0] in "TF" else v


def r_wrapnum(k, v, h):
    return ("O", [(u("n"), ("S", u(V.js_number_string(V.float_of(v[1])))))]) if is_num(v) and k != u("n") else v


REPLACERS = [
    ("function(k,v){return typeof v==='number'?v+1:v}", r_inc),
    ("function(k,v){return k==='x'?undefined:v}", r_dropx),
    ("function(k,v){return typeof v==='string'?v+k:v}", r_appendkey),
    ("function(k,v){return Array.isArray(v)?v.length:v}", r_arrlen),
    ("function(k,v){return (v&&typeof v==='object'&&!Array.isArray(v))?Object.keys(v):v}", r_objkeys),
    ("function(k,v){return typeof v==='boolean'?null:v}", r_nullify),
    ("function(k,v){return (typeof v==='number'&&k!=='n')?{n:String(v)}:v}", r_wrapnum),
]

# toJSON methods: (JS method source, python (key, obj tree) -> tree)
TOJSON = [
    ("function(k){return 7}", lambda k, o: num(7)),
    ("function(k){return k}", lambda k, o: ("S", k)),
    ("function(k){return undefined}", lambda k, o: UNDEF),
    ("function(k){return [k,1]}", lambda k, o: ("A", [("S", k), num(1)])),
    ("function(k){return {t:k}}", lambda k, o: ("O", [(u("t"), ("S", k))])),
    ("function(k){return Object.keys(this).length}", lambda k, o: num(len(own_order(o[1])) + 1)),
]


def serialize_prop(key, value, holder, replacer, plist, tojson, log):
    """SerializeJSONProperty as a tree transformation: returns the plain tree that is printed, or UNDEF"""
    v = value
    if v[0] == "O" and id(v) in tojson:
        v = tojson[id(v)][1](key, v)
    if replacer is not None:
        if log is not None:
            log.append(key)
        v = replacer(key, v, holder)
    if v[0] == "A":
        return ("A", [(lambda r: ("N",) if r == UNDEF else r)(serialize_prop(u(str(i)), e, v, replacer, plist, tojson, log)) for i, e in enumerate(v[1])])
    if v[0] == "O":
        own = own_order(v[1])
        if id(v) in tojson:      # the method itself is an own enumerable property named toJSON (a function -> undefined -> skipped)
            pass
        keys = plist if plist is not None else [k for k, _ in own]
        d = {tuple(k): e for k, e in own}
        ms = []
        for k in keys:
            if tuple(k) in d:
                r = serialize_prop(k, d[tuple(k)], v, replacer, plist, tojson, log)
                if r != UNDEF:
                    ms.append((k, r))
        return ("O", ms)
    if v[0] == "D":
        x = V.float_of(v[1])
        if x != x or abs(x) == float("inf"):
            return ("N",)
    return v


# ---------------------------------------------------------------------------------------------
# revivers

def v_double(k, v, h):
    return num(V.float_of(v[1]) * 2) if is_num(v) else v


def v_dropx(k, v, h):
    return UNDEF if k == u("x") else v


def v_arrlen(k, v, h):
    return num(len(v[1])) if v[0] == "A" else v


def v_appendkey(k, v, h):
    return ("S", v[1] + k) if v[0] == "S" else v


def v_dropnull(k, v, h):
    return UNDEF if v[0] == "N" else v


REVIVERS = [
    ("function(k,v){return typeof v==='number'?v*2:v}", v_double),
    ("function(k,v){return k==='x'?undefined:v}", v_dropx),
    ("function(k,v){return Array.isArray(v)?v.length:v}", v_arrlen),
    ("function(k,v){return typeof v==='string'?v+k:v}", v_appendkey),
    ("function(k,v){return v===null?undefined:v}", v_dropnull),
]


def internalize(key, value, holder, reviver, log):
    """InternalizeJSONProperty on trees; returns the revived tree (UNDEF = deleted by the caller)"""
    v = value
    if v[0] == "A":
        new = []
        for i, e in enumerate(v[1]):
            r = internalize(u(str(i)), e, v, reviver, log)
            new.append(r)          # a deleted element leaves a hole: printed as null by stringify, length unchanged
        v = ("A", new)
    elif v[0] == "O":
        ms = []
        for k, e in own_order(v[1]):
            r = internalize(k, e, v, reviver, log)
            if r != UNDEF:
                ms.append((k, r))
        v = ("O", ms)
    if log is not None:
        log.append(key)
    return reviver(key, v, holder)


# ---------------------------------------------------------------------------------------------

# ---------------------------------------------------------------------------------------------
# deepening round: the same instance reachable several times (through plain members, toJSON results, replacer results, under a
# replacer array) -- sharing is unobservable, so the reference is the tree semantics above applied to a Python tree in which the shared
# node is the same Python object; a genuine cycle must throw TypeError

def graft(rng, t, shared, p):
    """copy of t with some leaves / members replaced by one of the shared instances (the same Python object every time)"""
    if t[0] == "A":
        return ("A", [rng.choice(shared) if rng.random() < p else graft(rng, e, shared, p) for e in t[1]])
    if t[0] == "O":
        return ("O", [(k, rng.choice(shared) if rng.random() < p else graft(rng, e, shared, p)) for k, e in t[1]])
    return t


def make_dag_program(rng):
    kind = rng.choice(["dag-plain", "dag-plain", "dag-replacer-array", "dag-replacer-array", "dag-replacer-fn", "dag-tojson", "dag-tojson", "dag-replacer-returns-shared", "dag-cycle"])
    hs, ms, st = V.gen_space(rng)
    if "nonws" in st or rng.random() < 0.5:
        hs, ms, st = "-", "-", "space-none"
    js_space = "undefined" if hs == "-" else (js_num(int(hs[1:], 16)) if hs[0] == "n" else js_str(V_unhx(hs[1:])))
    nshared = rng.choice([1, 1, 2])
    shared = []
    for _ in range(nshared):
        r = rng.random()
        if r < 0.4:
            shared.append(("O", []))
        elif r < 0.55:
            shared.append(("A", []))
        else:
            t = gen_ptree(rng, rng.choice([1, 2]), allow_undef=True)
            while t[0] not in ("A", "O"):
                t = gen_ptree(rng, rng.choice([1, 2]), allow_undef=True)
            shared.append(t)
    if kind == "dag-replacer-returns-shared":
        shared[-1] = rng.choice([("O", []), ("O", []), ("A", [])])
    if nshared == 2 and shared[0][0] == "O" and rng.random() < 0.5:     # an instance inside another one, and also outside
        shared[0] = ("O", list(shared[0][1]) + [(u("in"), shared[1])])
    names = {id(x): "s%d" % i for i, x in enumerate(shared)}
    # definitions: later instances first (s0 may contain s1)
    prelude = "".join("var s%d=%s;" % (i, js_lit_node(x, None, names)) for i, x in reversed(list(enumerate(shared))))
    base = gen_ptree(rng, rng.choice([1, 2, 3]), allow_undef=True)
    while base[0] not in ("A", "O") or not base[1]:
        base = gen_ptree(rng, rng.choice([1, 2, 3]), allow_undef=True)
    tree = graft(rng, base, shared, 0.35)
    # make sure one instance occurs at least twice at the top
    if tree[0] == "A":
        tree = ("A", [shared[0]] + list(tree[1]) + [shared[0]])
    else:
        tree = ("O", [(u("p"), shared[0])] + [(k, e) for k, e in tree[1] if k not in (u("p"), u("q"))] + [(u("q"), shared[0])])
    tojson, replacer, rsrc, plist = {}, None, "undefined", None
    if kind == "dag-cycle":
        tgt = shared[0]
        if tgt[0] == "O":
            cyc = "s0.cyc=%s;" % rng.choice(["s0", "[s0]", "{z:s0}"])
        else:
            cyc = "s0.push(%s);" % rng.choice(["s0", "[s0]", "{z:s0}"])
        src = prelude + cyc + "String(JSON.stringify(%s,undefined,%s))" % (js_lit(tree, None, names), js_space)
        return {"kind": kind, "source": src, "expect": ("error", "TypeError")}
    if kind == "dag-replacer-array":
        items = [rng.choice(SKEYS + ["p", "q", "in"]) for _ in range(rng.choice([0, 0, 1, 2, 4]))]
        plist, parts = [], []
        for it in items:
            parts.append(js_str(u(it)))
            if u(it) not in plist:
                plist.append(u(it))
        rsrc = "[" + ",".join(parts) + "]"
    elif kind == "dag-replacer-fn":
        rsrc, replacer = rng.choice(REPLACERS)
    elif kind == "dag-replacer-returns-shared":
        inst = shared[-1]       # made key-less above: a replacer that answers with a keyed instance for a key the instance has is a real cycle
        rsrc = "function(k,v){return k==='x'||k==='1'?s%d:v}" % (len(shared) - 1)
        replacer = (lambda k, v, h, inst=inst: inst if k in (u("x"), u("1")) else v)
    elif kind == "dag-tojson":
        objs = []
        collect_objects_outside(tree, objs, names)      # an object inside the returned instance with this toJSON would be a real cycle
        inst = shared[-1]
        meth = ("function(k){return s%d}" % (len(shared) - 1), lambda k, o, inst=inst: inst)
        for o in objs:
            if o is not inst and id(o) not in names and rng.random() < 0.5 and not any(k == u("toJSON") for k, _ in o[1]):
                tojson[id(o)] = meth if rng.random() < 0.7 else rng.choice(TOJSON)
    wrapper = ("O", [(u(""), tree)])
    res = serialize_prop(u(""), tree, wrapper, replacer, plist, tojson, None)
    src = prelude + "String(JSON.stringify(%s,%s,%s))" % (js_lit(tree, tojson, names), rsrc, js_space)
    if res == UNDEF:
        return {"kind": kind, "source": src, "expect": ("literal", "undefined")}
    return {"kind": kind, "source": src, "expect": ("text", ms, res)}


# ---------------------------------------------------------------------------------------------
# deepening round, parse side: revivers that make InternalizeJSONProperty visit a holder again -- the reviver plants one shared
# instance under keys that are still to be visited (so the instance is walked once per holder and its numbers are revived each time),
# deletes keys that are still to be visited, truncates the array being walked, or answers with the same instance for several keys.
# Reference: a direct transcription of InternalizeJSONProperty over MUTABLE objects with identity.

class MObj:
    """mutable object / array with identity"""
    def __init__(self, kind, items):
        self.kind = kind                    # "O": list of [key units, value] in creation order; "A": list of values (UNDEF = hole)
        self.items = items

    def keys(self):
        return [k for k, _ in own_order([(k, v) for k, v in self.items])] if self.kind == "O" else [u(str(i)) for i in range(len(self.items))]

    def get(self, k):
        if self.kind == "O":
            for kk, v in self.items:
                if kk == k:
                    return v
            return UNDEF
        s = ustr(k)
        if s == "length":
            return num(len(self.items))
        return self.items[int(s)] if s.isdigit() and int(s) < len(self.items) else UNDEF

    def set(self, k, v):                    # CreateDataProperty
        if self.kind == "O":
            for it in self.items:
                if it[0] == k:
                    it[1] = v
                    return
            self.items.append([k, v])
        else:
            i = int(ustr(k))
            while len(self.items) <= i:
                self.items.append(UNDEF)
            self.items[i] = v

    def delete(self, k):
        if self.kind == "O":
            self.items = [it for it in self.items if it[0] != k]
        else:
            s = ustr(k)
            if s.isdigit() and int(s) < len(self.items):
                self.items[int(s)] = UNDEF      # a hole; length unchanged


def to_mut(t):
    if t[0] == "A":
        return MObj("A", [to_mut(e) for e in t[1]])
    if t[0] == "O":
        return MObj("O", [[k, to_mut(e)] for k, e in own_order(t[1])])
    return t


def from_mut(v, depth=0):
    """the (unfolded) tree of a mutable value, for printing"""
    if depth > 60:
        raise RecursionError
    if isinstance(v, MObj):
        if v.kind == "A":
            return ("A", [from_mut(e, depth + 1) for e in v.items])
        return ("O", [(k, from_mut(e, depth + 1)) for k, e in own_order([(k, e) for k, e in v.items])])
    return v


def internalize_m(holder, name, reviver, log):
    val = holder.get(name)
    if isinstance(val, MObj):
        if val.kind == "A":
            n = len(val.items)              # LengthOfArrayLike once, before the loop
            keys = [u(str(i)) for i in range(n)]
        else:
            keys = val.keys()               # EnumerableOwnPropertyNames once, before the loop
        for k in keys:
            new = internalize_m(val, k, reviver, log)
            if new == UNDEF:
                val.delete(k)
            else:
                val.set(k, new)
    if log is not None:
        log.append(name)
    return reviver(holder, name, val)


def mk_mut_revivers(sh):
    """(JS source using the global SH, python (holder, key, value) -> value)"""
    def dbl(v):
        return num(V.float_of(v[1]) * 2) if (not isinstance(v, MObj)) and is_num(v) else v

    def plant(h, k, v):
        if k == u("a") and isinstance(h, MObj) and h.kind == "O":
            h.set(u("b"), sh)
        return dbl(v)

    def plant0(h, k, v):
        if k == u("0") and isinstance(h, MObj) and h.kind == "A":
            h.set(u("1"), sh)
        return dbl(v)

    def delb(h, k, v):
        if k == u("a") and isinstance(h, MObj) and h.kind == "O":
            h.delete(u("b"))
        return dbl(v)

    def trunc(h, k, v):
        if k == u("0") and isinstance(h, MObj) and h.kind == "A":
            del h.items[1:]
        return v

    def same(h, k, v):
        return sh if isinstance(v, MObj) and v.kind == "A" else v

    def sameobj(h, k, v):
        return sh if isinstance(v, MObj) and v.kind == "O" and k != u("") else v

    return [
        ("function(k,v){if(k==='a'&&!Array.isArray(this))this.b=SH;return typeof v==='number'?v*2:v}", plant),
        ("function(k,v){if(k==='0'&&Array.isArray(this))this[1]=SH;return typeof v==='number'?v*2:v}", plant0),
        ("function(k,v){if(k==='a'&&!Array.isArray(this))delete this.b;return typeof v==='number'?v*2:v}", delb),
        ("function(k,v){if(k==='0'&&Array.isArray(this))this.length=1;return v}", trunc),
        ("function(k,v){return Array.isArray(v)?SH:v}", same),
        ("function(k,v){return (v&&typeof v==='object'&&!Array.isArray(v)&&k!=='')?SH:v}", sameobj),
    ]


def make_mut_reviver_program(rng):
    kind = "reviver-shared"
    sh_tree = rng.choice([("O", []), ("A", []), ("O", [(u("z"), ("A", [num(1), num(2)]))]), ("A", [num(3), ("O", [(u("n"), num(4))])]),
                          ("O", [(u("a"), num(1)), (u("b"), num(5))])])
    sh = to_mut(sh_tree)
    # texts with the keys the revivers look at
    def t(depth):
        if depth <= 0 or rng.random() < 0.3:
            return rng.choice([num(1), num(7), ("S", u("s")), ("N",), ("T",), ("A", []), ("O", [])])
        if rng.random() < 0.5:
            return ("A", [t(depth - 1) for _ in range(rng.choice([1, 2, 3]))])
        ks = rng.sample(["a", "b", "c", "x", "0", "1"], rng.choice([1, 2, 3, 4]))
        if rng.random() < 0.6 and "a" not in ks:
            ks.insert(rng.randrange(len(ks) + 1), "a")
        return ("O", [(u(k), t(depth - 1)) for k in ks])
    tree = t(rng.choice([1, 2, 3]))
    text = json_text(tree)
    revs = mk_mut_revivers(sh)
    rsrc, reviver = rng.choice(revs)
    root = MObj("O", [[u(""), to_mut(tree)]])
    try:
        res = internalize_m(root, u(""), reviver, None)
        out = ("A", [from_mut(res), from_mut(sh)])
    except RecursionError:
        return make_mut_reviver_program(rng)      # the planted instance ended up inside itself: not this family's business
    src = "var SH=%s;String(JSON.stringify([JSON.parse(%s,%s),SH]))" % (js_lit(sh_tree), js_str(u(text)), rsrc)
    res2 = serialize_prop(u(""), out, ("O", [(u(""), out)]), None, None, {}, None)
    return {"kind": kind, "source": src, "expect": ("text", "-", res2)}


def make_program(rng):
    """returns dict(source, kind, expect = ('text', mspace, tree) | ('literal', string) | ('error', class))"""
    r = rng.random()
    if r < 0.3:
        return make_dag_program(rng)
    if r < 0.42:
        return make_mut_reviver_program(rng)
    kind = rng.choice(["replacer-fn", "replacer-fn", "replacer-array", "tojson", "replacer-log", "reviver", "reviver", "reviver-log", "tojson+replacer"])
    hs, ms, st = V.gen_space(rng)
    if "nonws" in st or rng.random() < 0.5:
        hs, ms, st = "-", "-", "space-none"
    if hs == "-":
        js_space = "undefined"
    elif hs[0] == "n":
        js_space = js_num(int(hs[1:], 16))
    else:
        js_space = js_str(V_unhx(hs[1:]))
    if kind in ("replacer-fn", "replacer-log", "tojson", "tojson+replacer", "replacer-array"):
        tree = gen_ptree(rng, rng.choice([1, 2, 3, 4]), allow_undef=True)
        tojson = {}
        if kind.startswith("tojson"):
            objs = []
            collect_objects(tree, objs)
            for o in objs:
                if rng.random() < 0.6 and not any(k == u("toJSON") for k, _ in o[1]):
                    tojson[id(o)] = rng.choice(TOJSON)
        replacer = None
        rsrc = "undefined"
        plist = None
        log = None
        if kind in ("replacer-fn", "tojson+replacer"):
            rsrc, replacer = rng.choice(REPLACERS)
        elif kind == "replacer-log":
            rsrc, replacer = "function(k,v){log.push(k);return v}", (lambda k, v, h: v)
            log = []
        elif kind == "replacer-array":
            items = [rng.choice(SKEYS + ["q"]) for _ in range(rng.choice([0, 1, 2, 3, 5]))]
            plist = []
            parts = []
            for it in items:
                if it.isdigit() and it[0] != "0" or it == "0":
                    parts.append(it if rng.random() < 0.5 else js_str(u(it)))
                else:
                    parts.append(js_str(u(it)))
                if u(it) not in plist:
                    plist.append(u(it))
            rsrc = "[" + ",".join(parts) + "]"
        wrapper = ("O", [(u(""), tree)])
        res = serialize_prop(u(""), tree, wrapper, replacer, plist, tojson, log)
        lit = js_lit(tree, tojson)
        if kind == "replacer-log":
            src = "var log=[];JSON.stringify(%s,%s);log.join('|')" % (lit, rsrc)
            return {"kind": kind, "source": src, "expect": ("literal", "|".join(ustr(k) for k in log))}
        src = "String(JSON.stringify(%s,%s,%s))" % (lit, rsrc, js_space)
        if res == UNDEF:
            return {"kind": kind, "source": src, "expect": ("literal", "undefined")}
        return {"kind": kind, "source": src, "expect": ("text", ms, res)}
    # revivers
    tree = gen_ptree(rng, rng.choice([1, 2, 3, 4]), allow_undef=False)
    text = json_text(tree)
    log = [] if kind == "reviver-log" else None
    if kind == "reviver-log":
        rsrc, reviver = "function(k,v){log.push(k);return v}", (lambda k, v, h: v)
    else:
        rsrc, reviver = rng.choice(REVIVERS)
    wrapper = ("O", [(u(""), tree)])
    res = internalize(u(""), tree, wrapper, reviver, log)
    tsrc = js_str(u(text))
    if kind == "reviver-log":
        src = "var log=[];JSON.parse(%s,%s);log.join('|')" % (tsrc, rsrc)
        return {"kind": kind, "source": src, "expect": ("literal", "|".join(ustr(k) for k in log))}
    src = "String(JSON.stringify(JSON.parse(%s,%s)))" % (tsrc, rsrc)
    if res == UNDEF:
        return {"kind": kind, "source": src, "expect": ("literal", "undefined")}
    res2 = serialize_prop(u(""), res, ("O", [(u(""), res)]), None, None, {}, None)
    return {"kind": kind, "source": src, "expect": ("text", "-", res2)}


def V_unhx(s):
    return [int(s[i:i + 4], 16) for i in range(0, len(s), 4)]


def collect_objects(t, acc):
    if t[0] == "O":
        acc.append(t)
        for _, e in t[1]:
            collect_objects(e, acc)
    elif t[0] == "A":
        for e in t[1]:
            collect_objects(e, acc)


def collect_objects_outside(t, acc, names):
    if id(t) in names:
        return
    if t[0] == "O":
        acc.append(t)
        for _, e in t[1]:
            collect_objects_outside(e, acc, names)
    elif t[0] == "A":
        for e in t[1]:
            collect_objects_outside(e, acc, names)


def esc_src(s):
    out = []
    for ch in s:
        c = ord(ch)
        if 0x21 <= c <= 0x7E and c != 0x5C:
            out.append(ch)
        elif c < 0x10000:
            out.append("\\u%04x" % c)
        else:
            c -= 0x10000
            out.append("\\u%04x\\u%04x" % (0xD800 + (c >> 10), 0xDC00 + (c & 0x3FF)))
    return "".join(out)


def run_programs(run, tools, n, dist, stats, node_eval):
    progs = [make_program(run.rng) for _ in range(n)]
    # expected strings: literal, or the model's text for the resolved tree
    mlines, idx = [], []
    for i, p in enumerate(progs):
        if p["expect"][0] == "text":
            mlines.append("stringifyraw %s %s" % (p["expect"][1], model_tokens(p["expect"][2])))
            idx.append(i)
    mo = tools.model(mlines)
    for i, m in zip(idx, mo):
        progs[i]["expected"] = m.rstrip()
    for p in progs:
        if p["expect"][0] == "literal":
            p["expected"] = "ok U" + hx(u(p["expect"][1]))
        elif p["expect"][0] == "error":
            p["expected"] = "err " + p["expect"][1]
    io = tools.impl(["js " + esc_src(p["source"]) for p in progs])
    bad = []
    for p, i in zip(progs, io):
        p["impl"] = i.split("\t")[0].rstrip()
        run.count(("prog", p["source"]))
        dist["prog:" + p["kind"]] = dist.get("prog:" + p["kind"], 0) + 1
        if p["impl"] != p["expected"]:
            bad.append(p)
    out = []
    if bad:
        nd = node_eval([p["source"] for p in bad])
        for k, p in enumerate(bad):
            v8 = nd[k].rstrip() if nd else None
            p["v8"] = v8
            if v8 is not None and v8 == p["impl"]:
                stats["python_reference_defect"] = stats.get("python_reference_defect", 0) + 1
                run.notes.append({"python_reference_defect": {"source": p["source"][:400], "python": p["expected"][:200], "impl_and_v8": p["impl"][:200]}})
                continue
            stats["prog_mismatch"] = stats.get("prog_mismatch", 0) + 1
            if len(out) < 5:
                out.append({"kind": "counterexample", "class": None,
                            "input": {"cmd": "js", "source": p["source"], "escaped": esc_src(p["source"]), "family": p["kind"]},
                            "obligation": "JSON.stringify/parse with replacer / toJSON / reviver = Python transcription of SerializeJSONProperty / InternalizeJSONProperty "
                                          "+ model text (differential; V8 %s)" % ("agrees with the reference" if v8 == p["expected"] else "differs from both" if v8 else "unavailable"),
                            "model_output": p["expected"][:1500], "impl_output": p["impl"][:1500], "v8_output": v8,
                            "how_to_rerun": "printf 'js %s\\n' | harness/target/debug/jsonops" % esc_src(p["source"])[:3000]})
    return out
