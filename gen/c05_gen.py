"""C05 program generator (over gen/jsast.py's AST = coq/JSRef/Syntax.v).

The optimizer looks at boa's AST, where every pair of source parentheses is a Parenthesized node (which blocks
folding of its parent) -- so, unlike jsast.to_js, this generator inserts EParen nodes itself exactly where precedence
needs them (plus some at random) and prints with a printer that never adds parentheses.  Numeric literals are
non-negative finite doubles (negative numbers are EUnary UNeg, NaN/Infinity identifiers), as the parser sees them.

Biases: literal-heavy operator trees (numbers around the int32 / 2^53 boundaries, strings, booleans, null, undefined,
BigInts); operands with observable conversion (objects with printing valueOf/toString, a global getter, BigInt and
string variables) under `/ 2`, `** 2` and the other operators; comma / && || ?? with literal left sides;
if/while/for with literal (or foldable) conditions whose dead parts contain var / function / for-in var declarations;
statement positions whose completion value is the script result; nested function bodies (object methods, function
expressions) that only the walker reaches."""
import struct

from jsast import u, encode_prog, func, prog

# ---------------------------------------------------------------- precedence
P_COMMA, P_ASSIGN, P_COND, P_COAL, P_OR, P_AND, P_BOR, P_BXOR, P_BAND, P_EQ, P_REL, P_SHIFT, P_ADD, P_MUL, P_EXP, P_UNARY, P_POSTFIX, P_CALL, P_PRIMARY = range(1, 20)
BIN_PREC = {"BAdd": P_ADD, "BSub": P_ADD, "BMul": P_MUL, "BDiv": P_MUL, "BMod": P_MUL, "BExp": P_EXP,
            "BBitAnd": P_BAND, "BBitOr": P_BOR, "BBitXor": P_BXOR, "BShl": P_SHIFT, "BShr": P_SHIFT, "BUShr": P_SHIFT,
            "BLt": P_REL, "BLe": P_REL, "BGt": P_REL, "BGe": P_REL, "BEq": P_EQ, "BNe": P_EQ, "BSEq": P_EQ, "BSNe": P_EQ,
            "BIn": P_REL, "BInstanceof": P_REL}
LOG_PREC = {"LAnd": P_AND, "LOr": P_OR, "LCoalesce": P_COAL}


def prec(e):
    t = e[0]
    if t in ("ENum", "EStr", "EBool", "ENull", "EBigInt", "EId", "EThis", "EArray", "EObject", "EFunc", "EParen"):
        return P_PRIMARY
    if t in ("ECall", "EMember", "EIndex", "ENew"):
        return P_CALL
    if t == "EUpdate":
        return P_POSTFIX if not e[1] else P_UNARY
    if t in ("EUnary", "EDelete"):
        return P_UNARY
    if t == "EBinary":
        return BIN_PREC[e[1]]
    if t == "ELogical":
        return LOG_PREC[e[1]]
    if t == "ECond":
        return P_COND
    if t in ("EAssign", "EOpAssign", "ELogAssign"):
        return P_ASSIGN
    if t == "ESeq":
        return P_COMMA
    return P_COMMA


def paren(e):
    return ("EParen", e)


def at_least(e, p):
    return e if prec(e) >= p else paren(e)


def num(x):
    x = float(x)
    assert x >= 0 and x == x and x != float("inf")
    return ("ENum", struct.unpack("<Q", struct.pack("<d", x))[0])


def s(text):
    return ("EStr", u(text))


def ident(n):
    return ("EId", u(n))


UNDEF = ident("undefined")


def unary(op, a):
    a = at_least(a, P_UNARY)
    if op == "UVoid" and a == ("ENull",):
        a = num(0)           # `void null` is the model's encoding of LiteralKind::Undefined: never generated
    return ("EUnary", op, a)


def binary(op, a, b):
    p = BIN_PREC[op]
    if op == "BExp":
        a = at_least(a, P_POSTFIX)
        if a[0] in ("EUnary", "EDelete"):
            a = paren(a)
        b = at_least(b, P_EXP)
    else:
        a = at_least(a, p)
        b = at_least(b, p + 1)
    return ("EBinary", op, a, b)


def logical(op, a, b):
    """shape of boa's ShortCircuitExpression parser: `&&` and `??` chain to the left with BitwiseOR operands,
    `||` takes a whole short-circuit expression on its right (a || b || c is a || (b || c))"""
    if op == "LOr":
        a = at_least(a, P_AND)
        b = at_least(b, P_OR)
    elif op == "LAnd":
        a = at_least(a, P_AND)
        b = at_least(b, P_BOR)
    else:
        if not (a[0] == "ELogical" and a[1] == "LCoalesce"):
            a = at_least(a, P_BOR)
        b = at_least(b, P_BOR)
    return ("ELogical", op, a, b)


def cond(c, a, b):
    return ("ECond", at_least(c, P_COAL), at_least(a, P_ASSIGN), at_least(b, P_ASSIGN))


def seq(a, b):
    return ("ESeq", at_least(a, P_COMMA), at_least(b, P_ASSIGN))


def call(f, *args):
    return ("ECall", at_least(f, P_CALL), [("Arg", at_least(a, P_ASSIGN)) for a in args], False)


def pr(*args):
    return ("SExpr", call(ident("print"), *args))


def member(o, name):
    return ("EMember", at_least(o, P_CALL), u(name), False)


def assign(name, e):
    return ("EAssign", ("PId", u(name)), at_least(e, P_ASSIGN))


# ---------------------------------------------------------------- printer (mirrors ocaml/C05/driver.ml)
def ustr(units):
    return "".join(chr(c) for c in units)


def js_str(units):
    out = ['"']
    for c in units:
        if c == 0x22:
            out.append('\\"')
        elif c == 0x5C:
            out.append("\\\\")
        elif 0x20 <= c <= 0x7E:
            out.append(chr(c))
        else:
            out.append("\\u%04x" % c)
    out.append('"')
    return "".join(out)


def js_num(bits):
    x = struct.unpack("<d", struct.pack("<Q", bits & 0xFFFFFFFFFFFFFFFF))[0]
    if x == int(x) and abs(x) < 1e15:
        return "%d" % int(x)
    return repr(x)


UN = {"UNeg": "-", "UPos": "+", "UNot": "!", "UBitNot": "~", "UTypeof": "typeof ", "UVoid": "void "}
from jsast import BINOPS, LOGOPS, DECL


class Printer:
    def __init__(self, p):
        self.p = p

    def e(self, e):
        t = e[0]
        if t == "ENum":
            return js_num(e[1])
        if t == "EStr":
            return js_str(e[1])
        if t == "EBool":
            return "true" if e[1] else "false"
        if t == "ENull":
            return "null"
        if t == "EBigInt":
            return "%dn" % e[1]
        if t == "EId":
            return ustr(e[1])
        if t == "EThis":
            return "this"
        if t == "EArray":
            return "[" + ", ".join(self.e(x[1]) for x in e[1]) + "]"
        if t == "EObject":
            parts = []
            for pd in e[1]:
                if pd[0] == "PInit":
                    parts.append(self.key(pd[1]) + ": " + self.e(pd[2]))
                elif pd[0] == "PMethod":
                    parts.append(self.method("", pd[1], pd[2]))
                elif pd[0] == "PGet":
                    parts.append(self.method("get ", pd[1], pd[2]))
                elif pd[0] == "PSet":
                    parts.append(self.method("set ", pd[1], pd[2]))
                else:
                    raise ValueError(pd)
            return "{" + ", ".join(parts) + "}"
        if t == "EFunc":
            f = self.p["p_funcs"][e[1]]
            if f["f_kind"] == "FArrow":
                return self.params(f) + " => " + (self.e(f["f_expr_body"]) if f["f_expr_body"] is not None else self.body(f))
            return "function" + (" " + ustr(f["f_name"]) if f["f_name"] else "") + self.params(f) + " " + self.body(f)
        if t == "EUnary":
            sp = ""
            if e[1] in ("UNeg", "UPos") and e[2][0] == "EUnary" and e[2][1] in ("UNeg", "UPos"):
                sp = " "
            return UN[e[1]] + sp + self.e(e[2])
        if t == "EDelete":
            return "delete " + self.e(e[1])
        if t == "EBinary":
            return self.e(e[2]) + " " + BINOPS[e[1]] + " " + self.e(e[3])
        if t == "ELogical":
            return self.e(e[2]) + " " + LOGOPS[e[1]] + " " + self.e(e[3])
        if t == "EAssign":
            return self.pat(e[1]) + " = " + self.e(e[2])
        if t == "EOpAssign":
            return self.e(e[2]) + " " + BINOPS[e[1]] + "= " + self.e(e[3])
        if t == "EUpdate":
            op = "++" if e[2] else "--"
            return (op + self.e(e[3])) if e[1] else (self.e(e[3]) + op)
        if t == "ECond":
            return self.e(e[1]) + " ? " + self.e(e[2]) + " : " + self.e(e[3])
        if t == "ECall":
            return self.e(e[1]) + "(" + ", ".join(self.e(a[1]) for a in e[2]) + ")"
        if t == "EMember":
            return self.e(e[1]) + "." + ustr(e[2])
        if t == "EIndex":
            return self.e(e[1]) + "[" + self.e(e[2]) + "]"
        if t == "ESeq":
            return self.e(e[1]) + ", " + self.e(e[2])
        if t == "EParen":
            return "(" + self.e(e[1]) + ")"
        raise ValueError(e)

    def key(self, k):
        if k[0] == "PKStr":
            return js_str(k[1])
        if k[0] == "PKComputed":
            return "[" + self.e(k[1]) + "]"
        raise ValueError(k)

    def pat(self, p):
        if p[0] == "PId":
            return ustr(p[1])
        if p[0] == "PExpr":
            return self.e(p[1])
        raise ValueError(p)

    def params(self, f):
        return "(" + ", ".join(self.pat(p) + (" = " + self.e(d) if d is not None else "") for p, d in f["f_params"]) + ")"

    def body(self, f):
        return "{ " + "".join(self.st(x) + " " for x in f["f_body"]) + "}"

    def method(self, pre, k, i):
        f = self.p["p_funcs"][i]
        return pre + self.key(k) + self.params(f) + " " + self.body(f)

    def decls(self, ds):
        return ", ".join(self.pat(p) + (" = " + self.e(d) if d is not None else "") for p, d in ds)

    def block(self, l):
        return "{ " + "".join(self.st(x) + " " for x in l) + "}"

    def st(self, s_):
        t = s_[0]
        if t == "SExpr":
            return self.e(s_[1]) + ";"
        if t == "SDecl":
            return DECL[s_[1]] + " " + self.decls(s_[2]) + ";"
        if t == "SFunDecl":
            f = self.p["p_funcs"][s_[2]]
            return "function " + ustr(s_[1]) + self.params(f) + " " + self.body(f)
        if t == "SBlock":
            return self.block(s_[1])
        if t == "SIf":
            return "if (" + self.e(s_[1]) + ") " + self.st(s_[2]) + (" else " + self.st(s_[3]) if s_[3] is not None else "")
        if t == "SFor":
            init = s_[1]
            i = "" if init[0] == "FINone" else (self.e(init[1]) if init[0] == "FIExpr" else DECL[init[1]] + " " + self.decls(init[2]))
            return "for (" + i + "; " + (self.e(s_[2]) if s_[2] is not None else "") + "; " + (self.e(s_[3]) if s_[3] is not None else "") + ") " + self.st(s_[4])
        if t in ("SForIn", "SForOf"):
            h = s_[1]
            hd = (DECL[h[1]] + " " + self.pat(h[2])) if h[0] == "FHDecl" else self.pat(h[1])
            return "for (" + hd + (" in " if t == "SForIn" else " of ") + self.e(s_[2]) + ") " + self.st(s_[3])
        if t == "SWhile":
            return "while (" + self.e(s_[1]) + ") " + self.st(s_[2])
        if t == "SDoWhile":
            return "do " + self.st(s_[1]) + " while (" + self.e(s_[2]) + ");"
        if t == "SLabel":
            return ustr(s_[1]) + ": " + self.st(s_[2])
        if t == "SBreak":
            return "break" + (" " + ustr(s_[1]) if s_[1] is not None else "") + ";"
        if t == "SContinue":
            return "continue" + (" " + ustr(s_[1]) if s_[1] is not None else "") + ";"
        if t == "SReturn":
            return "return" + (" " + self.e(s_[1]) if s_[1] is not None else "") + ";"
        if t == "SThrow":
            return "throw " + self.e(s_[1]) + ";"
        if t == "STry":
            out = "try " + self.block(s_[1])
            if s_[2] is not None:
                out += " catch " + ("(" + self.pat(s_[2][0]) + ") " if s_[2][0] is not None else "") + self.block(s_[2][1])
            if s_[3] is not None:
                out += " finally " + self.block(s_[3])
            return out
        if t == "SEmpty":
            return ";"
        raise ValueError(s_)


def to_js(p):
    pp = Printer(p)
    return "".join(pp.st(x) + "\n" for x in p["p_body"])


# ---------------------------------------------------------------- generator
NUMS = [0, 1, 2, 3, 4, 5, 7, 8, 10, 16, 31, 32, 33, 64, 100, 255, 1024, 65535, 65536, 1000000, 2147483647, 2147483648, 4294967295,
        4294967296, 9007199254740991, 9007199254740992, 0.5, 0.25, 1.5, 2.5, 0.1, 0.2, 1e21, 1e300, 1.7976931348623157e308, 5e-324, 123456789]
STRS = ["", "a", "b", "ab", "1", "2", "10", " 3 ", "0x10", "1e3", "x1", "true", "null", "-1", "Infinity", "9007199254740993"]
BIGS = [0, 1, 2, 3, 10, 255, 4294967296, 18446744073709551616]
ARITH = ["BAdd", "BSub", "BMul", "BDiv", "BMod", "BExp"]
BITW = ["BBitAnd", "BBitOr", "BBitXor", "BShl", "BShr", "BUShr"]
RELS = ["BLt", "BLe", "BGt", "BGe", "BEq", "BNe", "BSEq", "BSNe"]
UNOPS = ["UNeg", "UPos", "UNot", "UBitNot", "UTypeof", "UVoid"]


class Gen:
    def __init__(self, rng, size=1.0):
        self.r = rng
        self.funcs = []
        self.size = size
        self.feat = set()
        self.vars = []      # (name, kind) kind in obj/getter/big/str/num/undef
        self.nfun = 0
        self.nlab = 0

    # ---- leaves
    def lit(self):
        r = self.r
        k = r.random()
        if k < 0.50:
            x = r.choice(NUMS) if r.random() < 0.7 else float(r.randrange(0, 70))
            self.feat.add("num")
            return num(x)
        if k < 0.62:
            self.feat.add("str")
            return s(r.choice(STRS))
        if k < 0.72:
            return ("EBool", r.random() < 0.5)
        if k < 0.78:
            return ("ENull",)
        if k < 0.84:
            self.feat.add("undefined")
            return UNDEF if r.random() < 0.5 else unary("UVoid", num(0))
        if k < 0.94:
            self.feat.add("bigint")
            return ("EBigInt", r.choice(BIGS))
        self.feat.add("nan-inf")
        return ident(r.choice(["NaN", "Infinity"]))

    def two(self):
        """an expression the folder may turn into the number 2 (Int or Float representation)"""
        r = self.r
        c = r.randrange(9)
        self.feat.add("two-forms")
        if c <= 3:
            return num(2)
        if c == 4:
            return unary("UPos", num(2))                         # Float64 2 -> no strength reduction
        if c == 5:
            return unary("UNeg", unary("UNeg", num(2)))          # Int 2
        if c == 6:
            return unary("UBitNot", unary("UNeg", num(3)))       # ~-3 = 2 (Int)
        if c == 7:
            return binary("BExp", num(2), num(1))                # 2 ** 1 (Int)
        return binary("BExp", num(4), num(0.5)) if r.random() < 0.3 else num(2)

    def operand(self, depth):
        """a non-literal operand with observable conversion"""
        r = self.r
        if self.vars and r.random() < 0.8:
            n, k = r.choice(self.vars)
            self.feat.add("var-" + k)
            return ident(n)
        c = r.randrange(4)
        if c == 0:
            self.feat.add("inline-object")
            return paren(self.obj_with_valueof("io", r.choice([3, 2, "7", True, None])))
        if c == 1 and self.vars:
            n, k = r.choice(self.vars)
            return call(ident("id"), ident(n))
        if c == 2:
            return call(ident("id"), self.lit())
        return self.lit()

    def obj_with_valueof(self, tag, ret, with_tostring=False):
        retx = self.const_expr(ret)
        body = [pr(s(tag + ".valueOf")), ("SReturn", retx)]
        props = [("PMethod", ("PKStr", u("valueOf")), self.add_func(func(kind="FMethod", body=self.decorate_body(body))))]
        if tag == "o1":
            # a method whose result depends on its this value, and a deletable property
            props.append(("PMethod", ("PKStr", u("me")), self.add_func(func(kind="FMethod", body=[("SReturn", binary("BSEq", ("EThis",), ident("o1")))]))))
            props.append(("PInit", ("PKStr", u("p")), num(1)))
        if with_tostring:
            props.append(("PMethod", ("PKStr", u("toString")),
                          self.add_func(func(kind="FMethod", body=[pr(s(tag + ".toString")), ("SReturn", s(tag))]))))
        return ("EObject", props)

    def const_expr(self, v):
        if v is None:
            return ("ENull",)
        if v is True or v is False:
            return ("EBool", v)
        if isinstance(v, str):
            return s(v)
        if isinstance(v, tuple):
            return v
        return num(v)

    def decorate_body(self, body):
        """nested bodies are reached by the walker only: put foldable / DCE-able material inside"""
        r = self.r
        if r.random() < 0.5:
            self.feat.add("nested-body-material")
            extra = []
            if r.random() < 0.6:
                extra.append(("SIf", ("EBool", r.random() < 0.5), ("SBlock", [pr(s("nested-if"))]), None))
            if r.random() < 0.6:
                extra.append(pr(binary("BAdd", num(1), num(2))))
            return extra + body
        return body

    def add_func(self, f):
        self.funcs.append(f)
        return len(self.funcs) - 1

    # ---- expressions
    def expr(self, depth, lits_only=False):
        r = self.r
        if depth <= 0:
            return self.lit() if (lits_only or r.random() < 0.75) else self.operand(0)
        c = r.random()
        if c < 0.12:
            return self.lit()
        if c < 0.20 and not lits_only:
            return self.operand(depth)
        sub = lambda: self.expr(depth - 1, lits_only)
        if c < 0.50:
            op = r.choice(ARITH) if r.random() < 0.6 else (r.choice(BITW) if r.random() < 0.5 else r.choice(RELS))
            self.feat.add("bin-" + op)
            e = binary(op, sub(), sub())
        elif c < 0.60:
            op = r.choice(UNOPS)
            self.feat.add("un-" + op)
            e = unary(op, sub())
        elif c < 0.72:
            op = r.choice(["LAnd", "LOr", "LCoalesce"])
            self.feat.add("log-" + op)
            a = self.lit() if r.random() < 0.7 else sub()
            e = logical(op, a, self.side_effect(depth - 1) if r.random() < 0.5 else sub())
        elif c < 0.80:
            self.feat.add("comma")
            a = self.lit() if r.random() < 0.7 else sub()
            b = self.side_effect(depth - 1) if r.random() < 0.6 else sub()
            e = paren(seq(a, b))
        elif c < 0.86:
            self.feat.add("cond")
            e = cond(sub(), sub(), sub())
        elif c < 0.93:
            e = self.strength(depth - 1)
        else:
            self.feat.add("delete-literal" if True else "")
            e = ("EDelete", at_least(self.lit(), P_UNARY)) if r.random() < 0.4 else unary("UTypeof", sub())
        if r.random() < 0.12:
            self.feat.add("random-paren")
            e = paren(e)
        return e

    def reference_context(self):
        """a logical / comma expression with a literal left side whose value is used as a *reference* by the parent"""
        r = self.r
        self.feat.add("logical-in-reference-position")
        lit = r.choice([("EBool", True), ("EBool", False), ("ENull",), num(1), num(0), s("")])
        op = r.choice(["LAnd", "LOr", "LCoalesce", "comma"])
        has_o1 = any(n == "o1" for n, _ in self.vars)
        k = r.randrange(3)
        if k == 0 and has_o1:
            tgt = member(ident("o1"), "me")
            inner = seq(lit, tgt) if op == "comma" else logical(op, lit, tgt)
            return ("ECall", paren(inner), [], False)
        if k == 1 and has_o1:
            tgt = member(ident("o1"), "p")
            inner = seq(lit, tgt) if op == "comma" else logical(op, lit, tgt)
            return binary("BAdd", ("EDelete", paren(inner)), binary("BAdd", s(":"), unary("UTypeof", member(ident("o1"), "p"))))
        inner = seq(lit, ident("undeclared1")) if op == "comma" else logical(op, lit, ident("undeclared1"))
        return unary("UTypeof", paren(inner))

    def named_evaluation(self):
        """lit && / || / ?? <anonymous function> where an enclosing computed key / assignment / declaration would name a
        bare function (the folder unwraps the logical expression: fold-logical-function-name)"""
        r = self.r
        self.feat.add("logical-anon-function-in-named-position")
        op, lit = r.choice([("LOr", ("EBool", False)), ("LAnd", ("EBool", True)), ("LCoalesce", ("ENull",)), ("LOr", num(0)), ("LAnd", num(1))])
        fn = paren(("EFunc", self.add_func(func(kind=r.choice(["FNormal", "FArrow"]), body=[("SReturn", num(1))]))))
        if fn[1][0] == "EFunc" and self.funcs[fn[1][1]]["f_kind"] == "FNormal" and r.random() < 0.5:
            fn = fn[1]
        val = logical(op, lit, fn)
        k = r.randrange(3)
        if k == 0:
            self.feat.add("named-position-computed-key")
            obj = paren(("EObject", [("PInit", ("PKComputed", s("ck")), val)]))
            return [pr(member(("EIndex", obj, s("ck"), False), "name"))]
        if k == 1:
            self.feat.add("named-position-assignment")
            return [("SExpr", assign("nf", val)), pr(member(ident("nf"), "name"))]
        self.feat.add("named-position-var-init")
        return [("SDecl", "KVar", [(("PId", u("nv")), val)]), pr(member(ident("nv"), "name"))]

    def side_effect(self, depth):
        r = self.r
        c = r.randrange(3)
        if c == 0:
            return call(ident("id"), self.expr(max(depth, 0)))
        if c == 1 and self.vars:
            return ident(r.choice(self.vars)[0])
        return call(ident("print"), s("se%d" % r.randrange(9)))

    def strength(self, depth):
        r = self.r
        self.feat.add("strength")
        lhs_kind = r.randrange(5)
        if lhs_kind <= 1 and self.vars:
            n, k = r.choice(self.vars)
            self.feat.add("strength-var-" + k)
            lhs = ident(n)
        elif lhs_kind == 2:
            lhs = self.lit()
            self.feat.add("strength-literal")
        elif lhs_kind == 3:
            lhs = self.operand(depth)
        else:
            lhs = self.expr(max(depth, 0))
        op = "BExp" if r.random() < 0.5 else "BDiv"
        rhs = self.two() if r.random() < 0.85 else self.lit()
        return binary(op, lhs, rhs)

    # ---- statements
    def literal_cond(self):
        r = self.r
        c = r.randrange(8)
        if c <= 2:
            return ("EBool", r.random() < 0.5)
        if c == 3:
            self.feat.add("cond-folds-to-bool")
            return unary("UNot", num(r.choice([0, 1])))
        if c == 4:
            self.feat.add("cond-folds-to-bool")
            return binary(r.choice(RELS), num(r.randrange(3)), num(r.randrange(3)))
        if c == 5:
            self.feat.add("cond-literal-nonbool")
            return r.choice([num(0), num(1), s(""), ("ENull",)])
        if c == 6:
            return paren(("EBool", r.random() < 0.5))
        return self.expr(1)

    def hoistable(self):
        """a statement that declares something hoisted (or something that looks like it)"""
        r = self.r
        c = r.randrange(7)
        v = "h%d" % r.randrange(4)
        if c == 0:
            self.feat.add("dead-var")
            return ("SDecl", "KVar", [(("PId", u(v)), num(1))]), v
        if c == 1:
            self.feat.add("dead-function")
            i = self.add_func(func(kind="FNormal", body=[("SReturn", num(1))]))
            return ("SFunDecl", u("f" + v), i), "f" + v
        if c == 2:
            self.feat.add("dead-forin-var")
            return ("SForIn", ("FHDecl", "KVar", ("PId", u(v))), paren(("EObject", [])), ("SBlock", [])), v
        if c == 3:
            self.feat.add("dead-forof-var")
            return ("SForOf", ("FHDecl", "KVar", ("PId", u(v))), ("EArray", []), ("SBlock", [])), v
        if c == 4:
            self.feat.add("dead-for-var")
            return ("SFor", ("FIDecl", "KVar", [(("PId", u(v)), num(0))]), ("EBool", False), None, ("SBlock", [])), v
        if c == 5:
            self.feat.add("dead-let")
            return ("SDecl", "KLet", [(("PId", u("l" + v)), num(1))]), None
        self.feat.add("dead-nested-fn-var")
        i = self.add_func(func(kind="FNormal", body=[("SDecl", "KVar", [(("PId", u("inner")), num(1))])]))
        return ("SExpr", paren(("EFunc", i))), None

    def body_stmt(self, depth, in_loop=False, in_fn=False):
        r = self.r
        c = r.random()
        if c < 0.35 or depth <= 0:
            return pr(self.expr(2))
        if c < 0.55:
            self.feat.add("value-stmt")
            return ("SExpr", self.expr(2))
        if c < 0.62:
            return ("SEmpty",)
        if c < 0.70:
            return ("SBlock", [self.body_stmt(depth - 1, in_loop, in_fn) for _ in range(r.randrange(0, 3))])
        if c < 0.75 and in_loop:
            return ("SBreak", None)
        if c < 0.85:
            h, v = self.hoistable()
            return h
        return self.control(depth - 1, in_fn)

    def branch(self, depth, in_fn=False):
        r = self.r
        c = r.random()
        if c < 0.2:
            self.feat.add("branch-empty-block")
            return ("SBlock", [])
        if c < 0.3:
            self.feat.add("branch-empty-stmt")
            return ("SEmpty",)
        if c < 0.45:
            self.feat.add("branch-expr-stmt")
            return ("SExpr", self.expr(1))
        return ("SBlock", [self.body_stmt(depth, False, in_fn) for _ in range(r.randrange(1, 4))])

    def control(self, depth, in_fn=False):
        r = self.r
        c = r.randrange(10)
        cnd = self.literal_cond()
        if c <= 3:
            self.feat.add("if-literal")
            els = self.branch(depth, in_fn) if r.random() < 0.5 else None
            t = self.branch(depth, in_fn)
            if els is not None and t[0] == "SIf":
                t = ("SBlock", [t])
            return ("SIf", cnd, t, els)
        if c <= 5:
            self.feat.add("while-literal")
            if cnd[0] == "EBool" and cnd[1]:
                return ("SWhile", cnd, ("SBlock", [self.body_stmt(depth, True, in_fn), ("SBreak", None)]))
            body = self.branch(depth, in_fn)
            if not (cnd[0] == "EBool" and not cnd[1]):
                # unknown condition: make the loop terminate
                body = ("SBlock", [body, ("SBreak", None)])
            return ("SWhile", cnd, body)
        if c <= 7:
            self.feat.add("for-literal")
            init = ("FINone",)
            k = r.randrange(4)
            if k == 1:
                init = ("FIExpr", call(ident("print"), s("for-init")))
                self.feat.add("for-init-expr")
            elif k == 2:
                init = ("FIDecl", "KVar", [(("PId", u("fi")), num(0))])
                self.feat.add("for-init-var")
            body = self.branch(depth, in_fn)
            if not (cnd[0] == "EBool" and not cnd[1]):
                body = ("SBlock", [body, ("SBreak", None)])
            return ("SFor", init, cnd if r.random() < 0.9 else None if False else cnd, None, body)
        if c == 8:
            self.feat.add("labelled-break")
            self.nlab += 1
            lab = "L%d" % self.nlab
            inner = ("SIf", cnd, ("SBreak", u(lab)), None)
            return ("SLabel", u(lab), ("SBlock", [("SExpr", self.expr(1)), inner, pr(s("after-" + lab))]))
        self.feat.add("do-while-completion")
        return ("SDoWhile", ("SBlock", [("SExpr", self.expr(1)), ("SIf", cnd, ("SBreak", None), None)]), ("EBool", False))

    def prelude(self):
        """variables with observable conversions"""
        r = self.r
        out = [("SFunDecl", u("id"), self.add_func(func(name="id", kind="FNormal", params=[(("PId", u("x")), None)],
                                                         body=[pr(s("id")), ("SReturn", ident("x"))])))]
        if r.random() < 0.8:
            ret = r.choice([3, 2, 0.5, "4", True, None, ("EBigInt", 3), 2147483647])
            out.append(("SDecl", "KVar", [(("PId", u("o1")), self.obj_with_valueof("o1", ret, with_tostring=r.random() < 0.5))]))
            self.vars.append(("o1", "obj"))
        if r.random() < 0.5:
            out.append(("SDecl", "KVar", [(("PId", u("b1")), ("EBigInt", r.choice([0, 3, 5, 4294967296])))]))
            self.vars.append(("b1", "big"))
        if r.random() < 0.4:
            out.append(("SDecl", r.choice(["KVar", "KLet", "KConst"]), [(("PId", u("s1")), s(r.choice(["3", "x", "", "0x10"])))]))
            self.vars.append(("s1", "str"))
        if r.random() < 0.5:
            out.append(("SDecl", "KVar", [(("PId", u("n1")), r.choice([num(3), num(1.5), num(0), unary("UNeg", num(0)), ident("NaN"), num(1e200)]))]))
            self.vars.append(("n1", "num"))
        if r.random() < 0.5:
            # global accessor: reading the identifier g1 runs a getter
            getter = self.add_func(func(kind="FGetter", body=[pr(s("get g1")), ("SReturn", self.const_expr(r.choice([3, "5", ("EBigInt", 2), 0.5])))]))
            desc = ("EObject", [("PGet", ("PKStr", u("get")), getter), ("PInit", ("PKStr", u("configurable")), ("EBool", True))])
            # written as a method `get(){}` : PGet would print `get "get"(){}`; use PMethod named get
            self.funcs[getter]["f_kind"] = "FMethod"
            desc = ("EObject", [("PMethod", ("PKStr", u("get")), getter), ("PInit", ("PKStr", u("configurable")), ("EBool", True))])
            out.append(("SExpr", call(member(ident("Object"), "defineProperty"), ident("globalThis"), s("g1"), desc)))
            self.vars.append(("g1", "getter"))
        if r.random() < 0.2:
            out.append(("SDecl", "KLet", [(("PId", u("u1")), None)]))
            self.vars.append(("u1", "undef"))
        return out

    def program(self):
        r = self.r
        body = self.prelude()
        n = max(1, int(r.randrange(2, 7) * self.size))
        for _ in range(n):
            c = r.random()
            if c < 0.30:
                body.append(pr(self.expr(r.randrange(1, 4), lits_only=r.random() < 0.5)))
            elif c < 0.36:
                body.append(pr(self.strength(2)))
            elif c < 0.39:
                body.append(("STry", [pr(self.reference_context())], (("PId", u("e")), [pr(s("threw"))]), None))
            elif c < 0.42:
                body.extend(self.named_evaluation())
            elif c < 0.50:
                self.feat.add("value-stmt")
                body.append(("SExpr", self.expr(r.randrange(1, 3), lits_only=r.random() < 0.5)))
            elif c < 0.85:
                body.append(self.control(2))
            elif c < 0.93:
                # a function declaration whose body the statement visitor reaches (DCE applies), then a call
                self.nfun += 1
                name = "f%d" % self.nfun
                self.feat.add("function-decl-body")
                fb = [self.control(1, True), ("SReturn", self.expr(2))]
                body.append(("SFunDecl", u(name), self.add_func(func(name=name, kind="FNormal", body=fb))))
                body.append(pr(call(ident(name))))
            else:
                # a function expression: only the walker reaches its body
                self.feat.add("function-expr-body")
                fb = [self.control(1, True), ("SReturn", self.expr(2))]
                i = self.add_func(func(kind="FNormal", body=fb))
                body.append(pr(call(paren(("EFunc", i)))))
        # observable hoisting probes
        if r.random() < 0.7:
            for v in ("h0", "h1", "h2", "h3", "fh0", "fh2"):
                if r.random() < 0.5:
                    body.append(pr(unary("UTypeof", ident(v))))
        # the last statement decides the completion value of the script
        k = r.random()
        if k < 0.45:
            self.feat.add("tail-control")
            body.append(("SExpr", self.expr(1, lits_only=True)))
            body.append(self.control(1))
        elif k < 0.7:
            self.feat.add("tail-value")
            body.append(("SExpr", self.expr(2)))
        return prog(body, funcs=self.funcs)


def generate(rng, size=1.0):
    g = Gen(rng, size)
    p = g.program()
    return p, sorted(g.feat)


# ---------------------------------------------------------------- edge / malformed stream
EDGE_TEXTS = [
    "1; if (true) {}", "1; if (false) {}", "1; while (false) {}", "1; for (;false;) {}", "1; if (true) ; else 2;", "1; if (false) 2; else ;",
    "2; do { 1; if (true) break; } while (false);", "L: { 1; if (true) break L; }", "if (true) 5;", "if (false) 5; else 6;",
    "var b = 3n; b ** 2;", "var o = {valueOf(){ print('v'); return 3; }}; print(o ** 2);", "var o = {valueOf(){ print('v'); return 3; }}; print(o / 2);",
    "if (false) { for (var x in {}) {} } print(typeof x); x;", "if (false) { for (var y of []) {} } y;", "while (false) { for (var z in {}) ; } z;",
    "if (false) { var w = 1; } w;", "if (true) { } else { function q() {} } typeof q;", "for (var i = 0; false;) {} i;",
    "print((1, 2)); print((1, print('x')));", "print(true && print('a')); print(false || 2); print(null ?? 3); print(0 ?? 3);",
    "print(1 + 2 * 3); print((1 + 2) * 3); print(-(-3)); print(- -3);", "print(2147483647 + 1); print(-2147483647 - 1); print(65536 * 65536);",
    "print(0 * -1); print(1 / (0 * -1)); print(0 / -5); print(1 / (0 / -5));", "print(5 % -5); print(-5 % 5); print(1 / (-5 % 5));",
    "print(1 << 31); print(1 << 32); print(-1 >>> 0); print(-1 >>> 1); print(-1 >> 31);", "print(2 ** 31); print(2 ** -1); print((-2) ** 31); print(2 ** 1 ** 5);",
    "print('a' + 1 + 2); print(1 + 2 + 'a'); print('3' * '4'); print('b' < 'a'); print(null + 1); print(undefined + 1);",
    "print(1n + 2n); print(2n ** 64n); print(5n / 2n); print(-5n % 3n); print(1n < 2); print(1n == 1); print(typeof 1n);",
    "try { print(1n + 1); } catch (e) { print('T'); }", "try { print(+1n); } catch (e) { print('T'); }", "try { print(1n / 0n); } catch (e) { print('R'); }",
    "print(typeof undefined, typeof null, typeof 1, typeof 'a', typeof true); print(void 0); print(delete 1);",
    "var x = 7; print(x / 2); print(x ** 2); print(x / +2); print(x / - -2); print(x ** 2 ** 1); print(x / 2 ** 1); print(x / ~-3);",
    "var x = 7; print(x / 2.0); print(x / (1 + 1)); print(x ** (1 + 1)); print(x ** +2);",
    "print(!0 ? 1 : 2); print(!'' && 'y'); print(1 < 2 < 3); print(3 > 2 > 1);", "print(~5); print(~~5.7); print(~4294967295); print(-0); print(+'0x10'); print(-'x');",
    "print(1 == '1'); print(null == undefined); print(null == 0); print(NaN != NaN); print('1' === 1);",
    "print(9007199254740992 + 1); print(0.1 + 0.2); print(1e21 + 1); print(5e-324 / 2); print(1.7976931348623157e308 * 2);",
    "print(-~2147483647);", "print((-2147483647 - 1) % -1);", "print((-2147483647 - 1) / -1);", "print(~2147483647 % -1);",
    "(function () { if (true) { print('in-expr-fn'); } return 1 + 1; })();", "var o = {m() { if (false) { print('dead'); } return 2 * 3; }}; print(o.m());",
    "function f() { if (false) { var v = 1; } return typeof v; } print(f());", "function g() { 1; if (true) {} } print(g());",
    "var r = eval('1; if (true) {}'); print(r);", "print(void null);",
    'var k = "key"; print(({[k]: false || function(){}})[k].name); print(({[k]: (true && (() => 1))})[k].name); print(({[k]: null ?? class {}})[k].name);',
    'var k = "key"; class A { static [k] = true && function(){} } print(A[k].name);',
    'var x; x = 0 || function(){}; print(x.name); function d(p = 1 && function(){}) { return p.name } print(d()); var o = {kk: true && function(){}}; print(o.kk.name);',
    # malformed: the parser must reject these on both paths
    "1 +", "if (true", "var = 3;", "print(1 ** -2 ** );", "-1 ** 2;", "1 ?? 2 || 3;", "let let = 1;", "break;", "function (){}", "x = = 1;",
]


# ---------------------------------------------------------------- hand-written witnesses (ASTs), run before anything generated
def _obj_valueof(funcs, tag, ret):
    funcs.append(func(kind="FMethod", body=[pr(s(tag)), ("SReturn", ret)]))
    return ("EObject", [("PMethod", ("PKStr", u("valueOf")), len(funcs) - 1)])


def witness_programs():
    out = []
    T, F = ("EBool", True), ("EBool", False)
    E = lambda e: ("SExpr", e)
    blk = lambda *l: ("SBlock", list(l))
    out.append(("dce-if-true-empty", prog([E(num(1)), ("SIf", T, blk(), None)])))
    out.append(("dce-if-false-none", prog([E(num(1)), ("SIf", F, blk(E(num(2))), None)])))
    out.append(("dce-while-false", prog([E(num(1)), ("SWhile", F, blk())])))
    out.append(("dce-for-false", prog([E(num(1)), ("SFor", ("FINone",), F, None, blk())])))
    out.append(("dce-if-true-else-empty", prog([E(num(1)), ("SIf", F, E(num(2)), ("SEmpty",))])))
    out.append(("dce-break-value", prog([E(num(2)), ("SDoWhile", blk(E(num(1)), ("SIf", T, ("SBreak", None), None)), F)])))
    out.append(("dce-keeps-value", prog([E(num(1)), ("SIf", T, E(num(5)), None)])))
    out.append(("dce-keeps-value-block", prog([E(num(1)), ("SIf", T, blk(E(num(5)), ("SEmpty",)), E(num(6)))])))
    fs = []
    o = _obj_valueof(fs, "v", num(3))
    out.append(("exp2-valueof", prog([("SDecl", "KVar", [(("PId", u("o")), o)]), pr(binary("BExp", ident("o"), num(2)))], funcs=fs)))
    fs = []
    o = _obj_valueof(fs, "v", num(3))
    out.append(("div2-valueof", prog([("SDecl", "KVar", [(("PId", u("o")), o)]), pr(binary("BDiv", ident("o"), num(2)))], funcs=fs)))
    out.append(("exp2-bigint", prog([("SDecl", "KVar", [(("PId", u("b")), ("EBigInt", 3))]), E(binary("BExp", ident("b"), num(2)))])))
    out.append(("div2-bigint", prog([("SDecl", "KVar", [(("PId", u("b")), ("EBigInt", 3))]), E(binary("BDiv", ident("b"), num(2)))])))
    out.append(("exp2-literal", prog([pr(binary("BExp", num(7), num(2))), pr(binary("BExp", s("3"), num(2))), pr(binary("BExp", ("EBigInt", 3), num(2)))])))
    forin = ("SForIn", ("FHDecl", "KVar", ("PId", u("x"))), paren(("EObject", [])), blk())
    out.append(("dce-forin-var", prog([("SIf", F, blk(forin), None), pr(unary("UTypeof", ident("x"))), E(ident("x"))])))
    forof = ("SForOf", ("FHDecl", "KVar", ("PId", u("y"))), ("EArray", []), blk())
    out.append(("dce-forof-var", prog([("SWhile", F, blk(forof)), E(ident("y"))])))
    out.append(("dce-var-guard", prog([("SIf", F, blk(("SDecl", "KVar", [(("PId", u("w")), num(1))])), None), E(ident("w"))])))
    x7 = ("SDecl", "KVar", [(("PId", u("x")), num(7))])
    forms = [num(2), unary("UPos", num(2)), unary("UNeg", unary("UNeg", num(2))), unary("UBitNot", unary("UNeg", num(3))),
             binary("BExp", num(2), num(1)), paren(binary("BAdd", num(1), num(1))), binary("BDiv", num(4), num(2))]
    out.append(("two-forms", prog([x7] + [pr(binary("BDiv", ident("x"), f)) for f in forms[:-1]] + [pr(binary("BExp", ident("x"), f)) for f in forms[:-2]]
                                  + [pr(binary("BMul", ident("x"), binary("BDiv", num(4), num(2))))])))
    ints = [binary("BAdd", num(2147483647), num(1)), binary("BSub", unary("UNeg", num(2147483647)), num(1)), binary("BMul", num(65536), num(65536)),
            binary("BMul", num(0), unary("UNeg", num(1))), binary("BDiv", num(0), unary("UNeg", num(5))), binary("BMod", unary("UNeg", num(5)), num(5)),
            binary("BShl", num(1), num(31)), binary("BUShr", unary("UNeg", num(1)), num(0)), binary("BExp", num(2), num(31)), binary("BExp", num(2), unary("UNeg", num(1))),
            binary("BDiv", num(7), num(2)), binary("BDiv", num(8), num(2)), binary("BMod", num(7), num(0)), unary("UNeg", num(0)), unary("UBitNot", num(4294967295))]
    # one program each: a case the model cannot follow (inexact **) must not take its neighbours with it
    for i, e in enumerate(ints):
        out.append(("int-float-repr-%d" % i, prog([pr(e), pr(binary("BDiv", num(1), paren(e))), pr(binary("BDiv", ident("x7"), e)), pr(binary("BExp", ident("x7"), e))])))
    out.append(("comma-logical", prog([pr(paren(seq(num(1), num(2)))), pr(paren(seq(num(1), call(ident("print"), s("x"))))),
                                       pr(logical("LAnd", T, call(ident("print"), s("a")))), pr(logical("LOr", F, num(2))),
                                       pr(logical("LCoalesce", ("ENull",), num(3))), pr(logical("LCoalesce", num(0), num(3))),
                                       pr(logical("LAnd", num(0), call(ident("print"), s("no")))), pr(logical("LOr", s("t"), call(ident("print"), s("no"))))])))
    out.append(("paren-blocks-folding", prog([pr(binary("BMul", paren(binary("BAdd", num(1), num(2))), num(3))), pr(unary("UNeg", paren(unary("UNeg", num(3))))),
                                              pr(binary("BAdd", num(1), binary("BMul", num(2), num(3))))])))
    fs = [func(kind="FNormal", body=[("SIf", T, blk(pr(s("in-expr-fn"))), None), ("SReturn", binary("BAdd", num(1), num(1)))]),
          func(name="f", kind="FNormal", body=[("SIf", F, blk(pr(s("dead"))), None), ("SReturn", binary("BMul", num(2), num(3)))])]
    out.append(("walker-vs-visitor", prog([pr(call(paren(("EFunc", 0)))), ("SFunDecl", u("f"), 1), pr(call(ident("f")))], funcs=fs)))
    fs = [func(kind="FNormal", body=[])]
    objk = paren(("EObject", [("PInit", ("PKComputed", ident("k")), logical("LOr", F, ("EFunc", 0)))]))
    out.append(("fold-logical-function-name", prog([("SDecl", "KVar", [(("PId", u("k")), s("key"))]),
                                                     pr(member(("EIndex", objk, ident("k"), False), "name"))], funcs=fs)))
    out.append(("bigint-mix-throws", prog([("STry", [pr(binary("BAdd", ("EBigInt", 1), num(1)))], (("PId", u("e")), [pr(s("T"))]), None),
                                           ("STry", [pr(unary("UPos", ("EBigInt", 1)))], (("PId", u("e")), [pr(s("T"))]), None),
                                           ("STry", [pr(binary("BDiv", ("EBigInt", 1), ("EBigInt", 0)))], (("PId", u("e")), [pr(s("R"))]), None)])))
    return out
