"""C13 case generator: protocol lines for harness `numops` / model driver `numdrv`.

Every case is one text line `<op> <args>`; doubles travel as 16 hex digits, strings in the \\uXXXX wire format.
Two streams: structured mostly-valid inputs (doubles built from the specification side: powers of 2 and 10 with
neighbours, subnormals, the 2^53 neighbourhood, notation thresholds, exact decimal ties, midpoints between
adjacent doubles written out as exact decimal strings) and a malformed / edge stream (mutated numeric strings,
odd whitespace, out-of-range digit counts and radices).  All randomness comes from the rng passed in."""
import struct

import c13_oracle as O

INF = O.INF
SIGN = O.SIGN


def d2b(x):
    return struct.unpack("<Q", struct.pack("<d", x))[0]


def b2d(b):
    return struct.unpack("<d", struct.pack("<Q", b))[0]


def hx(b):
    return "%016x" % b


def wire(s):
    """Python str (code units as code points) -> wire format understood by bh::unescape_units"""
    out = []
    for ch in s:
        c = ord(ch)
        if ch == "\\":
            out.append("\\\\")
        elif 0x21 <= c <= 0x7e:
            out.append(ch)
        else:
            if c >= 0x10000:
                v = c - 0x10000
                out.append("\\u%04x\\u%04x" % (0xd800 + (v >> 10), 0xdc00 + (v & 0x3ff)))
            else:
                out.append("\\u%04x" % c)
    return "".join(out)


# ------------------------------------------------------------------------------------------------
# doubles

FAMOUS = [
    0.1, 0.2, 0.3, 0.5, 1.5, 2.5, 3.5, 1.25, 1.35, 1.45, 0.125, 0.375, 4.35, 1.005, 8.345, 1e21, 1e-6, 1e-7, 1.5e-7, 123456789012345680000.0,
    1e23, 8.41e21, 2.2250738585072014e-308, 2.225073858507201e-308, 5e-324, 1.7976931348623157e308, 9007199254740992.0,
    9007199254740991.0, 9007199254740994.0, 4503599627370496.5, 4503599627370495.5, 0.000001, 0.0000001, 1e-22, 1e-21, 1.5e-21,
    0.5e-20, 1e20, 1e21 - 65536 * 2, 999999999999999900000.0, 1e300, 1e-300, 123.456, 0.000123456, 255.0, 256.0, 1024.0, 1e15, 1e16, 1e17,
    4294967295.0, 4294967296.0, 2147483647.0, 2147483648.0, -2147483648.0, 0.1 + 0.2, 100.0, 1e100, 1.0, 10.0, 9.5, 99.5, 999.5, 0.95, 0.995,
    9.995, 25.0, 1234.5678, 0.00001, 1.7976931348623155e308, 4.9406564584124654e-324, 2.4703282292062328e-324, 9.9e-7, 9.99999e20,
    5e-7, 15e-8, 0.045, 0.055, 1.15, 2.675, 1.0000000000000002, 0.9999999999999999, 72057594037927940.0, 72057594037927936.0,
]


def structured_doubles(rng, n_pow2, n_pow10):
    out = []
    tag = []

    def add(b, t):
        out.append(b & 0xFFFFFFFFFFFFFFFF)
        tag.append(t)

    for b in (0, SIGN, 1, 2, 3, (1 << 52) - 1, 1 << 52, (1 << 52) + 1, INF - 1, INF, INF | SIGN, INF + 1, (INF | SIGN) + 12345,
              0x7FF8000000000000, 0xFFF8000000000000, 0x7FFFFFFFFFFFFFFF):
        add(b, "special")
    for x in FAMOUS:
        add(d2b(x), "famous")
        add(d2b(-x), "famous")
    # powers of two and neighbours (all exponents in thorough, a seeded sample in quick)
    exps = list(range(-1074, 1024))
    if n_pow2 < len(exps):
        exps = sorted(set(rng.sample(exps, n_pow2) + [-1074, -1073, -1023, -1022, -1021, -1, 0, 1, 52, 53, 54, 63, 64, 69, 70, 1023]))
    for e in exps:
        b = d2b(2.0 ** e) if e >= -1022 else 1 << (e + 1074)
        for d in (-1, 0, 1):
            if 0 <= b + d < INF:
                add(b + d, "pow2")
    # powers of ten and neighbours
    ks = list(range(-323, 309))
    if n_pow10 < len(ks):
        ks = sorted(set(rng.sample(ks, n_pow10) + [-323, -308, -307, -22, -21, -7, -6, -5, -1, 0, 1, 15, 16, 17, 20, 21, 22, 23, 308]))
    for k in ks:
        b = O.round_nneg(*O.pow10_ratio(1, k))
        for d in (-2, -1, 0, 1, 2):
            if 0 < b + d < INF:
                add(b + d, "pow10")
        m = rng.randrange(1, 100)
        add(O.round_nneg(*O.pow10_ratio(m, k)), "pow10")
    # 2^53 neighbourhood and half-integers around 2^52
    for k in range(-12, 13):
        add(d2b(float(2 ** 53 + 2 * k)), "p53")
        add(d2b(float(2 ** 53 - 1 + k)) if k <= 0 else d2b(float(2 ** 53 + k)), "p53")
        add(d2b(2.0 ** 52 + k + 0.5) if k < 0 else d2b(2.0 ** 51 + k + 0.25), "p53")
    # subnormals
    for _ in range(24):
        add(rng.randrange(1, 1 << 52), "subnormal")
        add(1 << rng.randrange(0, 52), "subnormal")
    return out, tag


def tie_doubles(rng, n):
    """dyadic rationals with few fraction bits: exact decimal ties at some digit position"""
    out = []
    for _ in range(n):
        j = rng.randrange(1, 12)
        num = rng.randrange(1, 1 << rng.randrange(j, j + 20)) | 1
        x = num / float(1 << j)
        if rng.random() < 0.3:
            x *= 2.0 ** rng.randrange(-30, 30)
        if rng.random() < 0.5:
            x = -x
        out.append(d2b(x))
    # decimal ties d.d5 scaled: k * 5 / 10^j representable exactly only for small j: (2k+1)/2^j covers them
    return out


def small_decimal_doubles(rng, n):
    """nearest doubles of short decimals m * 10^e: where shortest output is short and toFixed/toPrecision
    rounding positions sit right at the inexactness of the binary value"""
    out = []
    for _ in range(n):
        m = rng.randrange(1, 10 ** rng.randrange(1, 8))
        e = rng.randrange(-30, 25) if rng.random() < 0.8 else rng.randrange(-320, 300)
        b = O.round_nneg(*O.pow10_ratio(m, e))
        if 0 < b < INF:
            out.append(b | (SIGN if rng.random() < 0.3 else 0))
    return out


def random_doubles(rng, n):
    out = []
    for _ in range(n):
        b = rng.getrandbits(64)
        if (b & ~SIGN) >= INF and rng.random() < 0.9:
            b &= ~(1 << 62)
        out.append(b)
    return out


def int_doubles(rng, n):
    out = []
    for _ in range(n):
        w = rng.randrange(1, 70)
        v = rng.getrandbits(w) | (1 << (w - 1))
        r = rng.random()
        if r < 0.15:
            v = (1 << w) - 1
        elif r < 0.3:
            v = 1 << w
        elif r < 0.4:
            v = 10 ** rng.randrange(0, 22) + rng.choice((-1, 0, 1))
        b = O.round_nneg(max(v, 0), 1)
        out.append(b | (SIGN if rng.random() < 0.3 else 0))
    return out


# ------------------------------------------------------------------------------------------------
# per-double op lines

DIGIT_EDGE = ["u", "0", "1", "2", "20", "21", "99", "100", "101", "-1", "inf", "-inf", "nan", "1.9", "-0.5", "4294967296"]


def exact_decimal(bits):
    """exact decimal expansion of |x| as (digits str without leading zeros, exponent e): value = 0.d1d2... * 10^e"""
    a, b = O.ratio(bits & ~SIGN)
    # b is a power of two: multiply through by 5^k
    k = b.bit_length() - 1
    n = a * 5 ** k          # value = n / 10^k
    s = str(n)
    return s, len(s) - k


def tie_positions(bits):
    """digit counts at which rounding |x| is an exact tie or near the end of the exact expansion"""
    u = bits & ~SIGN
    if u == 0 or u >= INF:
        return [], 0
    s, e = exact_decimal(bits)
    s = s.rstrip("0")
    return s, e


def double_ops(rng, bits, heavy):
    """lines for one double; `heavy` = more digit counts"""
    h = hx(bits)
    lines = [("tostr", "tostr " + h), ("rt", "rt " + h)]
    u = bits & ~SIGN
    fin = u < INF
    sig, e10 = tie_positions(bits) if fin and u else ("", 0)
    nsig = len(sig)
    # toFixed: digit counts around the end of the exact expansion (ties) + random + edges
    ds = set()
    if fin and u:
        frac_len = nsig - e10                 # number of fraction digits in the exact expansion
        for d in (frac_len - 1, frac_len, frac_len - 2):
            if 0 <= d <= 100:
                ds.add(str(d))
    for _ in range(3 if heavy else 1):
        ds.add(str(rng.randrange(0, 101)))
    ds.add(rng.choice(DIGIT_EDGE))
    if heavy:
        ds.update(["0", "20", "100"])
    for d in sorted(ds):
        lines.append(("fixed", "fixed %s %s" % (h, d)))
    # toExponential / toPrecision: significant digit counts around the end of the exact expansion
    es, ps = set(), set()
    if fin and u:
        for p in (nsig - 1, nsig, nsig - 2):
            if 1 <= p <= 100:
                ps.add(str(p))
            if 0 <= p - 1 <= 100:
                es.add(str(p - 1))
    for _ in range(3 if heavy else 1):
        es.add(str(rng.randrange(0, 101)))
        ps.add(str(rng.randrange(1, 101)))
    es.add(rng.choice(DIGIT_EDGE))
    ps.add(rng.choice(DIGIT_EDGE))
    if heavy:
        es.update(["u", "0", "100"])
        ps.update(["1", "21", "100"])
    for d in sorted(es):
        lines.append(("exp", "exp %s %s" % (h, d)))
    for d in sorted(ps):
        lines.append(("prec", "prec %s %s" % (h, d)))
    # toString(radix)
    rs = {str(rng.randrange(2, 37))}
    if heavy:
        rs.update(["2", "16", "36", str(rng.randrange(2, 37))])
    if rng.random() < 0.1:
        rs.add(rng.choice(["1", "37", "0", "-2", "inf", "nan", "u", "10", "10.7", "2.9"]))
    for r in sorted(rs):
        lines.append(("radix", "radix %s %s" % (h, r)))
    return lines


# ------------------------------------------------------------------------------------------------
# strings

WS_CHARS = [" ", "\t", "\n", "\r", "\u000b", "\u000c", " ", "﻿", " ", " ", " ", " ", " ", " ",
            " ", " ", "　"]
NOT_WS = ["᠎", "​", "\u0085", "⁠"]


def dec_variants(rng, bits):
    """decimal spellings whose exact value is the shortest representation of the double (so the expected
    result is the double itself) and perturbed spellings (expected result computed by the oracle)"""
    s, k, n = O.shortest(bits)
    ds = str(s)
    out = []
    e = n - k
    out.append("%se%d" % (ds, e))
    out.append("%sE%+d" % (ds, e))
    out.append("%s.%se%d" % (ds[0], ds[1:] or "0", n - 1))
    out.append("0.%se%d" % (ds, n))
    out.append("%s%se%d" % ("0" * rng.randrange(1, 5), ds, e))
    out.append("%s.e%d" % (ds, e))
    z = rng.randrange(1, 40)
    out.append("%s%se%d" % (ds, "0" * z, e - z))
    if -30 <= e <= 30:
        if e >= 0:
            out.append(ds + "0" * e)
            out.append(ds + "0" * e + ".000")
        else:
            if -e < len(ds):
                out.append(ds[:e] + "." + ds[e:])
            else:
                out.append("." + "0" * (-e - len(ds)) + ds)
                out.append("0." + "0" * (-e - len(ds)) + ds)
    return out


def midpoint_strings(rng, bits):
    """exact decimal expansion of the midpoint between |x| and its successor (a tie for StringToNumber: must go
    to the even pattern), and the same with a trailing digit that breaks the tie"""
    u = bits & ~SIGN
    if not (0 <= u < INF - 1):
        return []
    a1, b1 = O.ratio(u)
    a2, b2 = O.ratio(u + 1)
    # midpoint = (a1/b1 + a2/b2)/2
    num = a1 * b2 + a2 * b1
    den = 2 * b1 * b2
    k = den.bit_length() - 1
    n = num * 5 ** k          # value = n / 10^k
    s = str(n)
    if k == 0:
        txt = s
    elif len(s) > k:
        txt = s[:-k] + "." + s[-k:]
    else:
        # use exponent form to avoid hundreds of leading zeros
        txt = s[0] + "." + s[1:] + "e" + str(len(s) - 1 - k)
    if "e" in txt:
        m, ex = txt.split("e")
        return [txt, m + "1e" + ex, m + "0000000000000000000000001e" + ex, lower_last(m) + "e" + ex]
    if "." not in txt:
        return [txt, txt + ".0000000000000000000000000001", txt + ".0", str(n - 1)]
    return [txt, txt + "1", txt + "0000000000000000000000001", lower_last(txt)]


def lower_last(m):
    """the decimal just below m: decrement the last digit (m does not end in 0 after the point for a midpoint) and append 9s"""
    i = len(m) - 1
    while i >= 0 and m[i] in "0.":
        i -= 1
    if i < 0:
        return m
    return m[:i] + str(int(m[i]) - 1) + m[i + 1:].replace("0", "9") + "9999999999999999999999"


MALFORMED = [
    "", " ", "\t\n", ".", "+", "-", "+.", "-.", "e5", ".e5", "1e", "1e+", "1e-", "1e+-5", "1.5.5", "1..5", "1,5", "1 2", "- 1", "+ 1", "+-1", "--1", "++1",
    "1_000", "1_0", "_1", "1_", "0x", "0X", "0b", "0o", "0x+10", "0x-10", "-0x10", "+0x10", "0b2", "0o8", "0xg", "0x1.8", "0b1e1", "0x 1", "0x1 ",
    "0x1_0", "1n", "0n", "Infinity", "+Infinity", "-Infinity", "infinity", "INFINITY", "Inf", "inf", "-inf", "+inf", "-Inf", "+infinity", "-infinity",
    "-INFINITY", "Infinityx", "Infinit", " Infinity ", "nan", "NaN", "-nan", "+NaN", "NAN", "١٢٣", "１２３", "1e1000", "-1e1000", "1e-1000", "-1e-1000",
    "0e1000", "-0", "+0", "-0.0", "0.0e-999", "00", "007", "08", "0.", ".0", "5.", "5.e1", ".5e1", "0x10", "0X1f", "0b101", "0B11", "0o17", "0O7",
    "1e21", "1e-7", "12e-1", "﻿12 ", "᠎1", "1᠎", "​1", "1\u0000", "\u00001", "1e5x", "1x", "x1", "0xFFFFFFFF", "0x100000000",
    "0x1FFFFFFFFFFFFF", "0x20000000000001", "0x20000000000003", "0x3FFFFFFFFFFFFF8", "0xFFFFFFFFFFFFFBFF", "0xFFFFFFFFFFFFFC00",
    "0b" + "1" * 54, "0b1" + "0" * 52 + "1" + "1", "0b1" + "0" * 52 + "1" + "0" * 10 + "1", "0o" + "7" * 30, "0x" + "f" * 300,
    "0x" + "8" * 256 + "8", "1" + "0" * 400, "0." + "0" * 400 + "1", "9" * 400 + "e-400", "1e309", "1.7976931348623158e308", "1.7976931348623159e308",
    "179769313486231580793728971405303415079934132710037826936173778980444968292764750946649017977587207096330286416692887910946555547851940402630657488671505820681908902000708383676273854845817711531764475730270069855571366959622842914819860834936475292719074168444365510704342711559699508093042880177904174497791.9999999999999999999999999999999",
    "179769313486231580793728971405303415079934132710037826936173778980444968292764750946649017977587207096330286416692887910946555547851940402630657488671505820681908902000708383676273854845817711531764475730270069855571366959622842914819860834936475292719074168444365510704342711559699508093042880177904174497792",
    "2.4703282292062327208051355972539e-324", "2.4703282292062328e-324", "2.47032822920623272e-324", "4.9e-324", "3e-324", "2e-324",
    "9007199254740993", "9007199254740992.5", "9007199254740992.500000000000000000000000000001", "9007199254740993.0000000000000000000001",
    "9007199254740994.99999999999999999999", "18014398509481985", "1.00000000000000011102230246251565404236316680908203125",
    "1.00000000000000011102230246251565404236316680908203124", "1.00000000000000011102230246251565404236316680908203126",
    "0.500000000000000166533453693773481063544750213623046875", "1e23", "8.41e21", "2.2250738585072011e-308", "2.2250738585072012e-308",
    "6.631236871469758276785396630275967243399099947355303144249971758736286630139265439618068200788048744105960420552601852889715006376325666595539603330361800519107591783233358492337208057849499360899425128640718856616503093444922854759159988160304439909868291973931426625698663157749836252274523485312442358651207051292453083278116143932569727918709786004497872322193856150225415211997283078496319412124640111777216148110752815101775295719811974338451936095907419622417538473679495148632480391435931767981122396703443803335529756003353209830071832230689201383015598792184172909927924176339315507402234836120730914783168400715462440053817592702766213559042115986763819482654128770595766806872783349146967171293949598850675682115696218943412532098591327667236328125e-316",
]


def mutate(rng, s):
    if not s:
        return rng.choice("0e._x")
    r = rng.random()
    i = rng.randrange(len(s))
    if r < 0.25:
        return s[:i] + s[i + 1:]
    if r < 0.5:
        return s[:i] + s[i] + s[i:]
    if r < 0.8:
        return s[:i] + rng.choice("_.0e9xE5") + s[i:]
    j = rng.randrange(len(s))
    l = list(s)
    l[i], l[j] = l[j], l[i]
    return "".join(l)


def wrap_ws(rng, s):
    r = rng.random()
    if r < 0.6:
        return s
    pre = "".join(rng.choice(WS_CHARS) for _ in range(rng.randrange(0, 3)))
    post = "".join(rng.choice(WS_CHARS) for _ in range(rng.randrange(0, 3)))
    if r > 0.97:
        pre += rng.choice(NOT_WS)
    return pre + s + post


def sign(rng, s):
    r = rng.random()
    return s if r < 0.6 else ("-" + s if r < 0.85 else "+" + s)


def number_strings(rng, doubles, n_mut):
    """(stream, text) for Number()/parseFloat: valid spellings of the doubles, midpoints, malformed list, mutations"""
    out = []
    for b in doubles:
        u = b & ~SIGN
        if 0 < u < INF:
            vs = dec_variants(rng, u)
            for v in rng.sample(vs, min(3, len(vs))):
                out.append(("valid", wrap_ws(rng, sign(rng, v))))
            if rng.random() < 0.5:
                ms = midpoint_strings(rng, u)
                for v in rng.sample(ms, min(2, len(ms))):
                    out.append(("midpoint", sign(rng, v)))
    for m in MALFORMED:
        out.append(("edge", m))
    valid = [t for _, t in out if t]
    for _ in range(n_mut):
        out.append(("mutated", mutate(rng, rng.choice(valid))[:900]))
    return out


DIG = "0123456789abcdefghijklmnopqrstuvwxyz"


def to_radix(v, r):
    if v == 0:
        return "0"
    s = ""
    while v:
        s = DIG[v % r] + s
        v //= r
    return s


PI_EDGE = [
    ("", "u"), ("-", "u"), ("+", "10"), ("0x", "u"), ("0x", "16"), ("0xg", "16"), ("0x1f", "u"), ("0x1f", "16"), ("0X1F", "0"), ("0x1f", "10"), ("0x1f", "36"),
    ("-0x1f", "u"), ("  -12abc", "u"), ("-0", "u"), ("-0", "10"), ("0", "u"), ("00012", "u"), ("12", "1"), ("12", "37"), ("12", "-1"), ("12", "0"),
    ("12", "4294967306"), ("12", "-4294967286"), ("12", "inf"), ("12", "nan"), ("12", "10.9"), ("12", "2.5"), ("12", "36"), ("zz", "36"), ("ZZ", "36"),
    ("1e3", "u"), ("1.9", "u"), ("١٢", "u"), ("12١", "u"), (" ﻿ 42", "u"), ("᠎42", "u"), ("1_000", "u"), ("Infinity", "u"), ("Infinity", "36"),
    ("1234567890123456789", "u"), ("9007199254740993", "u"), ("9007199254740992", "u"), ("18014398509481985", "10"), ("123456789012345678901", "u"),
    ("1234567890123456789012345", "u"), ("99999999999999999999", "u"), ("100000000000000000000", "10"), ("1" + "0" * 53 + "1", "2"),
    ("1" + "0" * 52 + "11", "2"), ("1" + "0" * 52 + "1" + "0" * 9 + "1", "2"), ("1" * 54, "2"), ("1" * 64, "2"), ("7" * 22, "8"), ("3" * 33, "4"),
    ("f" * 14, "16"), ("f" * 16, "16"), ("f" * 17, "16"), ("20000000000001", "16"), ("0x20000000000001", "u"), ("20000000000003", "16"),
    ("v" * 11, "32"), ("g000000000000001", "32"), ("10000000000g", "32"), ("1000000000g1", "32"), ("1" + "0" * 400, "u"), ("9" * 310, "10"),
    ("z" * 200, "36"), ("1" * 1100, "2"),
]


def parse_int_cases(rng, n):
    out = list(PI_EDGE)
    for _ in range(n):
        r = rng.randrange(2, 37)
        rr = rng.random()
        if rr < 0.35:
            r = rng.choice([2, 4, 8, 10, 16, 32])
        w = rng.randrange(1, 80)
        v = rng.getrandbits(w) | (1 << (w - 1))
        if rng.random() < 0.2:
            v = 2 ** rng.randrange(50, 70) + rng.choice((-1, 0, 1, 2, 3))
        if rng.random() < 0.15 and r == 10:
            v = rng.randrange(10 ** 16, 10 ** 21)
        s = to_radix(v, r)
        if rng.random() < 0.3:
            s = s.upper()
        s = sign(rng, s)
        if rng.random() < 0.2:
            s += rng.choice(["", ".5", "z", " ", "_", "e3", "n"])
        if rng.random() < 0.15:
            s = wrap_ws(rng, s)
        arg = str(r)
        if r == 10 and rng.random() < 0.5:
            arg = rng.choice(["u", "0"])
        if r == 16 and rng.random() < 0.4:
            s0 = s.lstrip("+-")
            s = s[:len(s) - len(s0)] + rng.choice(["0x", "0X"]) + s0
            arg = rng.choice(["u", "16", "0"])
        out.append((s, arg))
    return out


LIT_EDGE = [
    "0b1e1", "0o7e1", "0B1E2", "0b1_0e1", "0o1e+1", "0x1e1", "0", "00", "007", "08", "09.5", "08e1", "07e1", "07.5", "0.5", ".5", "5.", "5.e1", ".5e1", "1e3", "1E3", "1e+3", "1e-3", "1e", "1e+", "0x10", "0X1F",
    "0b101", "0B11", "0o17", "0O7", "0x", "0b", "0o", "0b2", "0o8", "0xg", "1_000", "1_0.0_1e1_0", "1__0", "_1", "1_", "1_.5", "1._5", "1e_5", "1e5_",
    "0_1", "0x1_0", "0x_1", "0x1_", "0b1_0", "0o1_7", "01_0", "09_1", "0.0_1", "1.5.5", "1e1000", "1e-1000", "0e1000", "9007199254740993",
    "9007199254740992.5", "0x20000000000001", "0x20000000000003", "0xFFFFFFFFFFFFFBFF", "0xFFFFFFFFFFFFFC00", "0b1" + "0" * 52 + "11",
    "0o" + "7" * 30, "0x" + "f" * 300, "0777777777777777777777", "0" * 20 + "9", "1" + "0" * 400, "0." + "0" * 400 + "1",
    "2.4703282292062327208051355972539e-324", "2.4703282292062328e-324", "1.7976931348623158e308", "1.7976931348623159e308",
    "1.00000000000000011102230246251565404236316680908203125", "4.35", "0.1", "123456789012345680000", "2147483647", "2147483648", "4294967296",
]


def literal_ok_for_compare(s):
    """exclude texts that are valid JavaScript *expressions* although not a single NumericLiteral (the harness
    evaluates `(text)`): anything with a sign next to hex digits, BigInt suffix, member access on a literal"""
    if not s or s[0] not in "0123456789.":
        return False
    if any(c not in "0123456789abcdefABCDEFxXoO._+-" for c in s):
        return False
    nsign = s.count("+") + s.count("-")
    if nsign > 1:
        return False
    nondec = len(s) > 1 and s[0] == "0" and s[1] in "xXbBoO"
    if nsign == 1:
        i = max(s.find("+"), s.find("-"))
        if nondec or i == 0 or s[i - 1] not in "eE" or i + 1 >= len(s) or s[i + 1] not in "0123456789":
            return False
        if any(c in "abcdfABCDFxXoO" for c in s):
            return False
        if s.count("e") + s.count("E") != 1 or s.count(".") > 1:
            return False            # `2e5.e-3` is the expression (2e5).e - 3, `1..e-6` is (1.).e - 6
    if nondec and "." in s:
        return False
    if len(s) > 1 and s[0] == "0" and s[1] in "0123456789_" and "." in s:
        # 07.e1 style member access / 08.5 is fine but keep only the plain digit.digit form
        head, _, tail = s.partition(".")
        if not (head.isdigit() and tail.isdigit() and any(c in "89" for c in head)):
            return False
    return True


def literal_cases(rng, doubles, n_mut):
    out = [("edge", s) for s in LIT_EDGE]
    valid = []
    for b in doubles:
        u = b & ~SIGN
        if 0 < u < INF:
            for v in rng.sample(dec_variants(rng, u), 2):
                if rng.random() < 0.3 and len(v) > 2:
                    # insert a numeric separator between two digits
                    idx = [i for i in range(1, len(v)) if v[i - 1].isdigit() and v[i].isdigit()]
                    if idx and not (v[0] == "0" and len(v) > 1 and v[1].isdigit()):
                        i = rng.choice(idx)
                        v = v[:i] + "_" + v[i:]
                valid.append(v)
                out.append(("valid", v))
            if rng.random() < 0.3:
                ms = midpoint_strings(rng, u)
                if ms:
                    out.append(("midpoint", rng.choice(ms)))
        if u < INF and u and rng.random() < 0.3:
            iv = O.ratio(u)
            if iv[1] == 1 and iv[0] < 2 ** 70:
                r = rng.choice([2, 8, 16])
                out.append(("valid", {2: "0b", 8: "0o", 16: "0x"}[r] + to_radix(iv[0] + rng.randrange(0, 3), r)))
    for _ in range(n_mut):
        out.append(("mutated", mutate(rng, rng.choice(valid + LIT_EDGE))[:900]))
    return [(k, s) for k, s in out if literal_ok_for_compare(s)]
