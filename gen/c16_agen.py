"""C16: JavaScript-only generator for async generators / for-await (outside the Gallina promise model).

These programs are compared boa-mode against boa-mode (the property's second sentence); V8 is consulted
only to annotate (never to raise or withhold a mode-vs-mode alarm).  A "tick chain" prints t0, t1, ... one
per microtask turn so that the position of every async-generator step relative to plain promise jobs is
part of the trace.
"""
from c16_gen import PRELUDE

SHOW_IT = ('function showr(r){ return show(r.value) + (r.done ? "!" : ""); }\n')


class AGen:
    def __init__(self, rng):
        self.r = rng
        self.n = 0
        self.feat = set()

    def lab(self, p):
        self.n += 1
        return '%s%d' % (p, self.n)

    def val(self, depth=0):
        k = self.r.choice(['num', 'num', 'presolve', 'preject', 'thenable', 'undef', 'nested'] if depth < 1 else ['num', 'presolve', 'undef'])
        if k == 'num':
            return str(self.r.randrange(100))
        if k == 'undef':
            return 'undefined'
        if k == 'presolve':
            return 'Promise.resolve(%d)' % self.r.randrange(100)
        if k == 'preject':
            self.feat.add('yield-rejected')
            return 'Promise.reject(%d)' % self.r.randrange(100)
        if k == 'thenable':
            self.feat.add('thenable')
            l = self.lab('T')
            how = self.r.choice(['res(%d)' % self.r.randrange(100), 'rej(%d)' % self.r.randrange(100),
                                 'Promise.resolve().then(() => res(%d))' % self.r.randrange(100)])
            return '({k:"T", then(res, rej) { print("%s"); %s; }})' % (l, how)
        return 'Promise.resolve(%s)' % self.val(depth + 1)

    def gen_body(self, gi, ngens, depth=0):
        out = ['print("%s");' % self.lab('g%d-' % gi)]
        for _ in range(self.r.randrange(1, 5)):
            k = self.r.choice(['yield', 'yield', 'xyield', 'await', 'ystar', 'try', 'print'])
            if k == 'yield':
                out.append('yield %s;' % self.val())
            elif k == 'xyield':
                out.append('x = yield %s; print("%s " + show(x));' % (self.val(), self.lab('g%d-x' % gi)))
            elif k == 'await':
                self.feat.add('await-in-agen')
                out.append('x = await %s; print("%s " + show(x));' % (self.val(), self.lab('g%d-a' % gi)))
            elif k == 'ystar':
                self.feat.add('yield*')
                inner = self.r.choice(['arr', 'sgen', 'agen'] if gi + 1 < ngens else ['arr', 'sgen'])
                if inner == 'arr':
                    out.append('x = yield* [%s, %s]; print("%s " + show(x));' % (self.val(1), self.val(1), self.lab('g%d-s' % gi)))
                elif inner == 'sgen':
                    out.append('x = yield* (function*(){ var y = yield %s; print("%s " + show(y)); return %d; })(); print("%s " + show(x));'
                               % (self.val(1), self.lab('sg'), self.r.randrange(100), self.lab('g%d-s' % gi)))
                else:
                    out.append('x = yield* g%d(%d); print("%s " + show(x));' % (gi + 1, self.r.randrange(100), self.lab('g%d-s' % gi)))
            elif k == 'try' and depth < 1:
                self.feat.add('try-finally')
                inner = self.gen_body(gi, ngens, depth + 1)
                out.append('try { %s } catch (e) { print("%s " + show(e)); } finally { print("%s"); }'
                           % (' '.join(inner[1:]), self.lab('g%d-c' % gi), self.lab('g%d-f' % gi)))
            else:
                out.append('print("%s");' % self.lab('g%d-p' % gi))
        e = self.r.choice(['ret', 'ret', 'retp', 'throw', 'none'])
        if depth == 0:
            if e == 'ret':
                out.append('return %d;' % self.r.randrange(100))
            elif e == 'retp':
                self.feat.add('return-promise')
                out.append('return %s;' % self.val())
            elif e == 'throw':
                out.append('throw %d;' % self.r.randrange(100))
        return out

    def consumer(self, ci, ngens):
        gi = self.r.randrange(ngens)
        k = self.r.choice(['forawait', 'forawait', 'manual', 'forawait-sync'])
        if k == 'forawait':
            self.feat.add('for-await')
            brk = self.r.choice(['', '', 'if (v === %d) break;' % self.r.randrange(100), 'await 0;', 'if (n++ == 1) break;'])
            return ('(async function c%d() { var n = 0; try { for await (const v of g%d(%d)) { print("c%d " + show(v)); %s } print("c%d done"); } '
                    'catch (e) { print("c%d err " + show(e)); } })();' % (ci, gi, ci, ci, brk, ci, ci))
        if k == 'forawait-sync':
            self.feat.add('for-await-sync-iterable')
            return ('(async function c%d() { try { for await (const v of [%s, %s, %s]) { print("c%d " + show(v)); } print("c%d done"); } '
                    'catch (e) { print("c%d err " + show(e)); } })();' % (ci, self.val(), self.val(), self.val(), ci, ci, ci))
        self.feat.add('manual-next')
        calls = []
        for j in range(self.r.randrange(2, 6)):
            m = self.r.choice(['next', 'next', 'next', 'return', 'throw'])
            arg = self.val(1)
            calls.append('it%d.%s(%s).then(r => print("m%d.%d " + showr(r)), e => print("m%d.%d err " + show(e)));' % (ci, m, arg, ci, j, ci, j))
        return 'var it%d = g%d(%d); %s' % (ci, gi, ci, ' '.join(calls))

    def program(self):
        ngens = self.r.choice([1, 2, 2, 3])
        lines = [PRELUDE.rstrip('\n'), SHOW_IT.rstrip('\n'), 'var x;']
        for gi in range(ngens):
            body = self.gen_body(gi, ngens)
            lines.append('async function* g%d(a) { var x; %s }' % (gi, ' '.join(body)))
        nticks = self.r.randrange(6, 14)
        main = []
        for ci in range(self.r.randrange(1, 4)):
            main.append(self.consumer(ci, ngens))
        tick = 'Promise.resolve()' + ''.join('.then(() => print("t%d"))' % i for i in range(nticks)) + ';'
        main.insert(self.r.randrange(len(main) + 1), tick)
        main.append('print("end");')
        return {'js': '\n'.join(lines) + '\n' + '\n'.join(main) + '\n', 'js_cuts': '\n'.join(lines) + '\n//#CUT\n' + '\n//#CUT\n'.join(main) + '\n',
                'features': sorted(self.feat), 'kind': 'asyncgen'}


def generate(rng):
    return AGen(rng).program()
