"""C18 generators, parse side: JSON texts as lists of UTF-16 code units.

Three streams (all seeded by the rng passed in):
  grammar      texts derived from the ECMA-404 grammar with random white space, every escape form, raw and escaped
               lone surrogates, U+2028/2029, duplicate keys, __proto__ keys, array-index keys, all number forms
  adversarial  a fixed list of edge texts (accept and reject side)
  mutants      one token or one code unit of a valid text deleted / inserted / replaced / duplicated / swapped
  deep         nesting probes (arrays, objects, mixed) at given depths
Every case is a dict {"kind", "units", "tags"}; tags feed the measured distribution in the evidence.
"""

WS = [0x20, 0x09, 0x0A, 0x0D]


def u(s):
    """code units of a Python str (astral characters as surrogate pairs)"""
    out = []
    for ch in s:
        c = ord(ch)
        if c >= 0x10000:
            c -= 0x10000
            out += [0xD800 + (c >> 10), 0xDC00 + (c & 0x3FF)]
        else:
            out.append(c)
    return out


def ws(rng, p=0.25):
    out = []
    while rng.random() < p:
        out.append(rng.choice(WS))
    return out


# ---------------------------------------------------------------------------------------------
# numbers

MAX_INT = int(float.fromhex("0x1.fffffffffffffp+1023"))     # Number.MAX_VALUE as an integer (309 digits)
HALFWAY = (1 << 1024) - (1 << 970)                           # first value that rounds to Infinity


def gen_near_max(rng):
    """a number token within a few units (in some digit position) of Number.MAX_VALUE or of the overflow threshold, in one of several
    spellings (d.ddde308, dddde292, the plain 309-digit integer, leading zeros after the point, trailing zeros before the exponent)"""
    if rng.random() < 0.25:
        base = HALFWAY + rng.choice([1, -1]) * rng.randrange(0, 10 ** rng.choice([1, 100, 290]))
    else:
        base = MAX_INT + rng.choice([0, 1, -1]) * rng.randrange(0, 10 ** rng.choice([280, 290, 292, 293, 295, 300, 308]))
    ds = str(base)
    d = ds[:rng.choice([15, 16, 17, 17, 18, 19, 20, 21, 22, 25, 40, len(ds)])]
    e = len(ds) - 1
    form = rng.random()
    if form < 0.4:
        t = d[0] + ("." + d[1:] if len(d) > 1 else "") + rng.choice(["e", "E", "e+"]) + str(e)
    elif form < 0.6:
        t = d + "e" + str(e - len(d) + 1)
    elif form < 0.75:
        t = ds + rng.choice(["", ".0", ".5", ".99999", "e0", "E-0"])
    elif form < 0.9:
        k = rng.randrange(1, 30)
        t = "0." + "0" * k + d + "e" + str(e + k + 1)
    else:
        k = rng.randrange(1, 25)
        t = d + "0" * k + "e" + str(e - len(d) + 1 - k)
    if rng.random() < 0.2:
        t = "-" + t
    return u(t)


def gen_number(rng, tags):
    r = rng.random()
    if r < 0.03:
        tags.add("num-near-max")
        return gen_near_max(rng)
    if r < 0.08:
        tags.add("num-overflow")
        return u(rng.choice(["1e400", "-1e400", "1E309", "9e999", "123456789e301", "1.7976931348623159e308", "2e308"]))
    if r < 0.14:
        tags.add("num-underflow")
        return u(rng.choice(["1e-400", "-1e-400", "4.9e-324", "2.4e-324", "2.5e-324", "5e-325", "0.0e999999", "1e-999999"]))
    if r < 0.20:
        tags.add("num-negzero")
        return u(rng.choice(["-0", "-0.0", "-0e0", "-0E+5", "-0.000"]))
    if r < 0.28:
        tags.add("num-rounding")
        return u(rng.choice(["9007199254740993", "9007199254740992.5", "0.1", "0.30000000000000004", "1.7976931348623157e308",
                             "2.2250738585072014e-308", "2.2250738585072011e-308", "123456789012345678901234567890",
                             "0.000001", "1e21", "1e-7", "4.35", "0.5e-323", "1.00000000000000011102230246251565404236316680908203125",
                             "1.00000000000000011102230246251565404236316680908203124", "8.41e21", "5e-324", "179769313486231580793728971405303415079934132710037826936173778980444968292764750946649017977587207096330286416692887910946555547851940402630657488671505820681908902000708383676273854845817711531764475730270069855571366959622842914819860834936475292719074168444365510704342711559699508093042880177904174497791.9999999999999999999999999999999999999"]))
    t = []
    if rng.random() < 0.3:
        t.append(0x2D)
    if rng.random() < 0.15:
        t.append(0x30)
    else:
        t.append(rng.randrange(0x31, 0x3A))
        for _ in range(rng.choice([0, 0, 1, 2, 5, 17, 25]) if rng.random() < 0.7 else 0):
            t.append(rng.randrange(0x30, 0x3A))
    if rng.random() < 0.4:
        tags.add("num-frac")
        t.append(0x2E)
        for _ in range(rng.choice([1, 1, 2, 3, 18, 30])):
            t.append(rng.randrange(0x30, 0x3A))
    if rng.random() < 0.35:
        tags.add("num-exp")
        t.append(rng.choice([0x65, 0x45]))
        s = rng.random()
        if s < 0.33:
            t.append(0x2B)
        elif s < 0.66:
            t.append(0x2D)
        for _ in range(rng.choice([1, 1, 2, 3])):
            t.append(rng.randrange(0x30, 0x3A))
    return t


# ---------------------------------------------------------------------------------------------
# strings

SIMPLE_ESC = {0x22: 0x22, 0x5C: 0x5C, 0x2F: 0x2F, 0x08: 0x62, 0x0C: 0x66, 0x0A: 0x6E, 0x0D: 0x72, 0x09: 0x74}
INTERESTING_UNITS = [0x0000, 0x0001, 0x0008, 0x0009, 0x000A, 0x000C, 0x000D, 0x001F, 0x0020, 0x0022, 0x002F, 0x005C, 0x007F, 0x0080,
                     0x00A0, 0x00E9, 0x2028, 0x2029, 0xFEFF, 0xFFFE, 0xFFFF, 0xD7FF, 0xD800, 0xDBFF, 0xDC00, 0xDFFF, 0xE000]


def hex4(c, rng):
    h = "%04x" % c
    if rng.random() < 0.4:
        h = h.upper()
    elif rng.random() < 0.2:
        h = "".join(ch.upper() if rng.random() < 0.5 else ch for ch in h)
    return [ord(x) for x in h]


def gen_string_value(rng, tags, maxlen=8):
    """the code units the string denotes"""
    n = rng.choice([0, 1, 1, 2, 3, 5, maxlen])
    out = []
    for _ in range(n):
        r = rng.random()
        if r < 0.35:
            out.append(rng.randrange(0x20, 0x7F))
        elif r < 0.65:
            out.append(rng.choice(INTERESTING_UNITS))
        elif r < 0.75:
            out += [rng.randrange(0xD800, 0xDC00), rng.randrange(0xDC00, 0xE000)]     # well-formed pair
        elif r < 0.82:
            out.append(rng.randrange(0xD800, 0xE000))                                 # probably lone
        else:
            out.append(rng.randrange(0, 0x10000))
    return out


def write_string(rng, val, tags, raw_surrogates=True):
    """a JSON string token denoting val; the escape form of each unit is chosen at random"""
    t = [0x22]
    for i, c in enumerate(val):
        must_escape = c < 0x20 or c in (0x22, 0x5C)
        is_sur = 0xD800 <= c <= 0xDFFF
        r = rng.random()
        if c in SIMPLE_ESC and (must_escape or r < 0.3) and rng.random() < 0.7:
            t += [0x5C, SIMPLE_ESC[c]]
            tags.add("esc-simple")
        elif must_escape or r < 0.15 or (is_sur and (not raw_surrogates or r < 0.5)):
            t += [0x5C, 0x75] + hex4(c, rng)
            tags.add("esc-u")
            if is_sur:
                tags.add("esc-surrogate")
        else:
            t.append(c)
            if is_sur:
                tags.add("raw-surrogate")
            if c in (0x2028, 0x2029):
                tags.add("raw-2028")
    t.append(0x22)
    return t


KEYS = [u("a"), u("b"), u("c"), u("__proto__"), u("constructor"), u("toString"), u("length"), u("0"), u("1"), u("2"), u("10"),
        u("01"), u("-1"), u("4294967294"), u("4294967295"), u("1e3"), u(""), u(" "), u("a b"), u("\u00e9"), [0xD800], u("toJSON"), u("9"), u("1.5")]


def gen_key(rng, tags, used):
    r = rng.random()
    if used and r < 0.2:
        tags.add("dup-key")
        return list(rng.choice(used))
    if r < 0.75:
        k = list(rng.choice(KEYS))
    else:
        k = gen_string_value(rng, tags, 4)
    if k == u("__proto__"):
        tags.add("proto-key")
    if k and all(0x30 <= c <= 0x39 for c in k):
        tags.add("index-key")
    used.append(k)
    return k


# ---------------------------------------------------------------------------------------------
# values

def gen_value(rng, depth, tags, budget):
    """returns code units of a valid JSON value (no surrounding white space)"""
    budget[0] -= 1
    leaf = depth <= 0 or budget[0] <= 0 or rng.random() < 0.35
    if leaf:
        r = rng.random()
        if r < 0.12:
            return u("null")
        if r < 0.2:
            return u("true")
        if r < 0.28:
            return u("false")
        if r < 0.62:
            return gen_number(rng, tags)
        return write_string(rng, gen_string_value(rng, tags), tags)
    if rng.random() < 0.5:
        n = rng.choice([0, 1, 1, 2, 3, 4])
        t = [0x5B] + ws(rng)
        for i in range(n):
            if i:
                t += [0x2C]
            t += ws(rng) + gen_value(rng, depth - 1, tags, budget) + ws(rng)
        if n == 0:
            tags.add("empty-array")
        return t + [0x5D]
    n = rng.choice([0, 1, 1, 2, 3, 4])
    t = [0x7B] + ws(rng)
    used = []
    for i in range(n):
        if i:
            t += [0x2C]
        k = gen_key(rng, tags, used)
        t += ws(rng) + write_string(rng, k, tags) + ws(rng) + [0x3A] + ws(rng) + gen_value(rng, depth - 1, tags, budget) + ws(rng)
    if n == 0:
        tags.add("empty-object")
    return t + [0x7D]


def grammar_case(rng, maxdepth=12):
    tags = set()
    depth = rng.choice([0, 1, 2, 3, 4, 6, maxdepth])
    t = ws(rng, 0.3) + gen_value(rng, depth, tags, [rng.choice([5, 20, 60])]) + ws(rng, 0.3)
    tags.add("depth-%d" % min(max_depth(t), 13))
    return {"kind": "grammar", "units": t, "tags": sorted(tags)}


def max_depth(units):
    d = m = 0
    instr = False
    i = 0
    while i < len(units):
        c = units[i]
        if instr:
            if c == 0x5C:
                i += 1
            elif c == 0x22:
                instr = False
        elif c == 0x22:
            instr = True
        elif c in (0x5B, 0x7B):
            d += 1
            m = max(m, d)
        elif c in (0x5D, 0x7D):
            d -= 1
        i += 1
    return m


# ---------------------------------------------------------------------------------------------
# adversarial fixed texts

ADVERSARIAL = [
    # numbers
    "1e400", "-1e400", "1E400", "[1e400]", '{"a":1e999}', "1e-400", "-0", "-0.0", "[-0]", "1E+2", "1e+2", "1e-2", "1E2",
    "01", "-01", "00", "0", "-", "+1", "+0", ".5", "5.", "5.e1", "0.", "-.5", "0x10", "0X10", "1e", "1e+", "1E-", "1.2.3", "1ee1", "1e1.5",
    "Infinity", "-Infinity", "NaN", "1_000", "1n", "١", "0b1", "0o7", "1,", "1 2", "--1", "- 1", "1e 5", "1 e5", "0e0", "0E-0", "0.0e+0",
    "1.7976931348623157e308", "1.7976931348623158e308", "1.7976931348623159e308", "4.9406564584124654e-324", "2.4703282292062328e-324",
    "2.4703282292062327e-324", "9007199254740993", "18446744073709551616", "-9223372036854775809", "0.1e-999999999999", "1e99999999999999999999",
    "0." + "0" * 400 + "1", "1" + "0" * 400, "-1" + "0" * 309, "0.000000000000000000000000000000000000001e400",
    "1.7976931348623157e+308", "17976931348623157e292", "17976931348623158e292", "0.17976931348623157e309", "-1.7976931348623158e308",
    "179769313486231570814527423731704356798070567525844996598917476803157260780028538760589558632766878171540458953514382464234321326889464182768467546703537516986049910576551282076245490090389328944075868508455133942304583236903222948165808559332123348274797826204144723168738177180919299881250404026184124858368",
    "179769313486231580793728971405303415079934132710037826936173778980444968292764750946649017977587207096330286416692887910946555547851940402630657488671505820681908902000708383676273854845817711531764475730270069855571366959622842914819860834936475292719074168444365510704342711559699508093042880177904174497791",
    "179769313486231580793728971405303415079934132710037826936173778980444968292764750946649017977587207096330286416692887910946555547851940402630657488671505820681908902000708383676273854845817711531764475730270069855571366959622842914819860834936475292719074168444365510704342711559699508093042880177904174497792",
    "18446744073709551615e289", "18446744073709551616e289", "1e2147483647", "1e2147483648", "0e2147483648", "1e-2147483649", "1" + "0" * 400 + "e-100", "1" + "0" * 400 + "e-92",
    # literals
    "true", "false", "null", "True", "NULL", "tru", "nul", "nulll", "truefalse", "true false", "undefined", "void 0",
    # strings
    '""', '"a"', '"\\u0000"', '"\\u0041"', '"\\u00e9"', '"\\uD834\\uDD1E"', '"\\ud800"', '"\\udc00"', '"\\udc00\\ud800"', '"\\ud800\\u0041"',
    '"\\ud800x"', '["\\ud800"]', '{"\\ud800":1}', '"\\uDBFF\\uDFFF"', '"\\uD800\\uD800"', '"\ud800"', '"\udc00"', '"\udbff"', '"a\ud800b"',
    '"\ud800\udc00"', '"\udc00\ud800"', '{"\ud800":1}', '"\\ud800\udc00"', '"\ud800\\udc00"',
    '"\u2028"', '"\u2029"', '"\u2028\u2029"', '"\\u2028"', '"\u007f"', '"\u0080"', '"\u00a0"', '"\ufeff"', '"\uffff"', '"\ufffe"',
    '"\\/"', '"\\b\\f\\n\\r\\t"', '"\\""', '"\\\\"', '"\\\\\\""', '"\\x41"', "\"\\'\"", '"\\v"', '"\\0"', '"\\a"', '"\\e"', '"\\U0041"', '"\\u{41}"',
    '"\\u004"', '"\\u004g"', '"\\u 041"', '"\\u+041"', '"\\u-041"', '"\\uABCD"', '"\\uabcd"', '"\\uAbCd"', '"\\', '"\\"', '"\\u', '"\\u0', '"abc',
    '"\t"', '"\n"', '"\r"', '"\u0000"', '"\u001f"', '"\u0008"', '"a\nb"', "'a'", "`a`", '"a" "b"', '"a"b', '"\\\n"', '"\\u00410"',
    '"\\ud83d\\ude00"', '"\U0001F600"', '"\\ud83d\ude00"',
    # white space
    " 1", "1 ", "\t1\t", "\n1\n", "\r1\r", " \t\n\r1 \t\n\r", "\ufeff1", "1\ufeff", "\ufeff", "\u00a01", "1\u00a0", "\u20281", "1\u2029", "\u000b1", "\u000c1",
    "1\u000b", "\u30001", "\u16801", "\u2003[]", "[\u00a0]", "[1,\u00a02]", "{\u00a0}", "{\"a\"\u00a0:1}", "\u0085 1", "\u180e1", "\u200b1", "\u00001", "1\u0000",
    # arrays
    "[]", "[ ]", "[\n]", "[1]", "[1,2]", "[1, 2 ,3]", "[1,]", "[,1]", "[,]", "[1,,2]", "[", "]", "[1", "[1,", "[[]", "[]]", "[1 2]", "[1;2]", "[1:2]", "[[[[[[]]]]]]",
    "[null,true,false]", "[[],[[]],{}]", "[] []", "[],", "[\"a\",]",
    # objects
    "{}", "{ }", '{"a":1}', '{"a":1,"b":2}', '{"a":1,}', '{,"a":1}', '{"a":1,,"b":2}', '{"a"}', '{"a":}', '{"a":1 "b":2}', '{"a" 1}', "{a:1}", "{'a':1}",
    '{1:1}', '{"a":1', '{"a":', '{"a"', '{"', "{", "}", '{"a":1}}', '{{"a":1}}', '{"a":1}{"b":2}', '{"a":1};', '({"a":1})', '{"a":undefined}', '{"a":[}]',
    '{"a":1,"a":2}', '{"a":1,"b":2,"a":3}', '{"a":{"x":1},"a":{"y":2}}', '{"a":1,"a":[],"a":null}', '{"b":1,"a":2,"b":3,"a":4}',
    '{"__proto__":1}', '{"__proto__":null}', '{"__proto__":{"x":1}}', '{"__proto__":[]}', '{"__proto__":1,"__proto__":2}', '{"a":1,"__proto__":{"a":2}}',
    '{"__proto__":{"toString":null}}', '[{"__proto__":[]}]', '{"\\u005f_proto__":1}', '{"constructor":1,"toString":2,"hasOwnProperty":3,"valueOf":4}',
    '{"b":1,"2":1,"1":1}', '{"10":1,"9":2,"a":3,"01":4,"1.0":5,"-0":6,"4294967294":7,"4294967295":8,"4294967296":9}', '{"length":1}', '{"":1}', '{"":1,"":2}',
    '{"\\u0061":1,"a":2}', '{"a":1,"\\u0061":2}', '{"\ud800":1,"\\ud800":2}', '{"0":1,"0":2}', '{"1":1,"0":2,"1":3}',
    '{"a":[1,{"b":[2,{"c":null}]}]}', '{"a" : 1 , "b" : [ ] }',
    # outside the grammar
    "", " ", "\n", "//c\n1", "/*c*/1", "1//c", "1/*c*/", "1;", "(1)", "1+1", "[1,2,3].length", "new Date()", "function(){}", "a", "$", "#", "\\u0031", "\\n1",
    '{"a":1}\n{"b":2}', "[1]\u0000", "\u0000", "\x1e[1]", "0\u2028", "<!--\n1", "1\n-->", "#!x\n1",
]


def adversarial_cases():
    return [{"kind": "adversarial", "units": u(t), "tags": ["adversarial"]} for t in ADVERSARIAL]


# ---------------------------------------------------------------------------------------------
# mutation of valid texts

INSERTS = [0x2C, 0x3A, 0x22, 0x5C, 0x5B, 0x5D, 0x7B, 0x7D, 0x30, 0x31, 0x2D, 0x2B, 0x2E, 0x65, 0x45, 0x20, 0x0A, 0x09, 0x0B, 0x0C, 0xA0, 0xFEFF, 0x2028,
           0x00, 0x1F, 0x7F, 0xD800, 0xDC00, 0x75, 0x6E, 0x74, 0x66, 0x27, 0x2F, 0x2A]


def tokens(units):
    """split into coarse tokens (strings, numbers/literals, punctuation, white space runs) as (start, end) spans"""
    out = []
    i = 0
    n = len(units)
    while i < n:
        c = units[i]
        j = i + 1
        if c == 0x22:
            while j < n:
                if units[j] == 0x5C:
                    j += 2
                    continue
                if units[j] == 0x22:
                    j += 1
                    break
                j += 1
            j = min(j, n)
        elif c in WS:
            while j < n and units[j] in WS:
                j += 1
        elif c in (0x5B, 0x5D, 0x7B, 0x7D, 0x2C, 0x3A):
            pass
        else:
            while j < n and units[j] not in WS and units[j] not in (0x5B, 0x5D, 0x7B, 0x7D, 0x2C, 0x3A, 0x22):
                j += 1
        out.append((i, j))
        i = j
    return out


def mutate(rng, units):
    t = list(units)
    if not t:
        return [rng.choice(INSERTS)], "insert-unit"
    r = rng.random()
    if r < 0.5:
        toks = tokens(t)
        a, b = rng.choice(toks)
        op = rng.choice(["delete-token", "dup-token", "replace-token", "swap-token"])
        if op == "delete-token":
            return t[:a] + t[b:], op
        if op == "dup-token":
            return t[:b] + t[a:b] + t[b:], op
        if op == "replace-token":
            c, d = rng.choice(toks)
            return t[:a] + t[c:d] + t[b:], op
        c, d = rng.choice(toks)
        if c < a:
            a, b, c, d = c, d, a, b
        if b > c:
            return t[:a] + t[b:], "delete-token"
        return t[:a] + t[c:d] + t[b:c] + t[a:b] + t[d:], op
    i = rng.randrange(len(t))
    op = rng.choice(["delete-unit", "insert-unit", "replace-unit", "truncate", "case-flip"])
    if op == "delete-unit":
        return t[:i] + t[i + 1:], op
    if op == "insert-unit":
        return t[:i] + [rng.choice(INSERTS)] + t[i:], op
    if op == "replace-unit":
        return t[:i] + [rng.choice(INSERTS)] + t[i + 1:], op
    if op == "truncate":
        return t[:i], op
    c = t[i]
    if 0x41 <= c <= 0x5A or 0x61 <= c <= 0x7A:
        return t[:i] + [c ^ 0x20] + t[i + 1:], op
    return t[:i] + [rng.choice(INSERTS)] + t[i + 1:], "replace-unit"


def mutant_case(rng, base_units):
    m, op = mutate(rng, base_units)
    if rng.random() < 0.15:
        m, op2 = mutate(rng, m)
        op = op + "+" + op2
    return {"kind": "mutant", "units": m, "tags": ["mut-" + op.split("+")[0]]}


# ---------------------------------------------------------------------------------------------
# nesting probes

def deep_case(rng, depth, shape=None):
    shape = shape or rng.choice(["array", "object", "mixed", "array-ws", "siblings"])
    inner = rng.choice(["", "1", "null", '"x"', "[]", "{}"])
    if shape == "array":
        t = "[" * depth + (inner if inner not in ("",) else "") + "]" * depth
        if inner in ("[]", "{}"):
            pass
    elif shape == "object":
        t = '{"a":' * depth + (inner or "0") + "}" * depth
    elif shape == "array-ws":
        t = "[ \n" * depth + inner + " ]" * depth
    elif shape == "siblings":
        # depth reached in the last element, earlier siblings shallow
        t = "[1,{}," * depth + (inner or "0") + "]" * depth
    else:
        ops = [rng.choice("ao") for _ in range(depth)]
        t = "".join("[" if o == "a" else '{"k":' for o in ops) + (inner or "0") + "".join("]" if o == "a" else "}" for o in reversed(ops))
    units = u(t)
    return {"kind": "deep", "units": units, "tags": ["deep-" + shape, "nest-%d" % max_depth(units)]}
