"""C09 property oracle on the implementation alone.

An abstract heap graph (no reference counts, no mark bits, nothing of boa's collector): external
handles, handles stored in nodes, ephemerons (key, value), weak-map tables.  It replays an operation
history against the observation lines printed by the harness `gcops` and checks the property itself:

  * safety      a node dropped by a collection was not reachable from an external handle at that point
                (reachability includes the ephemeron rule: a value is reachable if its ephemeron and its key are)
  * exactness   with no resurrecting finalizer involved, every node unreachable at a collection is finalized
                and dropped by it; finalized = dropped; nothing is finalized or dropped twice
  * weak        upgrade() / key() answers Some iff the key has not been dropped; value() likewise and its
                value is then not dropped either
  * no leak     after `reset` (every handle dropped, two collections) the heap statistics are all zero

The oracle only trusts the harness's own log (Drop / Finalize of its payload) and its tables of handles.
"""


class Violation(Exception):
    def __init__(self, kind, detail):
        Exception.__init__(self, "%s: %s" % (kind, detail))
        self.kind = kind
        self.detail = detail


def _ids(tok):
    tok = tok.strip("[]")
    return [int(x) for x in tok.split(",")] if tok else []


class Shadow:
    def __init__(self):
        self.reset()

    def reset(self):
        self.next_s = 0
        self.next_e = 0
        self.kind = {}        # box id -> 'n' | 'm'
        self.fin = {}         # node id -> finalizer kind
        self.kids = {}        # node id -> list of box ids
        self.ephs = {}        # node id -> list of eph ids ; map id -> list of entry eph ids
        self.data = {}        # eph id -> (key, value or None) or None when known cleared
        self.ext_s = {}       # id -> count
        self.ext_e = {}
        self.dropped = set()
        self.finalized = set()
        self.resurrection = False   # a finalizer added handles: exactness is no longer claimed

    def reach(self):
        seen, seen_e = set(), set()
        stack = [n for n, c in self.ext_s.items() if c > 0]
        work_e = [e for e, c in self.ext_e.items() if c > 0]
        changed = True
        while changed:
            changed = False
            while stack:
                n = stack.pop()
                if n in seen:
                    continue
                seen.add(n)
                changed = True
                stack.extend(self.kids.get(n, ()))
                work_e.extend(self.ephs.get(n, ()))
            for e in work_e:
                seen_e.add(e)
            work_e = []
            for e in seen_e:
                d = self.data.get(e)
                if d and d[0] in seen and d[1] is not None and d[1] not in seen:
                    stack.append(d[1])
                    changed = True
        return seen, seen_e

    def inc(self, tab, k):
        tab[k] = tab.get(k, 0) + 1

    def dec(self, tab, k):
        tab[k] -= 1
        if tab[k] == 0:
            del tab[k]

    def entry(self, m, k):
        for e in self.ephs.get(m, ()):
            d = self.data.get(e)
            if d and d[0] == k:
                return e
        return None

    def apply(self, w, res):
        """w: operation tokens; res: the harness result (text before ' | ').  Raises Violation."""
        r = res.split()
        op = w[0]
        if r[0] == "inv":
            return
        if r[0] in ("panic", "UAF"):
            raise Violation("impl-" + r[0].lower(), res)
        a = [int(x) for x in w[1:]] if op not in ("gc",) else []
        if op in ("new", "newc"):
            n = self.next_s
            self.next_s += 1
            self.kind[n] = "n"
            self.fin[n] = a[0]
            self.kids[n] = []
            self.ephs[n] = []
            self.inc(self.ext_s, n)
            if op == "newc":
                e = self.next_e
                self.next_e += 1
                self.data[e] = (n, None)
                self.ephs[n].append(e)
        elif op == "link":
            self.kids[a[0]].append(a[1])
        elif op == "unlink":
            self.kids[a[0]].remove(a[1])
        elif op == "load":
            if a[1] in self.dropped:
                raise Violation("load-of-dropped", " ".join(w))
            self.inc(self.ext_s, a[1])
        elif op == "clone":
            self.inc(self.ext_s, a[0])
        elif op == "drop":
            self.dec(self.ext_s, a[0])
        elif op == "weak":
            e = self.next_e
            self.next_e += 1
            self.data[e] = (a[0], None)
            self.inc(self.ext_e, e)
        elif op == "eph":
            e = self.next_e
            self.next_e += 1
            self.data[e] = (a[0], a[1])
            self.inc(self.ext_e, e)
        elif op == "clonee":
            self.inc(self.ext_e, a[0])
        elif op == "drope":
            self.dec(self.ext_e, a[0])
        elif op == "storee":
            self.ephs[a[0]].append(a[1])
        elif op == "unstoree":
            self.ephs[a[0]].remove(a[1])
        elif op == "loade":
            self.inc(self.ext_e, a[1])
        elif op in ("upg", "val"):
            d = self.data.get(a[0])
            key_alive = d is not None and d[0] not in self.dropped
            if r[0] == "some":
                got = int(r[1])
                if not key_alive:
                    raise Violation("weak-some-after-key-dropped", " ".join(w) + " -> " + res)
                want = d[0] if op == "upg" else d[1]
                if got != want or got in self.dropped:
                    raise Violation("weak-wrong-target", " ".join(w) + " -> " + res)
                self.inc(self.ext_s, got)
            elif r[0] == "unit":
                if not key_alive:
                    raise Violation("weak-some-after-key-dropped", " ".join(w) + " -> " + res)
            else:  # none
                if key_alive:
                    raise Violation("weak-none-while-key-live", " ".join(w) + " -> " + res)
                self.data[a[0]] = None
        elif op == "wmnew":
            m = self.next_s
            self.next_s += 1
            self.next_e += 1          # the registry WeakGc: never reachable by the mutator
            self.kind[m] = "m"
            self.kids[m] = []
            self.ephs[m] = []
            self.inc(self.ext_s, m)
        elif op == "wmins":
            old = self.entry(a[0], a[1])
            if old is not None:
                self.ephs[a[0]].remove(old)
            e = self.next_e
            self.next_e += 1
            self.data[e] = (a[1], a[2])
            self.ephs[a[0]].append(e)
        elif op == "wmrem":
            old = self.entry(a[0], a[1])
            if (old is not None) != (r[0] == "t"):
                raise Violation("weakmap-remove", " ".join(w) + " -> " + res)
            if old is not None:
                self.ephs[a[0]].remove(old)
        elif op == "wmget":
            old = self.entry(a[0], a[1])
            want = "none" if old is None else "some %d" % self.data[old][1]
            if res.strip() != want:
                raise Violation("weakmap-get", " ".join(w) + " -> " + res + " expected " + want)
        elif op == "read":
            kids = sorted(self.kids[a[0]])
            es = sorted(self.ephs[a[0]])
            want = "kids [%s] ephs [%s]" % (",".join(map(str, kids)), ",".join(map(str, es)))
            if res.strip() != want:
                raise Violation("read", " ".join(w) + " -> " + res + " expected " + want)
            for k in kids:
                if k in self.dropped:
                    raise Violation("read-of-dropped", " ".join(w))
        elif op == "gc":
            self.gc(res)

    def gc(self, res):
        toks = res.split()
        fin = _ids(toks[1])
        dr = _ids(toks[3])
        rs = _ids(toks[5])
        seen, _ = self.reach()
        for n in dr:
            if n in seen:
                raise Violation("freed-while-reachable", "node %d dropped, reachable before the collection; %s" % (n, res))
            if n in self.dropped:
                raise Violation("dropped-twice", "node %d; %s" % (n, res))
        for n in fin:
            if n in seen:
                raise Violation("finalized-while-reachable", "node %d; %s" % (n, res))
            if n in self.finalized and not self.resurrection:
                raise Violation("finalized-twice", "node %d; %s" % (n, res))
        if len(set(fin)) != len(fin) or len(set(dr)) != len(dr):
            raise Violation("duplicate-in-log", res)
        if rs:
            self.resurrection = True
            for n in rs:
                self.inc(self.ext_s, n)
        if "FREED-WHILE-HELD" in res:
            raise Violation("freed-while-held", res)
        for n in dr:
            if self.ext_s.get(n, 0) > 0:
                raise Violation("freed-while-held", res)
        self.finalized.update(fin)
        self.dropped.update(dr)
        if not self.resurrection:
            garbage = [n for n, k in self.kind.items() if k == "n" and n not in seen and n not in self.dropped]
            if garbage:
                raise Violation("unreachable-not-freed", "nodes %r survive; %s" % (sorted(garbage), res))
            if fin != dr:
                raise Violation("finalized-differs-from-dropped", res)
        # an ephemeron whose key is gone has lost its data
        for e, d in self.data.items():
            if d and d[0] in self.dropped:
                self.data[e] = None


def check_history(ops, lines):
    """ops: list of op strings (without the trailing reset); lines: harness lines for them (+ the reset line if present).
    Returns None or (index, kind, detail)."""
    sh = Shadow()
    for i, o in enumerate(ops):
        if i >= len(lines):
            return (i, "impl-output-missing", o)
        res = lines[i].split(" | ")[0]
        w = o.split()
        if not w:
            continue
        if w[0] == "stress":
            continue
        try:
            sh.apply(w, res)
        except Violation as v:
            return (i, v.kind, v.detail)
        except (KeyError, ValueError, IndexError) as ex:
            # the harness accepted an operation the abstract graph cannot explain
            return (i, "impl-accepted-invalid-op", "%s -> %s (%s)" % (o, res, type(ex).__name__))
    if len(lines) > len(ops):
        rl = lines[len(ops)]
        if rl.startswith("panic") or rl.startswith("UAF"):
            return (len(ops), "impl-panic-in-teardown", rl)
        if rl.startswith("reset") and rl.strip() != "reset | 0 0 0 0 0":
            return (len(ops), "leak-after-drop-all", rl)
    return None
