"""C04 program generator (over gen/jsast.py) and the converter from the jsast tree to the compact syntax of
coq/C04/Model_C04.v (`node`, wire tags in ocaml/C04/c04_driver.ml).

Programs are closed, deterministic and terminating (bounded loops, no recursion except bounded), print at
evaluation-order sensitive points, and are biased towards the shapes on which binding placement and the operand
shortcuts matter: captures in default parameters, arrows in loop heads, closures created in switch cases, `with`
around consts, direct eval introducing / reading / writing variables, generators capturing loop variables,
compound assignment and update on locals of every type, `x + (x = 5)` operand reuse, TDZ through switch cases,
loop bounds changed inside the loop (hoisting), comparisons of locals in branch position (fusion).
All randomness comes from the `random.Random` passed in."""
import jsast as A
from jsast import u, num, s as S, ident, call, member, pr

ADD, SUB, MUL = "BAdd", "BSub", "BMul"


class Unsupported(Exception):
    pass


# ------------------------------------------------------------------------------------------------
# converter jsast -> C04 node S-expression

class Conv:
    def __init__(self, p):
        self.p = p
        self.names = {"arguments": 0, "eval": 1}

    def nm(self, units):
        k = A.ustr(units)
        if k not in self.names:
            self.names[k] = len(self.names)
        return self.names[k]

    @staticmethod
    def L(items):
        return "(" + " ".join(items) + ")"

    def op(self, kids):
        return "(2 %s)" % self.L(kids)

    # ---- patterns
    def pat_parts(self, p, bound, inits):
        t = p[0]
        if t == "PId":
            bound.append(self.nm(p[1]))
        elif t == "PObj":
            for (k, q, d) in p[1]:
                if k[0] == "PKComputed":
                    inits.append(self.e(k[1]))
                self.pat_parts(q, bound, inits)
                if d is not None:
                    inits.append(self.e(d))
            if p[2] is not None:
                self.pat_parts(p[2], bound, inits)
        elif t == "PArr":
            for el in p[1]:
                if el is None:
                    continue
                q, d = el
                self.pat_parts(q, bound, inits)
                if d is not None:
                    inits.append(self.e(d))
            if p[2] is not None:
                self.pat_parts(p[2], bound, inits)
        else:
            raise Unsupported("binding pattern " + t)

    def bpat(self, p):
        if p[0] == "PId":
            return "(11 1 (%d) ())" % self.nm(p[1])
        bound, inits = [], []
        self.pat_parts(p, bound, inits)
        return "(11 0 %s %s)" % (self.L([str(b) for b in bound]), self.L(inits))

    def apat(self, p):
        """assignment target / pattern as an expression"""
        t = p[0]
        if t == "PId":
            return "(0 %d)" % self.nm(p[1])
        if t == "PExpr":
            return self.e(p[1])
        kids = []
        if t == "PObj":
            for (k, q, d) in p[1]:
                if k[0] == "PKComputed":
                    kids.append(self.e(k[1]))
                kids.append(self.apat(q))
                if d is not None:
                    kids.append(self.e(d))
        else:
            for el in p[1]:
                if el is None:
                    continue
                q, d = el
                kids.append(self.apat(q))
                if d is not None:
                    kids.append(self.e(d))
        if p[2] is not None:
            kids.append(self.apat(p[2]))
        return self.op(kids)

    # ---- functions
    def params(self, f):
        out = []
        for (p, d) in f["f_params"]:
            out.append("(12 %s %s 0)" % (self.bpat(p), self.L([self.e(d)] if d is not None else [])))
        if f["f_rest"] is not None:
            out.append("(12 %s () 1)" % self.bpat(f["f_rest"]))
        return self.L(out)

    def fbody(self, f):
        if f["f_expr_body"] is not None:
            return self.L(["(19 %s ())" % self.L([self.e(f["f_expr_body"])])])
        return self.stmts(f["f_body"], top=True)

    def fstrict(self, f):
        return "1" if f["f_strict"] else "0"

    def key(self, k):
        return [self.e(k[1])] if k[0] == "PKComputed" else []

    def klass(self, idx, decl_name=None):
        c = self.p["p_classes"][idx]
        h = [self.e(c["c_heritage"])] if c["c_heritage"] is not None else []
        ctor = []
        if c["c_ctor"] is not None and not self.p["p_funcs"][c["c_ctor"]].get("synthetic"):
            f = self.p["p_funcs"][c["c_ctor"]]
            ctor = ["(4 () 0 %s %s)" % (self.params(f), self.fbody(f))]
        elems = []
        for m in c["c_members"]:
            if m["cm_kind"] == "MField":
                init = []
                if m["cm_fidx"] is not None:
                    init = [self.e(self.p["p_funcs"][m["cm_fidx"]]["f_expr_body"])]
                elems.append("(9 %s %s)" % (self.L(self.key(m["cm_key"])), self.L(init)))
            else:
                f = self.p["p_funcs"][m["cm_fidx"]]
                elems.append("(8 %s %s)" % (self.params(f), self.fbody(f)))
        if decl_name is not None:
            return "(17 %d %s %s %s)" % (self.nm(decl_name), self.L(h), self.L(ctor), self.L(elems))
        nm = c["c_name"]
        return "(7 %s %s %s %s)" % (self.L([str(self.nm(nm))] if nm else []), self.L(h), self.L(ctor), self.L(elems))

    # ---- expressions
    def args(self, args):
        return [self.e(x[1]) for x in args]

    def e(self, e):
        t = e[0]
        if t in ("ENum", "EStr", "EBool", "ENull", "EBigInt", "ENewTarget", "ESuperMember"):
            return "(2 ())"
        if t == "EId":
            return "(0 %d)" % self.nm(e[1])
        if t == "EThis":
            return "(1)"
        if t == "EArray":
            return self.op([self.e(el[1]) for el in e[1] if el[0] != "AHole"])
        if t == "EObject":
            kids = []
            for pd in e[1]:
                if pd[0] == "PInit":
                    kids += self.key(pd[1]) + [self.e(pd[2])]
                elif pd[0] in ("PMethod", "PGet", "PSet"):
                    f = self.p["p_funcs"][pd[2]]
                    kids.append("(6 %s %s %s %s)" % (self.fstrict(f), self.L(self.key(pd[1])), self.params(f), self.fbody(f)))
                else:
                    kids.append(self.e(pd[1]))
            return self.op(kids)
        if t == "EFunc":
            f = self.p["p_funcs"][e[1]]
            if f["f_kind"] in ("FArrow", "FAsyncArrow"):
                return "(5 %s %s %s)" % (self.fstrict(f), self.params(f), self.fbody(f))
            nm = f["f_name"]
            return "(4 %s %s %s %s)" % (self.L([str(self.nm(nm))] if nm else []), self.fstrict(f), self.params(f), self.fbody(f))
        if t == "EClass":
            return self.klass(e[1])
        if t in ("EUnary",):
            return self.op([self.e(e[2])])
        if t in ("EDelete", "EParen", "EOptChain", "ESuperIndex"):
            return self.op([self.e(e[1])])
        if t in ("EBinary", "ELogical", "EOpAssign", "ELogAssign"):
            return self.op([self.e(e[2]), self.e(e[3])])
        if t == "EAssign":
            return self.op([self.apat(e[1]), self.e(e[2])])
        if t == "EUpdate":
            return self.op([self.e(e[3])])
        if t == "ECond":
            return self.op([self.e(e[1]), self.e(e[2]), self.e(e[3])])
        if t == "ECall":
            f = e[1]
            g = f
            while g[0] == "EParen":
                g = g[1]
            if g[0] == "EId" and A.ustr(g[1]) == "eval" and not e[3]:
                raise Unsupported("direct eval as ECall")
            return "(3 %s %s)" % (self.e(f), self.L(self.args(e[2])))
        if t == "ENew":
            return self.op([self.e(e[1])] + self.args(e[2]))
        if t == "EMember":
            return self.op([self.e(e[1])])
        if t == "EIndex":
            return self.op([self.e(e[1]), self.e(e[2])])
        if t == "ESuperCall":
            return self.op(self.args(e[1]))
        if t == "ESeq":
            return self.op([self.e(e[1]), self.e(e[2])])
        if t == "ETemplate":
            return self.op([self.e(x) for x in e[2]])
        raise Unsupported("expr " + t)

    # ---- statements
    def declrs(self, ds):
        return self.L(["(15 %s %s)" % (self.bpat(p), self.L([self.e(d)] if d is not None else [])) for (p, d) in ds])

    def decl(self, kind, ds_sexp):
        if kind == "KVar":
            return "(13 %s)" % ds_sexp
        return "(14 %d %s)" % (1 if kind == "KConst" else 0, ds_sexp)

    def sub(self, st):
        if st[0] in ("SDecl", "SFunDecl", "SClassDecl"):
            return "(18 %s)" % self.stmts([st], top=False)
        return self.st(st, top=False)

    def stmts(self, l, top):
        return self.L([self.st(x, top) for x in l])

    def ctl(self, es, ss):
        return "(19 %s %s)" % (self.L(es), self.L(ss))

    def susp(self, target, decl, inner):
        if target is None:
            return self.ctl([inner], [])
        if decl is not None:
            return self.decl(decl, self.L(["(15 %s %s)" % (self.bpat(target), self.L([inner]))]))
        return self.ctl([self.op([self.apat(target), inner])], [])

    def st(self, st, top):
        t = st[0]
        if t == "SExpr":
            return self.ctl([self.e(st[1])], [])
        if t == "SDecl":
            return self.decl(st[1], self.declrs(st[2]))
        if t == "SFunDecl":
            if not top:
                raise Unsupported("function declaration in a block (annex B)")
            f = self.p["p_funcs"][st[2]]
            return "(16 %d %s %s %s)" % (self.nm(st[1]), self.fstrict(f), self.params(f), self.fbody(f))
        if t == "SClassDecl":
            return self.klass(st[2], decl_name=st[1])
        if t == "SBlock":
            return "(18 %s)" % self.stmts(st[1], top=False)
        if t == "SIf":
            return self.ctl([self.e(st[1])], [self.sub(st[2])] + ([self.sub(st[3])] if st[3] is not None else []))
        if t == "SFor":
            init = st[1]
            if init[0] == "FINone":
                i = []
            elif init[0] == "FIExpr":
                i = [self.e(init[1])]
            else:
                i = [self.decl(init[1], self.declrs(init[2]))]
            c = [self.e(st[2])] if st[2] is not None else []
            up = [self.e(st[3])] if st[3] is not None else []
            return "(20 %s %s %s %s)" % (self.L(i), self.L(c), self.L(up), self.sub(st[4]))
        if t in ("SForIn", "SForOf"):
            h = st[1]
            if h[0] == "FHDecl":
                head = self.decl(h[1], self.L(["(15 %s ())" % self.bpat(h[2])]))
            else:
                head = self.apat(h[1])
            return "(21 %s %s %s)" % (head, self.e(st[2]), self.sub(st[3]))
        if t == "SWhile":
            return self.ctl([self.e(st[1])], [self.sub(st[2])])
        if t == "SDoWhile":
            return self.ctl([self.e(st[2])], [self.sub(st[1])])
        if t == "SSwitch":
            cases = []
            for (ce, body) in st[2]:
                cases.append("(23 %s %s)" % (self.L([self.e(ce)] if ce is not None else []), self.stmts(body, top=False)))
            return "(22 %s %s)" % (self.e(st[1]), self.L(cases))
        if t == "SLabel":
            if st[2][0] == "SFunDecl":
                raise Unsupported("labelled function")
            return self.ctl([], [self.st(st[2], top=False)])
        if t in ("SBreak", "SContinue", "SEmpty"):
            return self.ctl([], [])
        if t == "SReturn":
            return self.ctl([self.e(st[1])] if st[1] is not None else [], [])
        if t == "SThrow":
            return self.ctl([self.e(st[1])], [])
        if t == "STry":
            ss = ["(18 %s)" % self.stmts(st[1], top=False)]
            if st[2] is not None:
                param, hb = st[2]
                ss.append("(24 %s %s)" % (self.L([self.bpat(param)] if param is not None else []), self.stmts(hb, top=False)))
            if st[3] is not None:
                ss.append("(18 %s)" % self.stmts(st[3], top=False))
            return self.ctl([], ss)
        if t == "SWith":
            return "(25 %s %s)" % (self.e(st[1]), self.sub(st[2]))
        if t == "SYield":
            inner = self.op([self.e(st[3])] if st[3] is not None else [])
            return self.susp(st[1], st[2], inner)
        if t == "SAwait":
            return self.susp(st[1], st[2], self.op([self.e(st[3])]))
        if t == "SReturnAwait":
            return self.ctl([self.e(st[1])], [])
        if t == "SDirectEval":
            ev = "(3 (0 1) ((2 ())))"
            if st[1] is not None:
                return self.ctl([self.op([self.apat(st[1]), ev])], [])
            return self.ctl([ev], [])
        raise Unsupported("stmt " + t)


def to_c04(p):
    """-> (sexp of the statement list, {name: number})"""
    c = Conv(p)
    sx = c.stmts(p["p_body"], top=True)
    return sx, c.names


# ------------------------------------------------------------------------------------------------
# generator

VALS = [lambda: num(0), lambda: num(1), lambda: num(2), lambda: num(7), lambda: num(-3), lambda: num(0.5), lambda: num(-0.0),
        lambda: S("5"), lambda: S("a"), lambda: S(""), lambda: S("12"), lambda: ("EBool", True), lambda: ("EBool", False),
        lambda: ("ENull",), lambda: ("EUnary", "UVoid", num(0)), lambda: ("EBigInt", 3), lambda: num(float("nan")),
        lambda: ("EArray", [("AElem", num(1)), ("AElem", num(2))]), lambda: num(2147483647), lambda: num(10)]

ARITH = ["BAdd", "BSub", "BMul", "BDiv", "BMod", "BBitAnd", "BBitOr", "BBitXor", "BShl", "BShr", "BUShr"]
CMP = ["BLt", "BLe", "BGt", "BGe", "BEq", "BNe", "BSEq", "BSNe"]


class Var:
    __slots__ = ("name", "kind", "num")

    def __init__(self, name, kind, numeric=False):
        self.name, self.kind, self.num = name, kind, numeric


class Gen:
    def __init__(self, rng, strict=None):
        self.r = rng
        self.funcs = []
        self.classes = []
        self.counter = 0
        self.strict = (rng.random() < 0.2) if strict is None else strict
        self.features = set()
        self.budget = 45

    # ---- helpers
    def fresh(self, base="v"):
        self.counter += 1
        return "%s%d" % (base, self.counter)

    def add_func(self, **kw):
        self.funcs.append(A.func(**kw))
        return len(self.funcs) - 1

    def feat(self, f):
        self.features.add(f)

    def lit(self):
        return self.r.choice(VALS)()

    def numlit(self):
        return num(self.r.choice([0, 1, 2, 3, 5, 7, -1, 0.5, 10]))

    def pick(self, env, pred=None):
        """a variable of env; by default one that holds a plain value (never a function: printing one would print
        source text)"""
        if pred is None:
            pred = lambda v: v.kind not in ("fn", "fs", "arr", "ob")
        c = [v for sc in env for v in sc if pred(v)]
        return self.r.choice(c) if c else None

    def writable(self, env):
        return self.pick(env, lambda v: v.kind in ("let", "var", "param"))

    # ---- expressions
    def expr(self, env, d=0):
        r = self.r
        x = r.random()
        v = self.pick(env)
        if d > 2 or x < 0.18:
            return self.lit() if (v is None or r.random() < 0.4) else ident(v.name)
        if x < 0.34 and v is not None:
            return ident(v.name)
        if x < 0.52:
            return ("EBinary", r.choice(ARITH + ["BAdd", "BAdd"]), self.expr(env, d + 1), self.expr(env, d + 1))
        if x < 0.60:
            return ("EBinary", r.choice(CMP), self.expr(env, d + 1), self.expr(env, d + 1))
        if x < 0.66:
            return ("EUnary", r.choice(["UNeg", "UPos", "UNot", "UTypeof", "UBitNot"]), self.expr(env, d + 1))
        if x < 0.72:
            return ("ELogical", r.choice(["LAnd", "LOr", "LCoalesce"]), self.expr(env, d + 1), self.expr(env, d + 1))
        if x < 0.78:
            return ("ECond", self.expr(env, d + 1), self.expr(env, d + 1), self.expr(env, d + 1))
        if x < 0.90:
            return self.side_effect(env, d + 1)
        if x < 0.95:
            return ("ETemplate", [u("<"), u("|"), u(">")], [self.expr(env, d + 1), self.expr(env, d + 1)])
        return ("EArray", [("AElem", self.expr(env, d + 1)), ("AElem", self.expr(env, d + 1))])

    def side_effect(self, env, d=0):
        """an expression that writes a local: assignment, compound assignment, update, logical assignment"""
        r = self.r
        w = self.writable(env)
        if w is None:
            return self.expr(env, d + 1)
        t = ident(w.name)
        x = r.random()
        if x < 0.3:
            self.feat("assign-expr")
            return ("EAssign", ("PId", u(w.name)), self.expr(env, d + 1))
        if x < 0.6:
            self.feat("compound-assign")
            return ("EOpAssign", r.choice(ARITH + ["BAdd", "BAdd"]), t, self.expr(env, d + 1))
        if x < 0.9:
            self.feat("update")
            return ("EUpdate", r.random() < 0.5, r.random() < 0.6, t)
        self.feat("logical-assign")
        return ("ELogAssign", r.choice(["LAnd", "LOr", "LCoalesce"]), t, self.expr(env, d + 1))

    def reuse(self, env):
        """operand reuse: the same local read and written inside one expression"""
        r = self.r
        w = self.writable(env)
        if w is None:
            return self.expr(env)
        self.feat("operand-reuse")
        x = ident(w.name)
        wr = self.r.choice([
            ("EAssign", ("PId", u(w.name)), self.lit()),
            ("EOpAssign", r.choice(["BAdd", "BMul", "BSub"]), x, self.numlit()),
            ("EUpdate", r.random() < 0.5, True, x),
            ("EUpdate", False, False, x),
        ])
        if r.random() < 0.5:
            wr = self.contain(env, wr)
        op = r.choice(["BAdd", "BAdd", "BMul", "BSub", "BLt", "BSEq", "BBitAnd", "BBitOr", "BShl", "BGe", "BIn"])
        if op == "BIn" and wr[0] not in ("EObject", "EArray"):
            op = "BAdd"
        k = r.random()
        if k < 0.12:
            self.feat("operand-reuse-compound-assignment")
            return ("EOpAssign", r.choice(["BAdd", "BMul", "BSub", "BBitOr"]), x, wr)
        if k < 0.4:
            return ("EBinary", op, x, wr)
        if k < 0.6:
            return ("EBinary", op, wr, x)
        if k < 0.75:
            return ("EBinary", op, ("EBinary", "BAdd", x, wr), x)
        if k < 0.9:
            return ("EArray", [("AElem", x), ("AElem", wr), ("AElem", x)])
        return ("ETemplate", [u(""), u("-"), u("-"), u("")], [x, wr, x])

    def contain(self, env, wr):
        """hide a write of a local inside a larger right operand: a computed key, a call argument, a template / array /
        object literal, a conditional, a comma expression, an optional chain"""
        r = self.r
        arr = self.pick(env, lambda v: v.kind == "arr")
        ob = self.pick(env, lambda v: v.kind == "ob")
        shapes = ["call", "tpl", "cond", "comma", "arr", "obj"]
        if arr is not None:
            shapes += ["idx", "idx", "optidx", "idx-in-call"]
        if ob is not None:
            shapes += ["chain", "chain"]
        k = r.choice(shapes)
        self.feat("operand-reuse-in-" + k)
        if k == "idx":
            return ("EIndex", ident(arr.name), wr, False)
        if k == "optidx":
            return ("EOptChain", ("EIndex", ident(arr.name), wr, True))
        if k == "idx-in-call":
            return call(ident("Number"), ("EIndex", ident(arr.name), wr, False))
        if k == "chain":
            return ("EIndex", member(member(ident(ob.name), "p"), "q"), wr, False)
        if k == "call":
            return call(ident(r.choice(["Number", "String"])), wr)
        if k == "tpl":
            return ("ETemplate", [u("<"), u(">")], [wr])
        if k == "cond":
            return ("ECond", ("EBool", r.random() < 0.7), wr, num(0))
        if k == "comma":
            return ("ESeq", num(0), wr)
        if k == "arr":
            return ("EArray", [("AElem", num(1)), ("AElem", wr)])
        return ("EObject", [("PInit", ("PKStr", u("1")), num(0)), ("PInit", ("PKStr", u("k")), wr)])

    # ---- closures
    def closure(self, env, body_env_extra=(), arrow=None):
        """a function expression capturing variables of env: reads and (sometimes) writes them"""
        r = self.r
        arrow = (r.random() < 0.6) if arrow is None else arrow
        inner = env + [list(body_env_extra)]
        if r.random() < 0.5:
            body_e = self.expr(inner, 1) if r.random() < 0.6 else self.side_effect(inner, 1)
            if arrow:
                idx = self.add_func(kind="FArrow", expr_body=body_e)
            else:
                idx = self.add_func(kind="FNormal", body=[("SReturn", body_e)])
        else:
            body = self.block_body(inner, 2, 2) + [("SReturn", self.expr(inner, 1))]
            idx = self.add_func(kind="FArrow" if arrow else "FNormal", body=body)
        self.feat("closure")
        return ("EFunc", idx)

    # ---- statements
    def decl(self, env, kind=None):
        r = self.r
        kind = kind or r.choice(["let", "let", "const", "var"])
        name = self.fresh("x")
        if r.random() < 0.12:
            # shadow an outer name
            v = self.pick(env[:-2]) if len(env) > 2 else None   # never the directly enclosing scope (parameters, catch parameter)
            if v is not None and all(w.name != v.name for w in env[-1]) and kind != "var":
                name = v.name
                self.feat("shadowing")
        init = self.expr(env, 1) if r.random() < 0.5 else self.lit()
        st = ("SDecl", {"let": "KLet", "const": "KConst", "var": "KVar"}[kind], [(("PId", u(name)), init)])
        env[-1].append(Var(name, kind))
        return st

    def print_locals(self, env):
        vs = [v for sc in env[1:] for v in sc if v.kind not in ("fn", "fs", "arr", "ob")][-6:]
        if not vs:
            return []
        return [pr(*[ident(v.name) for v in vs])]

    def block_body(self, env, n, depth):
        out = []
        for _ in range(n):
            out += self.stmt(env, depth)
        return out

    def stmt(self, env, depth):
        r = self.r
        x = r.random()
        self.budget -= 1
        if depth <= 0 or self.budget <= 0:
            x = x * 0.42
        if x < 0.12:
            return [self.decl(env)]
        if x < 0.22:
            return [pr(self.expr(env))]
        if x < 0.30:
            return [("SExpr", self.side_effect(env)), ] + ([pr(self.expr(env))] if r.random() < 0.4 else [])
        if x < 0.42:
            return [pr(self.reuse(env))]
        if x < 0.50:
            return self.s_if(env, depth)
        if x < 0.62:
            return self.s_loop(env, depth)
        if x < 0.70:
            return self.s_switch(env, depth)
        if x < 0.76:
            return self.s_try(env, depth)
        if x < 0.84:
            return self.s_closure(env, depth)
        if x < 0.89 and not self.strict:
            return self.s_with(env, depth)
        if x < 0.93:
            return self.s_eval(env, depth)
        if x < 0.965:
            return self.s_hoist(env, depth)
        if x < 0.98:
            return self.s_tdz_assign(env, depth)
        return self.s_block(env, depth)

    def s_block(self, env, depth):
        inner = env + [[]]
        return [("SBlock", self.block_body(inner, self.r.randint(1, 3), depth - 1) + self.print_locals(inner))]

    def cond(self, env):
        """a comparison of locals in branch position (fused compare-and-branch)"""
        r = self.r
        self.feat("compare-branch")
        a = self.pick(env)
        lhs = ident(a.name) if a is not None and r.random() < 0.8 else self.expr(env, 2)
        rhs = self.expr(env, 2) if r.random() < 0.5 else self.lit()
        c = ("EBinary", r.choice(CMP), lhs, rhs)
        w = self.writable(env)
        if w is not None and r.random() < 0.2:
            # the compared local is written inside the other operand (fused compare-and-branch must read the old value)
            wx = ident(w.name)
            wr = r.choice([("EUpdate", False, True, wx), ("EOpAssign", "BAdd", wx, num(1)), ("EAssign", ("PId", u(w.name)), self.numlit())])
            c = ("EBinary", r.choice(["BLt", "BLe", "BGt", "BGe"]), wx, self.contain(env, wr) if r.random() < 0.7 else wr)
            self.feat("operand-reuse-in-branch-condition")
        if r.random() < 0.2:
            c = ("EUnary", "UNot", c)
        if r.random() < 0.2:
            c = ("ELogical", r.choice(["LAnd", "LOr"]), c, ("EBinary", r.choice(CMP), self.expr(env, 2), self.lit()))
        return c

    def s_if(self, env, depth):
        t = ("SBlock", self.block_body(env + [[]], 1, depth - 1))
        f = ("SBlock", self.block_body(env + [[]], 1, depth - 1)) if self.r.random() < 0.5 else None
        return [("SIf", self.cond(env), t, f)]

    def s_loop(self, env, depth):
        r = self.r
        k = r.random()
        i = self.fresh("i")
        n = r.randint(2, 4)
        fs = self.pick(env, lambda v: v.kind == "fs")
        if k < 0.45:
            # for (let i = 0[, g = () => i]; i < bound; i++) { ... closures capturing i ... }
            decls = [(("PId", u(i)), num(0))]
            inner0 = env + [[Var(i, "ctr", True)]]
            if r.random() < 0.35:
                g = self.fresh("g")
                decls.append((("PId", u(g)), self.closure(inner0, arrow=True)))
                inner0[-1].append(Var(g, "fn"))
                self.feat("arrow-in-loop-head")
            bound_v = self.pick(env, lambda v: v.num and v.kind in ("let", "var", "const", "param", "ctr"))
            if bound_v is not None and r.random() < 0.5:
                bound = ident(bound_v.name)
                self.feat("loop-bound-local")
            else:
                bound = num(n)
            condop = r.choice(["BLt", "BLt", "BLe", "BNe"]) if bound[0] == "ENum" else r.choice(["BLt", "BLe"])
            if condop == "BNe":
                bound = num(n)
            inner = inner0 + [[]]
            body = self.block_body(inner, r.randint(1, 3), depth - 1)
            if fs is not None and r.random() < 0.7:
                body.append(("SExpr", call(member(ident(fs.name), "push"), self.closure(inner))))
                self.feat("closure-captures-loop-var")
            if bound[0] == "EId" and r.random() < 0.5 and bound_v.kind not in ("const", "ctr"):
                # the bound changes inside the loop: a hoisted copy would be stale
                body.append(("SIf", ("EBinary", "BSEq", ident(i), num(1)),
                             ("SExpr", ("EOpAssign", "BSub", bound, num(1))), None))
                self.feat("loop-bound-mutated")
            upd = r.choice([("EUpdate", False, True, ident(i)), ("EUpdate", True, True, ident(i)),
                            ("EOpAssign", "BAdd", ident(i), num(1))])
            guard = ("SIf", ("EBinary", "BGt", ident(i), num(6)), ("SBreak", None), None)
            return [("SFor", ("FIDecl", "KLet", decls), ("EBinary", condop, ident(i), bound), upd, ("SBlock", [guard] + body))]
        if k < 0.6:
            # for (const v of [..]) / for (let k in obj)
            v = self.fresh("e")
            inner = env + [[Var(v, "const")], []]
            body = self.block_body(inner, r.randint(1, 2), depth - 1)
            if fs is not None:
                body.append(("SExpr", call(member(ident(fs.name), "push"), self.closure(inner))))
                self.feat("closure-captures-loop-var")
            if r.random() < 0.6:
                src = ("EArray", [("AElem", self.lit()) for _ in range(n)])
                return [("SForOf", ("FHDecl", r.choice(["KConst", "KLet"]), ("PId", u(v))), src, ("SBlock", body))]
            obj = ("EObject", [("PInit", ("PKStr", u(c)), self.lit()) for c in "pq"[:r.randint(1, 2)]])
            return [("SForIn", ("FHDecl", r.choice(["KConst", "KLet"]), ("PId", u(v))), obj, ("SBlock", body))]
        if k < 0.8:
            # while (i < n) { ...; i++ }  with var/let counter outside
            kind = r.choice(["let", "var"])
            env[-1].append(Var(i, "ctr", True))
            inner = env + [[]]
            body = self.block_body(inner, r.randint(1, 2), depth - 1)
            body.append(("SExpr", ("EUpdate", False, True, ident(i))))
            return [("SDecl", "KLet" if kind == "let" else "KVar", [(("PId", u(i)), num(0))]),
                    ("SWhile", ("EBinary", "BLt", ident(i), num(n)), ("SBlock", body))]
        # do { } while (--n > 0)
        env[-1].append(Var(i, "ctr", True))
        inner = env + [[]]
        body = self.block_body(inner, r.randint(1, 2), depth - 1)
        return [("SDecl", "KLet", [(("PId", u(i)), num(n))]),
                ("SDoWhile", ("SBlock", body), ("EBinary", "BGt", ("EUpdate", True, False, ident(i)), num(0)))]

    def s_switch(self, env, depth):
        r = self.r
        self.feat("switch")
        inner = env + [[]]
        d = self.expr(env, 2) if r.random() < 0.5 else num(r.randint(0, 3))
        cases = []
        ncase = r.randint(2, 4)
        fs = self.pick(env, lambda v: v.kind == "fs")
        declared = []
        for c in range(ncase):
            body = []
            if r.random() < 0.5:
                name = self.fresh("s")
                kind = r.choice(["let", "const"])
                body.append(("SDecl", "KLet" if kind == "let" else "KConst", [(("PId", u(name)), self.lit())]))
                declared.append(Var(name, kind))
                inner[-1].append(declared[-1])
                self.feat("switch-lexical")
            if declared and r.random() < 0.6:
                # read a lexical of (possibly) another case: TDZ when that case was skipped
                v = r.choice(declared)
                body.append(("STry", [pr(ident(v.name))], (("PId", u("err")), [pr(member(ident("err"), "name"))]), None))
                self.feat("switch-tdz")
            if fs is not None and r.random() < 0.5:
                body.append(("SExpr", call(member(ident(fs.name), "push"), self.closure(inner))))
                self.feat("closure-in-switch-case")
            body += self.block_body(inner, 1, depth - 1)
            if r.random() < 0.5:
                body.append(("SBreak", None))
            test = num(c) if r.random() < 0.85 else None
            cases.append((test, body))
        # at most one default
        seen = False
        fixed = []
        for (t, b) in cases:
            if t is None:
                if seen:
                    t = num(9)
                seen = True
            fixed.append((t, b))
        return [("SSwitch", d, fixed)]

    def s_try(self, env, depth):
        r = self.r
        self.feat("try-catch")
        e = self.fresh("e")
        body = self.block_body(env + [[]], 1, depth - 1)
        if r.random() < 0.6:
            body.append(("SThrow", self.lit()))
        cenv = env + [[Var(e, "let")], []]
        # error objects print implementation-defined text: keep only primitives in the parameter
        hb = [pr(("EUnary", "UTypeof", ident(e))),
              ("SIf", ("EBinary", "BSEq", ("EUnary", "UTypeof", ident(e)), S("object")), ("SExpr", ("EAssign", ("PId", u(e)), num(0))), None)] \
            + self.block_body(cenv, 1, depth - 1)
        fs = self.pick(env, lambda v: v.kind == "fs")
        if fs is not None and r.random() < 0.5:
            hb.append(("SExpr", call(member(ident(fs.name), "push"), self.closure(cenv))))
            self.feat("closure-captures-catch-param")
        if r.random() < 0.25:
            t = self.fresh("r")
            hb += [("SDecl", "KLet", [(("PId", u(t)), num(0))]), ("SDirectEval", ("PId", u(t)), [("SExpr", ("EUnary", "UTypeof", ident(e)))], False), pr(ident(t))]
            self.feat("eval-in-catch")
        fin = [pr(S("fin"))] if r.random() < 0.3 else None
        return [("STry", body, (("PId", u(e)), hb), fin)]

    def s_closure(self, env, depth):
        r = self.r
        k = r.random()
        if k < 0.5:
            f = self.fresh("f")
            st = ("SDecl", "KConst", [(("PId", u(f)), self.closure(env))])
            out = [st, pr(call(ident(f))), pr(call(ident(f)))]
            env[-1].append(Var(f, "fn"))
            return out
        if k < 0.75:
            # object literal with method / getter capturing locals
            o = self.fresh("o")
            inner = env + [[]]
            midx = self.add_func(kind="FMethod", body=[("SReturn", self.side_effect(inner, 1) if r.random() < 0.5 else self.expr(inner, 1))])
            gidx = self.add_func(kind="FGetter", body=[("SReturn", self.expr(inner, 1))])
            self.feat("object-method-capture")
            obj = ("EObject", [("PMethod", ("PKStr", u("m")), midx), ("PGet", ("PKStr", u("g")), gidx)])
            return [("SDecl", "KConst", [(("PId", u(o)), obj)]), pr(call(member(ident(o), "m")), member(ident(o), "g"))]
        # class with method / field / static block capturing locals
        cname = self.fresh("C")
        inner = env + [[]]
        midx = self.add_func(kind="FMethod", strict=True, body=[("SReturn", self.side_effect(inner, 1) if r.random() < 0.5 else self.expr(inner, 1))])
        members = [{"cm_static": r.random() < 0.3, "cm_kind": "MMethod", "cm_key": ("PKStr", u("m")), "cm_fidx": midx}]
        if r.random() < 0.6:
            fidx = self.add_func(kind="FFieldInit", strict=True, expr_body=self.expr(inner, 1))
            members.append({"cm_static": False, "cm_kind": "MField", "cm_key": ("PKStr", u("fld")), "cm_fidx": fidx})
        ctor = self.add_func(kind="FCtorBase", strict=True, body=[])
        self.funcs[ctor]["synthetic"] = True
        self.classes.append({"c_name": u(cname), "c_heritage": None, "c_ctor": ctor, "c_members": members})
        self.feat("class-capture")
        cidx = len(self.classes) - 1
        static = members[0]["cm_static"]
        inst = self.fresh("k")
        out = [("SClassDecl", u(cname), cidx), ("SDecl", "KConst", [(("PId", u(inst)), ("ENew", ident(cname), []))])]
        out.append(pr(call(member(ident(cname) if static else ident(inst), "m"))))
        if len(members) > 1:
            out.append(pr(member(ident(inst), "fld")))
        env[-1].append(Var(cname, "fn"))
        env[-1].append(Var(inst, "fn"))
        return out

    def s_with(self, env, depth):
        r = self.r
        self.feat("with")
        v = self.pick(env)
        props = [("PInit", ("PKStr", u("wp")), self.expr(env, 2) if r.random() < 0.5 else self.lit())]
        if v is not None and r.random() < 0.6:
            props.append(("PInit", ("PKStr", u(v.name)), self.expr(env, 2) if r.random() < 0.4 else self.lit()))
            self.feat("with-shadows-local")
        inner = env + [[Var("wp", "let")], []]
        body = self.block_body(inner, r.randint(1, 2), depth - 1)
        body.append(pr(ident("wp")))
        if v is not None:
            body.append(pr(ident(v.name)))
            if v.kind in ("let", "var", "param"):
                body.append(("SExpr", ("EAssign", ("PId", u(v.name)), self.lit())))
        cs = self.pick(env, lambda w: w.kind == "const")
        if cs is not None:
            body.append(pr(("EBinary", "BAdd", ident(cs.name), num(1))))
            self.feat("with-around-const")
        wobj = ("EObject", props)
        pre = []
        if r.random() < 0.4:
            # the object lives in a local: the object expression of `with` is an identifier occurrence
            wo = self.fresh("wo")
            pre = [("SDecl", "KConst", [(("PId", u(wo)), wobj)])]
            env[-1].append(Var(wo, "fn"))
            wobj = ident(wo)
            self.feat("with-object-is-local")
        out = pre + [("SWith", wobj, ("SBlock", body))]
        if v is not None:
            out.append(pr(ident(v.name)))
        return out

    def s_tdz_assign(self, env, depth):
        """a write to a `let` of the same block before its declaration ran (found by the C01 differential): the store
        must throw ReferenceError whether the binding is a register or an environment slot"""
        r = self.r
        z = self.fresh("z")
        self.feat("assign-before-let-declaration")
        handler = (("PId", u("err")), [pr(member(ident("err"), "name"))])
        w = r.choice([("EAssign", ("PId", u(z)), self.lit()), ("EAssign", ("PId", u(z)), self.lit()),
                      ("EOpAssign", "BAdd", ident(z), num(1)), ("EUpdate", False, True, ident(z))])
        body = [("STry", [("SExpr", w), pr(S("no error"))], handler, None), ("SDecl", "KLet", [(("PId", u(z)), self.lit())]), pr(ident(z))]
        fs = self.pick(env, lambda v: v.kind == "fs")
        if fs is not None and r.random() < 0.3:
            body.append(("SExpr", call(member(ident(fs.name), "push"), ("EFunc", self.add_func(kind="FArrow", expr_body=ident(z))))))
        return [("SBlock", body)]

    def s_hoist(self, env, depth):
        """loop conditions whose operand is a non-local const (candidate for hoisting out of the loop)"""
        r = self.r
        c, i, n = self.fresh("hc"), self.fresh("i"), self.fresh("hn")
        fs = self.pick(env, lambda v: v.kind == "fs")
        capture = [("SExpr", call(member(ident(fs.name), "push"), ("EFunc", self.add_func(kind="FArrow", expr_body=ident(c)))))] if fs is not None else []
        k = r.random()
        if k < 0.4 and not self.strict:
            # the const is shadowed by a property of a `with` object that changes during the loop
            o = self.fresh("wo")
            self.feat("hoist-const-under-with")
            loop = ("SFor", ("FIDecl", "KLet", [(("PId", u(i)), num(0))]), ("EBinary", "BLt", ident(i), ident(c)), ("EUpdate", False, True, ident(i)),
                    ("SBlock", [("SExpr", ("EUpdate", False, True, ident(n))),
                                ("SIf", ("EBinary", "BSEq", ident(i), num(0)), ("SExpr", ("EAssign", ("PExpr", member(ident(o), c)), num(1))), None),
                                ("SIf", ("EBinary", "BGt", ident(i), num(6)), ("SBreak", None), None)]))
            return [("SBlock", [("SDecl", "KConst", [(("PId", u(c)), num(3))]),
                                ("SDecl", "KConst", [(("PId", u(o)), ("EObject", [("PInit", ("PKStr", u(c)), num(3))]))]),
                                ("SDecl", "KLet", [(("PId", u(n)), num(0))])] + capture +
                     [("SWith", ident(o), ("SBlock", [loop])), pr(ident(n))])]
        handler = (("PId", u("err")), [pr(member(ident("err"), "name"))])
        if k < 0.7:
            # do-while: the condition reads a const that is still in its TDZ; the body must run first
            self.feat("hoist-dowhile-tdz")
            loop = ("SDoWhile", ("SBlock", [pr(S("body")), ("SExpr", ("EUpdate", False, True, ident(i)))]), ("EBinary", "BLt", ident(i), ident(c)))
        else:
            # while/for: the other operand has a side effect that must come before the TDZ error
            self.feat("hoist-lhs-side-effect-tdz")
            loop = ("SWhile", ("EBinary", "BLt", ("ESeq", call(ident("print"), S("lhs")), ident(i)), ident(c)), ("SBlock", [("SBreak", None)]))
        tdz = r.random() < 0.6
        decl = ("SDecl", "KConst", [(("PId", u(c)), num(2))])
        body = [("SDecl", "KLet", [(("PId", u(i)), num(0))])] + ([] if tdz else [decl]) + [("STry", [loop], handler, None)] + capture + ([decl] if tdz else []) + [pr(ident(i))]
        return [("SBlock", body)]

    def s_eval(self, env, depth):
        r = self.r
        self.feat("direct-eval")
        k = r.random()
        v = self.pick(env, lambda w: w.kind in ("let", "var", "const", "param"))
        if r.random() < 0.2 and v is not None:
            # direct eval inside an object-literal / class method or a named function expression, naming an outer binding
            t = self.fresh("r")
            kind = r.choice(["object-method", "class-method", "named-function-expression"])
            self.feat("eval-in-" + kind)
            nm = self.fresh("nf")
            what = ("EUnary", "UTypeof", ident(nm)) if kind == "named-function-expression" and r.random() < 0.5 else ident(v.name)
            mbody = [("SDecl", "KLet", [(("PId", u(t)), num(0))]), ("SDirectEval", ("PId", u(t)), [("SExpr", what)], False), ("SReturn", ident(t))]
            if kind == "object-method":
                midx = self.add_func(kind="FMethod", body=mbody)
                o = self.fresh("o")
                return [("SDecl", "KConst", [(("PId", u(o)), ("EObject", [("PMethod", ("PKStr", u("m")), midx)]))]), pr(call(member(ident(o), "m")))]
            if kind == "class-method":
                midx = self.add_func(kind="FMethod", strict=True, body=mbody)
                ctor = self.add_func(kind="FCtorBase", strict=True, body=[])
                self.funcs[ctor]["synthetic"] = True
                cname = self.fresh("C")
                self.classes.append({"c_name": u(cname), "c_heritage": None, "c_ctor": ctor,
                                     "c_members": [{"cm_static": True, "cm_kind": "MMethod", "cm_key": ("PKStr", u("m")), "cm_fidx": midx}]})
                env[-1].append(Var(cname, "fn"))
                return [("SClassDecl", u(cname), len(self.classes) - 1), pr(call(member(ident(cname), "m")))]
            fidx = self.add_func(name=nm, kind="FNormal", body=mbody)
            f = self.fresh("f")
            env[-1].append(Var(f, "fn"))
            return [("SDecl", "KConst", [(("PId", u(f)), ("EFunc", fidx))]), pr(call(ident(f)))]
        if k < 0.35 and v is not None:
            # eval reads / writes a local by name
            body = [("SExpr", ident(v.name))] if (v.kind == "const" or r.random() < 0.5) else \
                [("SExpr", ("EAssign", ("PId", u(v.name)), ("EBinary", "BAdd", ident(v.name), num(1))))]
            self.feat("eval-touches-local")
            t = self.fresh("r")
            env[-1].append(Var(t, "let"))
            return [("SDecl", "KLet", [(("PId", u(t)), num(0))]), ("SDirectEval", ("PId", u(t)), body, False), pr(ident(t), ident(v.name))]
        if k < 0.7 and not self.strict:
            # eval introduces a var into the function scope
            name = self.fresh("ev")
            self.feat("eval-introduces-var")
            out = [("SDirectEval", None, [("SDecl", "KVar", [(("PId", u(name)), self.lit())])], False),
                   pr(("EUnary", "UTypeof", ident(name)))]
            return out
        # eval creating a closure over the local scope
        if v is not None:
            t = self.fresh("c")
            idx = self.add_func(kind="FArrow", expr_body=ident(v.name))
            env[-1].append(Var(t, "fn"))
            self.feat("eval-creates-closure")
            return [("SDecl", "KLet", [(("PId", u(t)), ("ENull",))]), ("SDirectEval", ("PId", u(t)), [("SExpr", ("EFunc", idx))], False),
                    pr(call(ident(t)))]
        return [pr(self.expr(env))]

    # ---- functions
    def function(self, genv, generator=False):
        r = self.r
        name = self.fresh("f")
        params = []
        penv = []
        nparams = r.randint(0, 3)
        simple = True
        for k in range(nparams):
            p = self.fresh("p")
            d = None
            if r.random() < 0.4:
                simple = False
                x = r.random()
                if x < 0.5 and penv:
                    # a closure in a default parameter capturing an earlier parameter
                    d = self.closure([genv[0], list(penv)], arrow=r.random() < 0.7)
                    self.feat("closure-in-default-param")
                elif x < 0.75 and penv:
                    d = ("EBinary", "BAdd", ident(r.choice(penv).name), num(1))
                    self.feat("default-param-reads-param")
                else:
                    d = self.lit()
            params.append((("PId", u(p)), d))
            penv.append(Var(p, "fn" if (d is not None and d[0] == "EFunc") else "param", d is None))
        fstrict = (not self.strict) and all(d is None for (_p, d) in params) and r.random() < 0.2
        env = [genv[0], penv, []]
        saved = self.strict
        self.strict = self.strict or fstrict
        fs = self.fresh("fs")
        body = [("SDecl", "KConst", [(("PId", u(fs)), ("EArray", []))])]
        env[-1].append(Var(fs, "fs"))
        nm = self.fresh("n")
        body.append(("SDecl", "KLet", [(("PId", u(nm)), num(r.randint(2, 4)))]))
        env[-1].append(Var(nm, "let", True))
        ar, ob = self.fresh("arr"), self.fresh("ob")
        body.append(("SDecl", "KConst", [(("PId", u(ar)), ("EArray", [("AElem", num(v)) for v in (10, 20, 30, 40, 50)]))]))
        body.append(("SDecl", "KConst", [(("PId", u(ob)), ("EObject", [("PInit", ("PKStr", u("p")), ("EObject", [("PInit", ("PKStr", u("q")),
                     ("EArray", [("AElem", num(v)) for v in (3, 4, 5, 6)]))]))]))]))
        env[-1].append(Var(ar, "arr"))
        env[-1].append(Var(ob, "ob"))
        if r.random() < 0.3:
            body.append(pr(member(ident("arguments"), "length")))
            self.feat("arguments-length")
        body += self.block_body(env, r.randint(3, 6), 2)
        body += self.print_locals(env)
        # call every collected closure
        c = self.fresh("c")
        body.append(("SForOf", ("FHDecl", "KConst", ("PId", u(c))), ident(fs),
                     ("SBlock", [("STry", [pr(call(ident(c)))], (("PId", u("err")), [pr(member(ident("err"), "name"))]), None)])))
        body += self.print_locals(env)
        if generator:
            self.feat("generator")
            # yield closures capturing a loop variable
            i = self.fresh("i")
            yb = [("SYield", None, None, self.closure(env + [[Var(i, "ctr", True)]], arrow=True), False)]
            body.append(("SFor", ("FIDecl", "KLet", [(("PId", u(i)), num(0))]), ("EBinary", "BLt", ident(i), num(3)),
                         ("EUpdate", False, True, ident(i)), ("SBlock", yb)))
            self.feat("generator-captures-loop-var")
        else:
            body.append(("SReturn", self.expr(env, 1)))
        self.strict = saved
        idx = self.add_func(name=name, kind="FGenerator" if generator else "FNormal", params=params, body=body, strict=fstrict,
                            uses_args=True)
        return name, idx, nparams

    def program(self):
        r = self.r
        g = [[]]
        body = []
        for k in range(r.randint(0, 2)):
            nm = self.fresh("g")
            kind = r.choice(["var", "let", "const"])
            body.append(("SDecl", {"var": "KVar", "let": "KLet", "const": "KConst"}[kind], [(("PId", u(nm)), self.lit())]))
            g[0].append(Var(nm, kind))
        calls = []
        for k in range(r.randint(1, 3)):
            gen = r.random() < 0.25
            name, idx, np = self.function(g, generator=gen)
            body.append(("SFunDecl", u(name), idx))
            args = [self.lit() for _ in range(r.randint(0, np))]
            if gen:
                c = self.fresh("y")
                calls.append(("SForOf", ("FHDecl", "KConst", ("PId", u(c))), call(ident(name), *args),
                              ("SBlock", [pr(call(ident(c)))])))
            else:
                calls.append(("STry", [pr(call(ident(name), *args))], (("PId", u("err")), [pr(member(ident("err"), "name"))]), None))
                if r.random() < 0.3:
                    calls.append(("STry", [pr(call(ident(name), *[self.lit() for _ in range(np)]))],
                                  (("PId", u("err")), [pr(member(ident("err"), "name"))]), None))
        # some top-level (global scope) statements as well
        if r.random() < 0.7:
            # global-scope code: here the contains_direct_eval flag of each block / loop / catch / switch decides alone
            tl = [g[0], []]
            self.budget = max(self.budget, 12)
            body += [("SBlock", self.block_body(tl, r.randint(1, 3), 2) + self.print_locals(tl))]
            self.feat("top-level-block")
        if r.random() < 0.35:
            body += self.top_level_eval()
        body += calls
        return A.prog(body, funcs=self.funcs, classes=self.classes, strict=self.strict)

    def top_level_eval(self):
        """a direct eval inside a scope-bearing statement of the script itself: no enclosing function is flagged, the
        statement's own contains_direct_eval flag is what makes its bindings escape"""
        r = self.r
        t, v = self.fresh("r"), self.fresh("b")
        self.feat("top-level-eval-in-scope")
        ev = lambda name: [("SDirectEval", ("PId", u(t)), [("SExpr", ident(name))], False), pr(ident(t))]
        k = r.randrange(5)
        pre = [("SDecl", "KVar", [(("PId", u(t)), num(0))])]
        if k == 0:
            return pre + [("SBlock", [("SDecl", "KLet", [(("PId", u(v)), self.lit())])] + ev(v))]
        if k == 1:
            return pre + [("STry", [("SThrow", self.lit())], (("PId", u(v)), ev(v)), None)]
        if k == 2:
            return pre + [("SFor", ("FIDecl", "KLet", [(("PId", u(v)), num(0))]), ("EBinary", "BLt", ident(v), num(2)),
                           ("EUpdate", False, True, ident(v)), ("SBlock", ev(v)))]
        if k == 3:
            return pre + [("SForOf", ("FHDecl", "KConst", ("PId", u(v))), ("EArray", [("AElem", self.lit()), ("AElem", self.lit())]), ("SBlock", ev(v)))]
        return pre + [("SSwitch", num(1), [(num(1), [("SDecl", "KConst", [(("PId", u(v)), self.lit())])] + ev(v))])]


def generate(rng):
    """-> (program, feature set)"""
    g = Gen(rng)
    p = g.program()
    return p, sorted(g.features)


# hand-written seeds: the shapes of DESIGN.md section 5 #1 #2 #7 and the eval shapes found while building the check
def seed_programs():
    out = []

    def fprog(body, params=(), strict=False):
        f = A.func(name="f", params=list(params), body=body, strict=strict)
        return A.prog([("SFunDecl", u("f"), 0), pr(call(ident("f")))], funcs=[f])

    let = lambda n, e: ("SDecl", "KLet", [(("PId", u(n)), e)])
    out.append(("operand-reuse-add", fprog([let("x", num(1)), ("SReturn", ("EBinary", "BAdd", ident("x"), ("EAssign", ("PId", u("x")), num(5))))])))
    out.append(("postfix-string", fprog([let("p", S("5")), let("q", ("EUpdate", False, True, ident("p"))),
                                         ("SReturn", ("EUnary", "UTypeof", ident("q")))])))
    out.append(("switch-tdz", fprog([let("y", num(7)), ("SSwitch", num(1), [(num(0), [let("x", num(1))]), (num(1), [("SReturn", ident("x"))])])])))
    out.append(("loop-bound", fprog([let("n", num(3)), let("c", num(0)),
                                     ("SFor", ("FIDecl", "KLet", [(("PId", u("i")), num(0))]), ("EBinary", "BLt", ident("i"), ident("n")),
                                      ("EUpdate", False, True, ident("i")),
                                      ("SBlock", [("SIf", ("EBinary", "BSEq", ident("i"), num(1)), ("SExpr", ("EOpAssign", "BSub", ident("n"), num(1))), None),
                                                  ("SExpr", ("EUpdate", False, True, ident("c")))])),
                                     ("SReturn", ident("c"))])))
    handler0 = (("PId", u("e")), [pr(member(ident("e"), "name"))])
    out.append(("tdz-assign-before-init", fprog([("STry", [("SExpr", ("EAssign", ("PId", u("z")), num(1))), pr(S("no error"))], handler0, None),
                                                 let("z", num(10)), ("SReturn", ident("z"))])))
    # direct eval inside a method / named function expression naming an outer function-local binding
    m = A.func(kind="FMethod", body=[let("r", num(0)), ("SDirectEval", ("PId", u("r")), [("SExpr", ident("x"))], False), ("SReturn", ident("r"))])
    f = A.func(name="f", body=[let("x", num(1)), ("SDecl", "KConst", [(("PId", u("o")), ("EObject", [("PMethod", ("PKStr", u("m")), 0)]))]),
                               ("SReturn", call(member(ident("o"), "m")))])
    out.append(("eval-in-object-method", A.prog([("SFunDecl", u("f"), 1), pr(call(ident("f")))], funcs=[m, f])))
    nf = A.func(name="fact", body=[let("r", num(0)), ("SDirectEval", ("PId", u("r")), [("SExpr", ("EUnary", "UTypeof", ident("fact")))], False), ("SReturn", ident("r"))])
    out.append(("eval-in-named-function-expression", A.prog([pr(call(("EFunc", 0)))], funcs=[nf])))
    # loop-invariant hoisting of a const: under `with`, before a do-while body, before the other operand
    body = [("SDecl", "KConst", [(("PId", u("c")), num(3))]), ("SDecl", "KConst", [(("PId", u("o")), ("EObject", [("PInit", ("PKStr", u("c")), num(3))]))]),
            let("n", num(0)),
            ("SWith", ident("o"), ("SBlock", [("SFor", ("FIDecl", "KLet", [(("PId", u("i")), num(0))]), ("EBinary", "BLt", ident("i"), ident("c")),
                                               ("EUpdate", False, True, ident("i")),
                                               ("SBlock", [("SExpr", ("EUpdate", False, True, ident("n"))),
                                                           ("SIf", ("EBinary", "BSEq", ident("i"), num(0)), ("SExpr", ("EAssign", ("PExpr", member(ident("o"), "c")), num(1))), None)]))])),
            pr(ident("n"))]
    out.append(("hoist-const-under-with", A.prog(body)))
    handler = (("PId", u("e")), [pr(member(ident("e"), "name"))])
    out.append(("hoist-dowhile-tdz", A.prog([("SDecl", "KVar", [(("PId", u("i")), num(0))]),
                                              ("STry", [("SDoWhile", ("SBlock", [pr(S("body")), ("SExpr", ("EUpdate", False, True, ident("i")))]),
                                                         ("EBinary", "BLt", ident("i"), ident("c")))], handler, None),
                                              ("SDecl", "KConst", [(("PId", u("c")), num(2))]), pr(ident("i"))])))
    out.append(("hoist-lhs-side-effect-tdz", A.prog([("STry", [("SWhile", ("EBinary", "BLt", ("ESeq", call(ident("print"), S("lhs")), num(0)), ident("c")),
                                                                 ("SBlock", [("SBreak", None)]))], handler, None),
                                                      ("SDecl", "KConst", [(("PId", u("c")), num(1))])])))
    return out
